"""C13 proof layer: kernel identities of the DRT methods on the real functions (pointwise, symbolic):
TR-NNLS kernel == real / -imaginary part of 1/(1+j w tau) weighted by delta ln tau; model impedance uses the same kernel;
normalisation and gamma = g*R_pol scale correctly; sign; Loewner pole/residue -> (tau, R); m(RQ)fit closed forms."""
from __future__ import annotations

from fractions import Fraction

import z3

from pyvc import overload as O
from pyvc.core import Session
from pyvc.cq import Q
from pyvc.overload import SQ, csym, sym
from . import lemmas as L

NNLS = "analysis/drt/tr_nnls"
LM = "analysis/drt/lm"
MRQ = "analysis/drt/mrq_fit"


class PV(SQ):
    """a per-index generic value: x[i] is the generic element"""
    size = 3

    def __getitem__(self, i):
        return self

    def __len__(self):
        return 3


def pv(name):
    return PV(z3.Real(name), z3.RealVal(0))


class RowRec:
    def __init__(self):
        self.rows = []

    def __setitem__(self, key, val):
        self.rows.append((key, val))


def target_nnls_kernel():
    def run(sess: Session):
        for is_imag in (False, True):
            ctx = L.fresh_ctx([z3.Real("omega") > 0, z3.Real("tau") > 0, z3.Real("c") > 0])
            P = ctx.P
            rec = RowRec()
            ns = L.load(NNLS, ["_generate_A_matrix", "_generate_model_impedance", "_normalize_impedance"], {"zeros": lambda *a, **k: rec})
            om, tau, d, g, c = pv("omega"), sym("tau"), sym("dlntau"), sym("g"), sym("c")
            ns["_generate_A_matrix"](om, tau, d, is_imag)
            a = rec.rows[-1][1]
            k = 1 / (1 + 1j * om * tau)                      # Debye kernel of the DRT integral  Z_norm(w) = int gamma(tau)/(1+jw tau) dln tau
            want = d * ((-1 * k.imag) if is_imag else k.real)
            sess.check_qeq("lemma", P, a, want, 0, label=f"A[i,j] == dlntau_j * {'-Im' if is_imag else 'Re'}(1/(1+j w_i tau_j))")
            sess.check("post", [], z3.BoolVal(len(rec.rows) == 3 and all(isinstance(kk_[0], int) and kk_[1] == slice(None) for kk_, _ in rec.rows)), 0, label="one row per frequency")
            # frequency scaling: w -> c w, tau -> tau / c leaves every entry unchanged
            rec2 = RowRec()
            ns2 = L.load(NNLS, ["_generate_A_matrix"], {"zeros": lambda *a_, **k_: rec2})
            ns2["_generate_A_matrix"](PV((c * om).re, (c * om).im, (c * om).den), tau / c, d, is_imag)
            sess.check_qeq("lemma", P, rec2.rows[-1][1], a, 0, label="A(c*w, tau/c) == A(w, tau)")
            # model impedance: the summand is A[i,j]*g_j, times R_pol (+ R_inf on the real branch), sign of the imaginary branch
            store = {}

            class Vec1:
                def __setitem__(self, i, v):
                    store["v"] = v

                def __rmul__(self, r):
                    return r * store["v"]
            Zs, R_inf, R_pol = csym("Z"), sym("R_inf"), sym("R_pol")
            got = {}

            def fromiter(m, dtype=None, count=None):
                return m
            ns3 = L.load(NNLS, ["_generate_model_impedance"], {"zeros": lambda *a_, **k_: Vec1(), "fromiter": fromiter, "map": lambda f, z: f(z), "zip": lambda a_, b_: (a_, b_),
                                                               "complex": lambda re, im: re + 1j * im, "ComplexImpedance": None, "len": lambda x: 3})
            Zm = ns3["_generate_model_impedance"](om, tau, d, None, g, Zs, R_inf, R_pol, is_imag)
            if is_imag:
                sess.check_qeq("lemma", P, Zm, Zs.real + 1j * (-1 * (R_pol * (a * g))), 0, label="model(imag) == Re Z_exp - j R_pol*(A g)")
            else:
                sess.check_qeq("lemma", P, Zm, (R_pol * (a * g) + R_inf) + 1j * Zs.imag, 0, label="model(real) == R_pol*(A g) + R_inf + j Im Z_exp")
            sess.check_qeq("canary", P, a, want * 2, 0, label="2*kernel", expect_refuted=True)
        sess.assumptions.append("scipy nnls returns g >= 0; the sums over tau_j follow from termwise equality (Sigma rule)")
    return (f"{NNLS}:_generate_A_matrix", NNLS, "_generate_A_matrix", run)


def target_normalize():
    def run(sess: Session):
        ctx = L.fresh_ctx([z3.Real("c") > 0, z3.Real("Zl_re") != z3.Real("Z0_re")])
        P = ctx.P

        class ZArr(SQ):
            def __getitem__(s, i):
                return s.first if i == 0 else s.last

            def _w(s, q):
                r = ZArr(q.re, q.im, q.den)
                return r

            def __sub__(s, o):
                r = ZArr(*(lambda q: (q.re, q.im, q.den))(Q.__sub__(s, Q.lift(o))))
                r.first, r.last = s.first - o, s.last - o
                return r

            def __truediv__(s, o):
                r = ZArr(*(lambda q: (q.re, q.im, q.den))(Q.__truediv__(s, Q.lift(o))))
                r.first, r.last = s.first / o, s.last / o
                return r
            __itruediv__ = __truediv__

        def mk(scale):
            z, z0, zl = csym("Z") * scale, csym("Z0") * scale, csym("Zl") * scale
            a = ZArr(z.re, z.im, z.den)
            a.first, a.last = z0, zl
            return a
        ns = L.load(NNLS, ["_normalize_impedance"])
        c = sym("c")
        Zn, Rinf, Rpol = ns["_normalize_impedance"](mk(SQ.of(1)))
        Zn2, Rinf2, Rpol2 = ns["_normalize_impedance"](mk(c))
        Z0, Zl, Z = csym("Z0"), csym("Zl"), csym("Z")
        sess.check_qeq("post", P, Rinf, Z0.real, 0, label="R_inf == Re Z(highest frequency)")
        sess.check_qeq("post", P, Rpol, Zl.real - Z0.real, 0, label="R_pol == Re Z(lowest) - Re Z(highest)")
        sess.check_qeq("post", P, Zn * Rpol, Z - Rinf, 0, label="Z_norm == (Z - R_inf)/R_pol")
        sess.check_qeq("lemma", P, Rpol2, c * Rpol, 0, label="R_pol(cZ) == c*R_pol(Z)")
        sess.check_qeq("lemma", P, Zn2, Zn, 0, label="Z_norm(cZ) == Z_norm(Z)  (so g is unchanged and gamma = g*R_pol scales by c)")
        g, rp = z3.Reals("g R_pol")
        sess.check("lemma", [g >= 0, rp > 0], g * rp >= 0, 0, label="g >= 0 and R_pol > 0 => gamma = g*R_pol >= 0")
    return (f"{NNLS}:_normalize_impedance", NNLS, "_normalize_impedance", run)


def target_lm_peaks():
    def run(sess: Session):
        ctx = L.fresh_ctx([z3.Real("tau_k") > 0])
        P = ctx.P
        tau_k, R_k = sym("tau_k"), sym("R_k")
        lam = -1 / tau_k                      # pole of R_k/(1 + s tau_k) = (R_k/tau_k)/(s - lam)
        res = R_k / tau_k                     # its residue

        class M:
            def __init__(s, name):
                s.name = name

            def __matmul__(s, o):
                return M(f"{s.name}@{o.name}")

            @property
            def T(s):
                return M(s.name + ".T")

            def __mul__(s, o):
                return res          # Bt * Ct.T : the residues (assumed eigen-decomposition contract)
        ns = L.load(LM, ["_extract_peaks"], {"eig": lambda A, E: (lam, M("V")), "solve": lambda a, b: M("solve")})
        O.load(LM, ["_extract_peaks"], ns)
        tc, gm = ns["_extract_peaks"](M("Ek"), M("Ak"), M("Bk"), M("Ck"))
        sess.check("lemma", P.hyps, P.eq_goal(tc, tau_k), 0, label="pole -1/tau_k => reported time constant == tau_k")
        sess.check_qeq("lemma", P, gm, R_k, 0, label="residue R_k/tau_k at pole -1/tau_k => reported gamma == R_k")
        sess.assumptions.append("scipy.linalg.eig / numpy.linalg.solve deliver poles and residues of the reduced Loewner model")
    return (f"{LM}:_extract_peaks", LM, "_extract_peaks", run)


def target_mrq():
    def run(sess: Session):
        for n in (1.0, 0.8):
            ctx = L.fresh_ctx([z3.Real("R") > 0, z3.Real("Y") > 0, z3.Real("tau") > 0, z3.Real("W") > 0])
            P = ctx.P
            R, Y, tau, W = sym("R"), sym("Y"), sym("tau"), sym("W")

            class El:
                def __init__(s, v):
                    s.v = v

                def get_values(s):
                    return s.v

            class Par:
                def get_elements(s, recursive=True):
                    return [El({"R": R}), El({"Y": Y, "n": n})]

            class Ser:
                pass

            class Circ:
                def get_connections(s):
                    return [Ser(), Par()]
            app = lambda name: (lambda x: SQ.of(P.app(name, [Q.lift(x)])))

            class Tau(SQ):
                shape = (3,)
            t = Tau(tau.re, tau.im, tau.den)

            class Acc:
                def __init__(s):
                    s.v = SQ.of(0)

                def __iadd__(s, o):
                    s.v = s.v + o
                    return s
            acc = Acc()
            ns = L.load(MRQ, ["_calculate_tau_gamma"], {"_interpolate": lambda f, num_per_decade: 1 / (2 * O.base_namespace()["pi"] * t), "zeros": lambda *a, **k: acc,
                                                        "Series": Ser, "Parallel": Par, "isinstance": isinstance, "_is_floating": lambda x: True, "isclose": lambda a, b, atol=0: abs(float(a) - b) <= atol,
                                                        "abs": abs, "exp": app("exp"), "ln": app("log"), "sin": app("sin"), "cos": app("cos"), "cosh": app("cosh")})
            pi = ns["pi"]
            tt, gam = ns["_calculate_tau_gamma"](Circ(), None, W, 10)
            tau0 = (R * Y) ** (1.0 / n)
            if n == 1.0:
                want = R / (W * ns["sqrt"](pi)) * ns["exp"](-1 * (ns["ln"](tt / tau0) / W) ** 2)
            else:
                want = R / (2 * pi) * ns["sin"]((1 - n) * pi) / (ns["cosh"](n * ns["ln"](tt / tau0)) - ns["cos"]((1 - n) * pi))
            sess.check("lemma", P.hyps, P.eq_goal(gam.v, want), 0, label=f"[n={n}] gamma(tau) == documented closed form with tau_0=(R*Y)^(1/n)")
            sess.check("canary", P.hyps, P.eq_goal(gam.v, want * 2), 0, label="2*gamma", expect_refuted=True)
        sess.assumptions.append("that the closed forms integrate to R over ln(tau) is calculus, checked numerically by the bounded layer")
    return (f"{MRQ}:_calculate_tau_gamma", MRQ, "_calculate_tau_gamma", run)


def target_mrq_two_elements():
    """two parallel elements in series, (RQ) followed by (RC): gamma is the SUM of the two closed forms, each with its own
    R, Y|C, n -- nothing of one element may leak into the other"""
    def run(sess: Session):
        ctx = L.fresh_ctx([z3.Real(n_) > 0 for n_ in ("R1", "Y1", "R2", "C2", "tau", "W")])
        P = ctx.P
        R1, Y1, R2, C2, tau, W = (sym(n_) for n_ in ("R1", "Y1", "R2", "C2", "tau", "W"))
        n1 = 0.8

        class El:
            def __init__(s, v):
                s.v = v

            def get_values(s):
                return s.v

        class Par:
            def __init__(s, els):
                s.els = els

            def get_elements(s, recursive=True):
                return s.els

        class Ser:
            pass

        class Circ:
            def get_connections(s):
                return [Ser(), Par([El({"R": R1}), El({"Y": Y1, "n": n1})]), Par([El({"R": R2}), El({"C": C2})])]
        app = lambda name: (lambda x: SQ.of(P.app(name, [Q.lift(x)])))

        class Tau(SQ):
            shape = (3,)
        t = Tau(tau.re, tau.im, tau.den)

        class Acc:
            def __init__(s):
                s.v = SQ.of(0)

            def __iadd__(s, o):
                s.v = s.v + o
                return s
        acc = Acc()
        ns = L.load(MRQ, ["_calculate_tau_gamma"], {"_interpolate": lambda f, num_per_decade: 1 / (2 * O.base_namespace()["pi"] * t), "zeros": lambda *a, **k: acc,
                                                    "Series": Ser, "Parallel": Par, "isinstance": isinstance, "_is_floating": lambda x: True, "isclose": lambda a, b, atol=0: abs(float(a) - b) <= atol,
                                                    "abs": abs, "exp": app("exp"), "ln": app("log"), "sin": app("sin"), "cos": app("cos"), "cosh": app("cosh")})
        pi = ns["pi"]
        tt, gam = ns["_calculate_tau_gamma"](Circ(), None, W, 10)
        tau1 = (R1 * Y1) ** (1.0 / n1)
        tau2 = (R2 * C2) ** (1.0 / 1.0)
        g1 = R1 / (2 * pi) * ns["sin"]((1 - n1) * pi) / (ns["cosh"](n1 * ns["ln"](tt / tau1)) - ns["cos"]((1 - n1) * pi))
        g2 = R2 / (W * ns["sqrt"](pi)) * ns["exp"](-1 * (ns["ln"](tt / tau2) / W) ** 2)
        sess.check("lemma", P.hyps, P.eq_goal(gam.v, g1 + g2), 0, label="gamma((RQ)(RC)) == closed form of the RQ element + closed form of the RC element, each with its own parameters")
    return (f"{MRQ}:_calculate_tau_gamma[two elements]", MRQ, "_calculate_tau_gamma", run)


def targets():
    return [target_nnls_kernel(), target_normalize(), target_lm_peaks(), target_mrq(), target_mrq_two_elements()]


# ------------------------------------------------------------------------------------------------ peak selection (data flow)
def target_peak_indices():
    """DRTResult._get_peak_indices(threshold, gammas): the candidates come from find_peaks on the zero-padded gammas with NO
    absolute criterion, and a candidate i is kept exactly when gammas[i] / max(gammas) > threshold and gammas[i] > 0 -- a
    relative test, so the reported peaks do not change when the impedance (hence gamma) is scaled."""
    from . import dataflow as DF
    from .dataflow import T
    RES = "analysis/drt/result"
    qual = "DRTResult._get_peak_indices"

    def run(sess: Session):
        n_paths = 0

        def once():
            calls = []

            class G:
                size, dtype = 5, "float64"

                def __getitem__(self, i):
                    if isinstance(i, int):
                        return T.var(f"g[{i}]")
                    raise O.Unsupported("gammas indexed by something else than one candidate index")

            class Pad:
                def __init__(self, n):
                    self.n, self.stored = n, None

                def __setitem__(self, k, v):
                    self.stored = (k, v)

            class Idx(list):
                def any(self):
                    return True

                def __isub__(self, k):
                    return Idx([i - k for i in self])
            g = G()

            def find_peaks(x, *a, **kw):
                calls.append((x, a, kw))
                return (Idx([1, 3, 4]),)

            def max_(x):
                return T.var("max_g") if x is g else max(x)
            thr = T.var("threshold")
            ns = {"_is_floating": lambda x: True, "zeros": lambda n, dtype=None: Pad(n), "array": lambda x, dtype=None: list(x), "int64": "int64",
                  "max": max_, "list": list, "filter": filter, "find_peaks": find_peaks}
            O.load(RES, [qual], ns)
            err, out = None, None
            try:
                out = ns["_get_peak_indices"](None, thr, g)
            except ValueError as ex:
                err = ("refused", ex)
            except (O.Unsupported, AttributeError, TypeError, IndexError, KeyError) as ex:
                err = ex
            return calls, out, err, g
        for log, (calls, out, err, g), facts in DF.explore(once, max_paths=300):
            n_paths += 1
            asked = {w.key: v for w, v in log}
            tag = "[" + ",".join(f"{w}={'T' if v else 'F'}" for w, v in log) + "]"
            if isinstance(err, tuple):
                sess.check("post", [], z3.BoolVal(not calls and (asked.get("ge(threshold, lit:0.0)") is False or asked.get("le(threshold, lit:1.0)") is False)), 0, label=f"refused up front only for a threshold outside [0, 1]{tag}")
                continue
            ok_call = len(calls) == 1 and not calls[0][1] and not calls[0][2]
            sess.check("post", [], z3.BoolVal(ok_call), 0, label="find_peaks(padded gammas) is called once, without height/prominence/any absolute criterion")
            if ok_call:
                pad = calls[0][0]
                sess.check("post", [], z3.BoolVal(getattr(pad, "n", None) == 7 and pad.stored is not None and pad.stored[1] is g and pad.stored[0] == slice(1, -1, None)), 0, label="candidates are sought in [0, gammas..., 0]")
            if err is not None:
                sess.unsupported(f"_get_peak_indices left the modelled subset: {type(err).__name__}: {err}")
                continue
            in_range = asked.get("le(lit:0.0, threshold)", True) and asked.get("le(threshold, lit:1.0)", True)
            if out is None:
                continue
            if asked.get("eq(max_g, lit:0.0)") is True:
                sess.check("post", [], z3.BoolVal(list(out) == []), 0, label=f"no peaks when max(gammas) == 0{tag}")
                continue
            want = []
            for i in (0, 2, 3):
                rel = asked.get(f"gt(div/2(g[{i}], max_g), threshold)")
                pos = asked.get(f"gt(g[{i}], lit:0.0)")
                if rel is None:
                    sess.check("post", [], z3.BoolVal(False), 0, label=f"candidate {i} is tested with gammas[i] / max(gammas) > threshold{tag}")
                    want = None
                    break
                if rel and pos is None:
                    sess.check("post", [], z3.BoolVal(False), 0, label=f"candidate {i} is tested with gammas[i] > 0{tag}")
                    want = None
                    break
                if rel and pos:
                    want.append(i)
            if want is not None:
                sess.check("post", [], z3.BoolVal(list(out) == want), 0, label=f"kept = candidates (shifted back by the padding) passing the relative test{tag}")
        sess.check("cover", [], z3.BoolVal(n_paths >= 20), 0, label=f"paths={n_paths}")
    return (f"{RES}:{qual}", RES, qual, run)


_targets_without_peaks = targets


def targets():      # noqa: F811
    return _targets_without_peaks() + [target_peak_indices()]


_targets_before_purity = targets


def targets():      # noqa: F811
    from . import purity
    return _targets_before_purity() + [purity.target_modules(["analysis/drt/tr_nnls", "analysis/drt/lm", "analysis/drt/mrq_fit", "analysis/drt/bht", "analysis/drt/tr_rbf", "analysis/drt/result", "analysis/drt/peak_analysis"], "DRT modules keep no state between calls", allowed=("_SOLVER_IMPORTED",))]


def target_mrq_fit_circuit():
    """calculate_drt_mrq_fit: whichever way the fitted circuit is obtained (a FitResult passed in, or two fits made here), the DRT,
    the model impedance and the circuit stored in the result all come from THAT fitted circuit; a FitResult that belongs to another
    circuit object is either refused or, if accepted, its own circuit is what is used -- never the unfitted one that was passed in.
    The fits made here start from a deep copy (the caller's circuit is not what is fitted in place)."""
    from pyvc import overload as O
    MRQ = "analysis/drt/mrq_fit"
    qual = "calculate_drt_mrq_fit"

    def run(sess: Session):
        for case in ("fit given, same circuit", "fit given, equal but different circuit", "no fit"):
            used = {"tau_gamma": [], "simulate": [], "fit_circuit": [], "adjust": [], "deepcopy": []}

            class Circ:
                def __init__(self, name):
                    self.name = name

                def to_string(self, *a, **k):
                    return "R(RC)"

                def serialize(self, *a, **k):
                    return "!V=1!R(RC)"

                def __eq__(self, o):
                    return self is o
                __hash__ = object.__hash__
            arg, other = Circ("argument"), Circ("fitted elsewhere")
            fit = None if case == "no fit" else type("Fit", (), {"circuit": arg if "same" in case else other, "residuals": "RES"})()
            made = []
            fits = []

            def fit_circuit(c, d, **kw):
                used["fit_circuit"].append(c)
                f = type("Fit", (), {"circuit": Circ(f"fit #{len(fits) + 1}"), "residuals": f"RES{len(fits) + 1}"})()
                fits.append(f)
                return f

            def deepcopy(x):
                used["deepcopy"].append(x)
                return ("deepcopy", x)

            def adjust(c, d):
                used["adjust"].append(c)
                return ("adjusted", c)

            class Prog:
                def __enter__(self):
                    return self

                def __exit__(self, *a):
                    return False

                def increment(self, *a, **k):
                    pass

                def set_message(self, *a, **k):
                    pass
            data = type("D", (), {"get_frequencies": lambda s: [1.0, 2.0], "get_impedances": lambda s: "Zexp", "get_label": lambda s: "", "get_path": lambda s: ""})()
            ns = {"isinstance": lambda a, b: True, "hasattr": hasattr, "_is_floating": lambda x: True, "_is_integer": lambda x: True, "Progress": lambda *a, **k: Prog(), "_validate_circuit": lambda c: None,
                  "fit_circuit": fit_circuit, "_adjust_initial_values": adjust, "deepcopy": deepcopy, "len": len, "DataSet": object, "Circuit": object,
                  "_calculate_tau_gamma": lambda **kw: used["tau_gamma"].append(kw.get("circuit")) or ("TAU", "GAMMA"),
                  "simulate_spectrum": lambda c, f, *a, **k: used["simulate"].append(c) or type("S", (), {"get_impedances": lambda s: "Zfit"})(),
                  "_calculate_pseudo_chisqr": lambda **kw: "CHI", "MRQFitResult": lambda **kw: made.append(kw) or "RESULT"}
            O.load(MRQ, [qual], ns)
            err = None
            try:
                ns[qual](data, arg, fit=fit)
            except (ValueError, TypeError) as ex:
                err = ex
            tag = f"[{case}]"
            fitted = fit.circuit if fit is not None else (fits[-1].circuit if fits else None)
            refused_ok = err is not None and case == "fit given, equal but different circuit" and not made
            flows_ok = err is None and len(made) == 1 and fitted is not None and used["tau_gamma"] == [fitted] and used["simulate"] == [fitted] and made[0].get("circuit") is fitted
            ob = sess.check("post", [], z3.BoolVal(refused_ok or flows_ok), 0,
                            label=f"{tag} either refused (only a FitResult of another circuit object may be), or DRT, model impedance and stored circuit all come from the fitted circuit")
            if not (refused_ok or flows_ok):
                ob.detail = f"error={err!r}; tau/gamma from {[getattr(c, 'name', c) for c in used['tau_gamma']]}, spectrum from {[getattr(c, 'name', c) for c in used['simulate']]}, fitted circuit: {getattr(fitted, 'name', fitted)}"
            if err is None and fit is None:
                sess.check("post", [], z3.BoolVal(len(fits) == 2 and used["fit_circuit"][0] == ("adjusted", ("deepcopy", arg)) and used["fit_circuit"][1] is fits[0].circuit and used["deepcopy"] == [arg]), 0,
                           label=f"the first fit starts from _adjust_initial_values(deepcopy(circuit)), the second from the first fit's circuit{tag}")
    return (f"{MRQ}:{qual}", MRQ, qual, run)


_targets_c13_with_purity = targets


def targets():      # noqa: F811
    return _targets_c13_with_purity() + [target_mrq_fit_circuit()]



_DLT_REPRO = '''import numpy as np
from pyimpspec.analysis.drt.tr_nnls import _calculate_delta_ln_tau
tau = np.exp(np.array(%r, dtype=float))
got = _calculate_delta_ln_tau(tau)
ln = np.log(tau)
want = np.zeros(tau.size)
want[1:-1] = 0.5 * (ln[2:] - ln[:-2])
want[0] = 0.5 * (ln[1] - ln[0])
want[-1] = 0.5 * (ln[-1] - ln[-2])
assert np.allclose(got, want, rtol=1e-9, atol=1e-12), (got, want)
'''


def target_delta_ln_tau():
    """tr_nnls._calculate_delta_ln_tau(tau): the quadrature weights of the DRT integral over ln(tau) for ANY grid of time constants
    (evenly spaced or not -- masked points, sweeps of varying density): interior weight i is half the distance between the
    neighbours, 0.5*(ln tau[i+1] - ln tau[i-1]), the two end weights are half the first / last step -- so the weights sum to the
    trapezoidal rule's and gamma integrates to the polarisation resistance.  For every number of points >= 2 and every array of
    logarithms; real function run by CPython on a symbolic size (pyvc.hoare), the loop over interior points cut at an invariant."""
    from pyvc import core, hoare as H
    from .diagrams import make_no_raise

    def run(sess: Session):
        I, R = z3.IntSort(), z3.RealSort()
        space = H.NodeSpace([])
        ns = H.base_namespace(space)
        specs = H.LoopSpecs()
        vc = H.VC(specs, space)
        st = {}

        def ln(x):
            return st["ln_tau"]

        def zeros(n, dtype=None):
            out = H.SymList("zeros")
            out.len = H._z(n)
            return out

        def full(n, v, dtype=None):
            out = H.SymList("full")
            out.len = H._z(n)
            out.arr = z3.K(I, H._to_real(H._z(v)))
            return out
        ns.update(ln=ln, log=ln, zeros=zeros, full=full, float64=None, diff=None)
        real = H.build_function(core.find_def(NNLS, "_calculate_delta_ln_tau"), ns, vc)

        def want(q):
            L, n = st["L"], st["n"]
            return z3.If(q == 0, (z3.Select(L, 1) - z3.Select(L, 0)) / 2,
                         z3.If(q == n - 1, (z3.Select(L, n - 1) - z3.Select(L, n - 2)) / 2, (z3.Select(L, q + 1) - z3.Select(L, q - 1)) / 2))

        @specs.add("_calculate_delta_ln_tau", 1)
        def _(env):
            out = env.unique(H.SymList, "delta_ln_tau")
            q, n = st["q"], st["n"]
            return [("the interior weights filled so far are half the distance between the neighbours", z3.Implies(z3.And(1 <= q, q < 1 + env.i, q < n - 1), z3.Select(out.arr, q) == want(q))),
                    ("the array of weights keeps its length", out.len == n),
                    ("the logarithms are only read", z3.And(st["ln_tau"].len == n, st["ln_tau"].arr == st["L"]))]
        no_raise = make_no_raise(NNLS)
        counts = {"paths": 0}

        def go(c):
            n, q = z3.Int("n"), z3.Int("q")
            L = z3.Const("ln_tau", z3.ArraySort(I, R))
            c.assume(n >= 2)
            lt = H.SymList("ln_tau")
            lt.len, lt.arr = n, L
            st.update(n=n, q=q, L=L, ln_tau=lt)
            tau = type("Tau", (), {"size": H.Rv(n), "length": lambda s_: H.Rv(n)})()
            ok, out = no_raise("_calculate_delta_ln_tau", lambda: real(tau))
            if not ok:
                return
            counts["paths"] += 1
            c.canary("_calculate_delta_ln_tau, at return")
            shape = isinstance(out, H.SymList)
            c.check("the result is the array of weights", z3.BoolVal(shape), "post")
            if shape:
                c.check("one weight per time constant", out.len == n, "post")
                c.check("weight q is half the distance between the neighbours of ln tau[q] (half the first / last step at the ends), for every grid", z3.Implies(z3.And(0 <= q, q < n), z3.Select(out.arr, q) == want(q)), "post")
        n0 = len(sess.obligations)
        H.explore(sess, [], go)
        sess.check("cover", [], z3.BoolVal(counts["paths"] >= 1), 0, label=f"paths to the return: {counts['paths']}")
        for ob in sess.obligations[n0:]:
            if ob.status == "refuted" and getattr(ob, "model", None) and not ob.replay:
                # any uneven grid shows a wrong weight formula natively: the model's size with an uneven spacing
                try:
                    size = int(str(ob.model.get("n", "5")).replace("?", ""))
                except ValueError:
                    size = 5
                size = min(max(size, 4), 50)
                grid = [0.0] + [float(k * k) / 7 + 0.3 * k for k in range(1, size)]
                ob.replay = {"input": grid, "repro": _DLT_REPRO % (grid,)}
    return (f"{NNLS}:_calculate_delta_ln_tau", NNLS, "_calculate_delta_ln_tau", run)


_targets_before_delta = targets


def targets():      # noqa: F811
    return _targets_before_delta() + [target_delta_ln_tau()]



PEAKS = "analysis/drt/peak_analysis"
_AREA_REPRO = '''import numpy as np
from scipy.integrate import quad
from pyimpspec.analysis.drt.peak_analysis import DRTPeak, DRTPeaks
p = DRTPeak(position=0.5, height=1.0, alpha=0.3, sigma=0.1, x_offset=-3.0, x_scale=4.0, y_offset=0.0, y_scale=100.0)
tau = np.logspace(-3, 1, 200)
want = quad(lambda lt: float(p.get_gammas(np.array([np.exp(lt)]))[0]), np.log(tau.min()), np.log(tau.max()), points=[np.log(1e-1)])[0]      # integral of gamma over ln(tau)
got = [p.get_area(tau), DRTPeaks(time_constants=tau, peaks=[p], suffix="").get_peak_area(0)]
assert all(abs(g - want) <= 1e-6 * abs(want) for g in got), (got, want)
'''


def target_peak_area():
    """DRTPeak.get_area / DRTPeaks.get_peak_area: the area of a fitted peak is the integral of its gamma over ln(tau) between the
    smallest and the largest time constant -- computed as quad(gamma as a function of log10 tau, log10 tau_min, log10 tau_max)
    divided by log10(e) (d ln tau = d log10 tau / log10 e); both routes, the same number.  DRTPeak._get_gamma(log10 tau) is
    get_gammas(tau).  Real methods on rational symbols: `quad` is a stub returning an opaque integral I, the result must be I / log10(e)."""
    def run(sess: Session):
        P = L.fresh_ctx([z3.Real("log10(e)") > 0, z3.Real("x_scale") != 0]).P

        class Mark:
            def __init__(self, name):
                self.name = name

            def __rpow__(self, base):
                return Mark(f"{base}**{self.name}")

        def log(x):
            if isinstance(x, Mark):
                return sym(f"log10({x.name})")
            raise O.Unsupported("log10 of something other than e, min(tau) or max(tau)")
        for which in ("DRTPeak.get_area", "DRTPeaks.get_peak_area"):
            calls = []

            def quad(func=None, a=None, b=None, *rest, **kw):
                if rest or kw:
                    raise O.Unsupported("quad with further options")
                calls.append((func, a, b))
                return (sym("I"), sym("abserr"))
            asked = []

            class Peak(O.auto_methods(PEAKS, "DRTPeak", {})):
                def _get_gamma(self, x):
                    asked.append(("log10", x))
                    return sym("gamma")

                def get_gammas(self, tau):
                    asked.append(("tau", tau))
                    return sym("gamma")
            taus = Mark("taus")
            ns = dict(quad=quad, log=log, log10=log, exp=lambda x: Mark("e") if x == 1 else (_ for _ in ()).throw(O.Unsupported("exp of something else")),
                      min=lambda x: Mark("tau_min") if x is taus else (_ for _ in ()).throw(O.Unsupported("min of something else")),
                      max=lambda x: Mark("tau_max") if x is taus else (_ for _ in ()).throw(O.Unsupported("max of something else")),
                      _is_integer=lambda i: isinstance(i, int), float64=None)
            O.load(PEAKS, [which], ns)
            fn = ns[which.split(".")[1]]
            peak = Peak()
            if which == "DRTPeak.get_area":
                Peak.get_area = fn
                out = peak.get_area(taus)
            else:
                me = type("Peaks", (), {"get_num_peaks": lambda s_: 2, "peaks": [Peak(), peak], "time_constants": taus})()
                out = fn(me, 1)
            tag = f"[{which}]"
            sess.check("post", [], z3.BoolVal(len(calls) == 1), 0, label=f"{tag}one integration")
            if len(calls) == 1 and isinstance(out, SQ):
                func, a, b = calls[0]
                sess.check_qeq("post", P, out, sym("I") / sym("log10(e)"), 0, label=f"{tag}area == integral over log10(tau) / log10(e)  (= integral over ln tau)")
                sess.check_qeq("post", P, a, sym("log10(tau_min)"), 0, label=f"{tag}lower limit == log10(min tau)")
                sess.check_qeq("post", P, b, sym("log10(tau_max)"), 0, label=f"{tag}upper limit == log10(max tau)")
                X = Mark("X")
                func(X)
                ok = asked in ([("log10", X)], ) or (len(asked) == 1 and asked[0][0] == "tau" and isinstance(asked[0][1], Mark) and asked[0][1].name == "10**X")
                sess.check("post", [], z3.BoolVal(bool(ok) and (which == "DRTPeak.get_area" or True)), 0, label=f"{tag}the integrand at X is this peak's gamma at log10 tau = X")
            else:
                sess.check("post", [], z3.BoolVal(False), 0, label=f"{tag}area is a number computed from the integral")
        # _get_gamma(log10 tau) == get_gammas(tau)
        xs = []

        def skew(x=None, h=None, p=None, a=None, s=None):
            xs.append((x, h, p, a, s))
            return sym("sn")
        ns = dict(_skew_normal=skew, log=lambda t: sym("lt"), log10=lambda t: sym("lt"))
        # (a stand-in peak: the eight fields; any helper method the real class has is compiled from the working tree on first use)
        me = type("P", (O.auto_methods(PEAKS, "DRTPeak", ns),), {k: sym(k) for k in ("position", "height", "alpha", "sigma", "x_offset", "x_scale", "y_offset", "y_scale")})()
        O.load(PEAKS, ["DRTPeak.get_gammas", "DRTPeak._get_gamma"], ns)
        g1 = ns["get_gammas"](me, "tau")
        g2 = ns["_get_gamma"](me, sym("lt"))
        sess.check("post", [], z3.BoolVal(len(xs) == 2), 0, label="[_get_gamma]one skew-normal evaluation each")
        if len(xs) == 2:
            sess.check_qeq("post", P, xs[0][0], xs[1][0], 0, label="[_get_gamma]same relative abscissa for log10 tau as get_gammas for tau")
            sess.check_qeq("post", P, xs[0][0], (sym("lt") - sym("x_offset")) / sym("x_scale"), 0, label="[_get_gamma]relative abscissa == (log10 tau - x_offset)/x_scale")
            for k, nm in enumerate(("height", "position", "alpha", "sigma"), start=1):
                sess.check_qeq("post", P, xs[1][k], sym(nm), 0, label=f"[_get_gamma]{nm} handed to the skew normal")
            sess.check_qeq("post", P, g2, g1, 0, label="[_get_gamma]_get_gamma(log10 tau) == get_gammas(tau)")
            sess.check_qeq("post", P, g2, sym("sn") * sym("y_scale") + sym("y_offset"), 0, label="[_get_gamma]gamma == skew normal * y_scale + y_offset")
        for ob in sess.obligations:
            if ob.status == "refuted" and not ob.expect_refuted and not ob.replay and ("get_area" in ob.name or "get_peak_area" in ob.name):
                ob.replay = {"input": "one skew-normal peak on 1e-3..10 s", "repro": _AREA_REPRO}
    return (f"{PEAKS}:DRTPeak.get_area / DRTPeaks.get_peak_area", PEAKS, "DRTPeak.get_area", run)


_targets_before_area = targets


def targets():      # noqa: F811
    return _targets_before_area() + [target_peak_area()]



def target_lm_views():
    """LMResult views: the resistive-capacitive part is the points with gamma >= 0, the resistive-inductive part the points with
    gamma < 0 (reported with |gamma|) -- and the time constants of each part are selected with the SAME index set as its gammas, so
    every (tau_k, R_k) pair the Loewner method recovered stays a pair in get_drt_data / get_gammas.  Real properties and methods
    on recording arrays (a comparison gives a named condition, argwhere(...).flatten() an index set, x[index set] a selection)."""
    def run(sess: Session):
        class Cond:
            def __init__(self, what):
                self.what = what

        class Idx:
            def __init__(self, cond):
                self.cond = cond

            def flatten(self):
                return self

        class Arr:
            def __init__(self, name):
                self.name = name

            def __ge__(self, o):
                return Cond((self.name, ">=", o))

            def __lt__(self, o):
                return Cond((self.name, "<", o))

            def __gt__(self, o):
                return Cond((self.name, ">", o))

            def __le__(self, o):
                return Cond((self.name, "<=", o))

            def __getitem__(self, k):
                if isinstance(k, Idx):
                    return ("sel", self.name, k.cond.what)
                if isinstance(k, Cond):
                    return ("sel", self.name, k.what)
                raise O.Unsupported("array indexed by something other than an index set")
        ns = {"argwhere": lambda c: Idx(c) if isinstance(c, Cond) else (_ for _ in ()).throw(O.Unsupported("argwhere of something else")),
              "abs": lambda x: ("abs", x), "absolute": lambda x: ("abs", x), "int64": None, "float64": None}
        names = ["LMResult._resistive_capacitive_time_constants", "LMResult._resistive_capacitive_gammas", "LMResult._resistive_inductive_time_constants",
                 "LMResult._resistive_inductive_gammas", "LMResult.get_gammas", "LMResult.get_drt_data"]
        O.load(LM, names, ns)
        props = {n.split(".")[1]: ns[n.split(".")[1]] for n in names[:4]}

        class Me:
            time_constants, gammas = Arr("tau"), Arr("gamma")
        for k, f in props.items():
            setattr(Me, k, property(f))
        me = Me()
        rc, rl = ("gamma", ">=", 0.0), ("gamma", "<", 0.0)
        want = (("sel", "tau", rc), ("sel", "gamma", rc), ("sel", "tau", rl), ("abs", ("sel", "gamma", rl)))
        sess.check("post", [], z3.BoolVal(tuple(ns["get_drt_data"](me)) == want), 0, label="get_drt_data == (tau[gamma>=0], gamma[gamma>=0], tau[gamma<0], |gamma[gamma<0]|)")
        sess.check("post", [], z3.BoolVal(tuple(ns["get_gammas"](me)) == (want[1], want[3])), 0, label="get_gammas == (gamma[gamma>=0], |gamma[gamma<0]|)")
        for k, w in zip(props, want):
            sess.check("post", [], z3.BoolVal(getattr(me, k) == w), 0, label=f"{k}: selected with the index set of its own part")
    return (f"{LM}:LMResult.get_drt_data / get_gammas", LM, "LMResult.get_drt_data", run)


_targets_before_lm_views = targets


def targets():      # noqa: F811
    return _targets_before_lm_views() + [target_lm_views()]
