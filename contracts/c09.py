"""C09 proof layer: equivariance lemmas of the Kramers-Kronig building blocks under Z -> cZ and f -> cf (c > 0), on the
real functions executed on symbolic values.  Composition through lstsq/pinv (solution scales with the data; column scaling)
is assumed -- and is where the known numerical finding (rank truncation) lives."""
from __future__ import annotations

import itertools

import z3

from pyvc import overload as O
from pyvc.core import Session
from pyvc.overload import SQ, csym, sym
from . import kk
from . import lemmas as L


def target_residual_scaling():
    def run(sess: Session):
        ctx = L.fresh_ctx([z3.Real("c") > 0, z3.Or(z3.Real("Ze_re") != 0, z3.Real("Ze_im") != 0)])
        P = ctx.P
        ns = L.load(L.UTIL, ["_calculate_residuals", "_boukamp_weight", "_calculate_pseudo_chisqr"])
        ns2 = L.load(L.KKUTIL, ["_boukamp_weight"])
        Ze, Zf, c = csym("Ze"), csym("Zf"), sym("c")
        r1 = ns["_calculate_residuals"](Ze, Zf)
        r2 = ns["_calculate_residuals"](c * Ze, c * Zf)
        # |cZ| = c|Z| is a consequence of the two abs-definitions; z3 derives it (nonlinear, small)
        sess.check("lemma", P.hyps, P.eq_goal(r1, r2), 0, label="residuals(cZ_exp, cZ_fit) == residuals(Z_exp, Z_fit)")
        x1 = ns["_calculate_pseudo_chisqr"](Ze, Zf)
        x2 = ns["_calculate_pseudo_chisqr"](c * Ze, c * Zf)
        sess.check_qeq("lemma", P, x1, x2, 0, label="chisqr summand invariant under Z -> cZ")
        sess.check_qeq("lemma", P, ns2["_boukamp_weight"](c * Ze, False) * c * c, ns2["_boukamp_weight"](Ze, False), 0, label="weight(cZ) == weight(Z)/c^2")
        sess.check_qeq("lemma", P, ns2["_boukamp_weight"](c * Ze, True), ns2["_boukamp_weight"](Ze, True) * c * c, 0, label="admittance weight(cZ) == weight(Z)*c^2")
        sess.check_qeq("canary", P, ns2["_boukamp_weight"](c * Ze, False) * c, ns2["_boukamp_weight"](Ze, False), 0, label="weight(cZ)*c", expect_refuted=True)
    return (f"{L.UTIL}:_calculate_residuals[scaling]", L.UTIL, "_calculate_residuals", run)


def target_matrix_scaling(impl: str, test: str, admittance: bool):
    module = kk.LSQ if impl == "lstsq" else kk.INV
    name = f"{impl}/{test}/{'Y' if admittance else 'Z'}"

    def run(sess: Session):
        ctx = L.fresh_ctx([z3.Real("c") > 0, z3.Real("f") > 0, z3.Real("tau1") > 0, z3.Real("tau2") > 0, z3.Real("absX") > 0])
        P = ctx.P
        c, f = sym("c"), sym("f")
        taus = [sym("tau1"), sym("tau2")]
        solver = kk.Solver([])
        ns = kk.namespace(solver, taus)
        if impl == "lstsq":
            O.load(module, ["_initialize_A_matrix", "_add_resistance_to_A_matrix", "_calculate_kth_A_matrix_variables", "_add_kth_variables_to_A_matrix",
                            "_add_capacitance_to_A_matrix", "_add_inductance_to_A_matrix", "_generate_A_matrix", "_initialize_b_vector", "_add_values_to_b_vector", "_generate_b_vector"], ns)
            build = lambda w, ts: ns["_generate_A_matrix"](test, w, ts, True, True, admittance)
        else:
            O.load(module, ["_initialize_A_matrices", "_add_resistance_to_A_matrix", "_add_capacitance_to_A_matrix", "_add_inductance_to_A_matrix",
                            "_add_kth_variables_to_A_matrices", "_scale_A_matrices", "_generate_A_matrices"], ns)
            absX = sym("absX")
            build = lambda w, ts: ns["_generate_A_matrices"](w, ts, True, admittance, absX)[0 if test == "real" else 1]
            if test == "complex":
                return
        w = 2 * ns["pi"] * f
        A1 = build(w, taus)
        A2 = build(c * w, [t / c for t in taus])          # frequencies scaled by c, time constants by 1/c (lemma on _generate_time_constants in C07)
        n = A1.n
        # column order: 0 R | 1..2 RC | C | L
        # expected column scaling under f -> c f.  Z: RC columns unchanged, C column (-1/w) by 1/c, L column (w) by c.
        #                                           Y: RC columns (w/(w tau - j)) by c,  C column (w) by c, L column (1/w) by 1/c; R unchanged.
        for j in range(n):
            if j == 0:
                k = SQ.of(1)
            elif j in (1, 2):
                k = c if admittance else SQ.of(1)
            elif j == n - 2:
                k = c if admittance else 1 / c
            else:
                k = 1 / c if admittance else c
            for h in O.HALVES:
                sess.check_qeq("lemma", P, A2.cols[j].v[h], A1.cols[j].v[h] * k, 0, label=f"column{j}:{h}-rows scale by the stated power of c")
        sess.assumptions.append("lstsq/pinv: solving with column j scaled by k_j gives variable j scaled by 1/k_j and the same fitted X (exact arithmetic, full column rank)")
    return (f"{module}:_generate_A_matrix[f-scaling {name}]", module, "_generate_A_matrix" if impl == "lstsq" else "_generate_A_matrices", run)


def target_b_scaling():
    def run(sess: Session):
        ctx = L.fresh_ctx([z3.Real("c") > 0, z3.Or(z3.Real("Ze_re") != 0, z3.Real("Ze_im") != 0)])
        P = ctx.P
        ns = L.load(kk.LSQ, ["_initialize_b_vector", "_add_values_to_b_vector", "_generate_b_vector"])
        Ze, c = csym("Ze"), sym("c")
        for test, adm in itertools.product(("complex", "real", "imaginary"), (False, True)):
            b1 = ns["_generate_b_vector"](test, Ze, adm)
            b2 = ns["_generate_b_vector"](test, c * Ze, adm)
            for h in O.HALVES:
                k = (1 / c) if adm else c
                sess.check_qeq("lemma", P, kk.b_as_col(b2).v[h], kk.b_as_col(b1).v[h] * k, 0, label=f"b(cZ)=={'b/c' if adm else 'c*b'}[{test},{'Y' if adm else 'Z'},{h}]")
    return (f"{kk.LSQ}:_generate_b_vector[Z-scaling]", kk.LSQ, "_generate_b_vector", run)


def target_exact_classification():
    """_update_circuit (both implementations, Z and Y): what a fitted variable means is decided by exact tests (`== 0.0`) only.
    A tolerance (isclose) is absolute, so it would drop a parallel resistance of 1e8 ohm but keep the same resistance expressed
    in other units: the rescaling of the fitted parameters under Z -> c Z would fail."""
    from pyvc.overload import Vec

    def run(sess: Session):
        for impl, module in (("lstsq", kk.LSQ), ("inv", kk.INV)):
            for admittance in (False, True):
                ctx = L.fresh_ctx([z3.Real("tau1") > 0, z3.Real("tau2") > 0])
                taus = [sym("tau1"), sym("tau2")]
                ns = kk.namespace(kk.Solver([]), taus)
                O.load(module, ["_update_circuit"], ns)
                O.load(kk.UTIL, ["_generate_circuit"], ns)
                circuit = ns["_generate_circuit"](taus, True, True, admittance)
                xs = [sym(f"x{i}") for i in range(5)]
                ctx.P.hyps += [z3.Real(f"x{i}") != 0 for i in range(5)]
                try:
                    if impl == "lstsq":
                        ns["_update_circuit"](circuit, Vec(xs), True, True, admittance)
                    else:
                        ns["_update_circuit"](circuit, Vec(xs), True, admittance)
                except TypeError:
                    sess.unsupported(f"_update_circuit[{impl}] has a different signature than the contract expects")
                    continue
                kk.check_exact(sess, ns, where=f" [{impl}, {'Y' if admittance else 'Z'}]")
    return (f"{kk.LSQ}:_update_circuit[exact classification]", kk.LSQ, "_update_circuit", run)


def targets():
    ts = [target_residual_scaling(), target_b_scaling()]
    for impl, test, adm in itertools.product(("lstsq", "inv"), ("complex", "real", "imaginary"), (False, True)):
        if impl == "inv" and test == "complex":
            continue
        ts.append(target_matrix_scaling(impl, test, adm))
    ts.append(target_exact_classification())
    # shared with C08: the reported pseudo chi-squared of the producers uses the weight computed from the impedance
    # representation, whatever representation was fitted -- without it the statistic is not invariant under scaling in Y
    from . import dataflow as DF
    ts += [DF.target_kk_producer("_use_matrix_inversion", "_inversion_test"), DF.target_kk_producer("_use_least_squares_fitting", "_leastsq_test")]
    ts.append(DF.target_kk_producer_cnls())
    # shared with C07: the whole of every linear test (_test_wrapper -> _complex/_real/_imaginary_test -> _update_circuit), run on
    # symbolic values, takes no decision by a tolerance (an absolute tolerance is a decision that depends on the units) and
    # reproduces a spectrum of its own model exactly, whatever its scale
    from . import c07
    for impl, test, adm in itertools.product(("lstsq", "inv"), ("complex", "real", "imaginary"), (False, True)):
        ts.append(c07.target_variant(impl, test, adm, True, True))
    # shared with C05: "the same points in the opposite order" reach the tests as the same arrays -- the constructor presents every
    # data set in descending order of frequency, each impedance and mask flag staying with its frequency
    from . import c05
    ts += [t for t in c05.targets() if "DataSet.__init__" in t[0] or "get_frequencies/get_impedances" in t[0]]
    return ts


_targets_before_purity = targets


def targets():      # noqa: F811
    from . import purity
    return _targets_before_purity() + [purity.target_modules(["analysis/kramers_kronig/utility", "analysis/kramers_kronig/least_squares", "analysis/kramers_kronig/matrix_inversion", "analysis/kramers_kronig/cnls"], "Kramers-Kronig modules keep no state between calls")]



def target_representation_choice():
    """perform_kramers_kronig_test(num_RC > 0, admittance=None): both representations are tested and ONE result is reported -- the
    one with the lower pseudo chi-squared, the statistic this property shows to be independent of the units; nothing else about
    the results (their impedances, the scale of the data) takes part in the choice, so Z -> c*Z cannot flip it.  The real function
    runs with `evaluate_log_F_ext` replaced by a stub whose results carry symbolic chi-squared values: every comparison is
    answered both ways and the reported result must be minimal under the facts of the path.  With admittance given, the single
    result is returned as it is; with num_RC = 0 the choice is delegated to suggest_representation."""
    from . import dataflow as DF
    from . import domain as D
    from pyvc import overload as O
    KS = "analysis/kramers_kronig/single"

    def run(sess: Session):
        paths = {"None": 0, "False": 0, "True": 0}
        for adm in (None, False, True):
            box = {}

            class Res:
                def __init__(self, admittance):
                    self.__dict__["_adm"] = admittance
                    self.__dict__["_chi"] = D.Num.var(f"pseudo_chisqr[{'Y' if admittance else 'Z'}]")

                def __getattr__(self, name):
                    if name == "pseudo_chisqr":
                        return self._chi
                    if name == "num_RC":
                        return 5
                    raise O.Unsupported(f"the choice between the representations reads result.{name}")
            KramersKronigResult = Res

            def evaluate_log_F_ext(**kw):
                box.setdefault("calls", []).append(kw)
                r = Res(kw["admittance"])
                box.setdefault("made", []).append(r)
                return [(0.0, [r], 0.0)]

            def once():
                box.clear()
                ns = dict(D.TYPE_STUBS)
                ns.update({"evaluate_log_F_ext": evaluate_log_F_ext, "KramersKronigResult": KramersKronigResult, "isinstance": isinstance, "len": len, "min": min, "max": max,
                           "sorted": sorted, "all": all, "map": map, "suggest_num_RC": None, "suggest_representation": None, "DataSet": object})
                O.load(KS, ["perform_kramers_kronig_test"], ns)
                data = type("Data", (), {"__getattr__": lambda s_, n: (_ for _ in ()).throw(O.Unsupported(f"the choice between the representations reads data.{n}"))})()
                return ns["perform_kramers_kronig_test"](data, test="complex", num_RC=5, admittance=adm, num_F_ext_evaluations=0)
            for log, out, facts in DF.explore(once):
                paths[str(adm)] += 1
                made = box.get("made", [])
                tag = f"[admittance={adm}]"
                sess.check("post", [], z3.BoolVal([c["admittance"] for c in box.get("calls", [])] == ([False, True] if adm is None else [adm])), 0, label=f"{tag}the representations tested")
                sess.check("post", [], z3.BoolVal(any(out is r for r in made)), 0, label=f"{tag}one of the test results is reported, as it is")
                if any(out is r for r in made):
                    sess.check("post", list(facts), z3.And(*[out._chi.e <= r._chi.e for r in made]), 0, label=f"{tag}the reported result has the lowest pseudo chi-squared")
        sess.check("cover", [], z3.BoolVal(paths["None"] >= 2 and paths["False"] >= 1 and paths["True"] >= 1), 0, label=f"paths: {paths}")
    return (f"{KS}:perform_kramers_kronig_test [choice of representation]", KS, "perform_kramers_kronig_test", run)


_targets_before_choice = targets


def targets():      # noqa: F811
    return _targets_before_choice() + [target_representation_choice()]



_targets_before_dispatch_c09 = targets


def targets():      # noqa: F811
    # shared with C08: the work items of the multi-process branches are unpacked by position (tuple protocols), and the dispatch to
    # the three implementations hands every value on unchanged
    from . import forwarding, tupleproto
    return _targets_before_dispatch_c09() + [forwarding.target_perform_tests_dispatch(), tupleproto.target_tuple_protocols()]
