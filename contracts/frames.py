"""Frame contracts "the inputs are not modified" for the analysis entry points (C08, C12): neither the data set nor the circuit a
caller passes in is changed by the analysis.

Decided on the real ASTs by an inter-procedural may-analysis (re-read on every run).  For an entry point and one of its
caller-owned parameters p:

  * a value is a *live part of p* if it is p, an attribute / item of a live part, the result of a method of a live part that is
    not known to copy, or an item taken out of a *bag*; a bag is a new container that holds live parts (get_elements(),
    get_connections(), dict views, list(...)/sorted(...) of those); everything obtained through `deepcopy(...)`, `copy(...)` or a
    getter that is proved to return a copy (get_values, get_*_limits, are_fixed, get_mask, to_dict, ...) is fresh.  A name has
    the kinds of all its bindings in the function (assignments, loop and comprehension targets, `with ... as`);
  * p *is modified* if a mutating method (set_*, reset*, subtract_*, low_pass, high_pass, clear, append, pop, ...) is called on a
    live part, an attribute or item of a live part is assigned, or a live part or bag is passed to a function of the library
    that modifies the corresponding parameter (list surgery on a bag itself is harmless).  If the name involved is a live part
    under some of its bindings and fresh under others the question is left undecided instead (resolved through the module's own definitions and its
    `from .x import` table, depth <= 4).  `fit_circuit` is known not to modify its circuit (proved in C12: _fit_process works on
    a deep copy); functions outside the library are assumed not to modify their arguments.

The obligation is `not may_be_modified`; it is an over-approximation (a report means "cannot show the input is left alone"),
which is the safe direction for a frame condition."""
from __future__ import annotations

import ast
import re
from typing import Dict, List, Optional, Set, Tuple

import z3

from pyvc import core
from pyvc.core import Session
from .tupleproto import resolve

OBJ_MUT = re.compile(r"^(set_|reset|subtract_|low_pass$|high_pass$|add_|register|remove_)")
LIST_MUT = {"clear", "append", "extend", "insert", "remove", "pop", "popitem", "update", "sort", "reverse", "setdefault"}
ALIASING_WHEN_UNMASKED = {"get_impedances"}
COPYING = {"deepcopy", "copy", "get_values", "get_lower_limits", "get_upper_limits", "are_fixed", "get_mask", "to_dict", "to_string", "serialize", "get_label", "get_path",
           "get_name", "get_symbol", "get_units", "get_default_values", "get_num_points", "get_frequencies", "get_magnitudes", "get_phases", "to_dataframe", "to_sympy", "to_latex",
           "len", "str", "repr", "float", "int", "bool", "isinstance", "type", "id", "hash", "simulate_spectrum",
           "get_bode_data", "get_nyquist_data", "array", "log", "angle", "abs", "ln", "min", "max", "sum", "is_fixed", "get_element_name", "get_impedances", "dict", "set", "zip", "enumerate", "range"}
BAG_GETTERS = {"get_elements", "get_connections", "get_subcircuits", "values", "items", "keys", "to_stack", "_get_elements_recursive", "_get_all_items_recursive",
               "generate_element_identifiers", "generate_fit_identifiers"}          # dicts keyed by the live elements
BAG_WRAPPERS = {"list", "sorted", "reversed", "tuple", "filter", "iter"}
KNOWN_NON_MUTATING = {"fit_circuit": "its own frame obligation below + C12: _fit_process fits deepcopy(original_circuit)"}
FRESH, PART, BAG = "fresh", "part", "bag"


def _root(node: ast.AST) -> Optional[str]:
    while isinstance(node, (ast.Attribute, ast.Subscript)):
        node = node.value
    return node.id if isinstance(node, ast.Name) else None


class _Kinds:
    """name -> set of kinds over all its bindings in one function: 'part' (a live part of the input), 'bag' (a new container
    holding live parts), 'fresh' (anything else)"""

    def __init__(self, fn: ast.FunctionDef, param: str, kind: str):
        self.fn = fn
        self.k: Dict[str, Set[str]] = {param: {kind}}
        self.sites: Dict[str, List[Tuple[int, str]]] = {param: [(0, kind)]}      # (line of the binding, kind)
        self.arrays: Set[int] = set()
        self.from_call: Dict[str, bool] = {}      # name -> every live binding of it is the result of a call / subscript (not a plain attribute)
        self.loops: List[Tuple[int, int]] = [(n.lineno, n.end_lineno or n.lineno) for n in ast.walk(fn) if isinstance(n, (ast.For, ast.While))]
        changed = True
        rounds = 0
        while changed and rounds < 12:
            rounds += 1
            changed = False
            for n in ast.walk(fn):
                binds: List[Tuple[str, str]] = []
                if isinstance(n, (ast.Assign, ast.AnnAssign)) and getattr(n, "value", None) is not None:
                    kv = self.of(n.value)
                    for t in (n.targets if isinstance(n, ast.Assign) else [n.target]):
                        if isinstance(t, ast.Name):
                            binds.append((t.id, kv))
                            if kv.split(":")[-1] == PART:
                                self.from_call[t.id] = self.from_call.get(t.id, True) and isinstance(n.value, (ast.Call, ast.Subscript))
                        elif isinstance(t, (ast.Tuple, ast.List)):
                            # unpacking a bag (or a tuple that came out of one) yields parts; unpacking a part yields parts
                            for x in ast.walk(t):
                                if isinstance(x, ast.Name) and isinstance(x.ctx, ast.Store):
                                    binds.append((x.id, PART if kv.split(":")[-1] in (PART, BAG) else FRESH))
                elif isinstance(n, (ast.For, ast.comprehension)):
                    kv = self.of(n.iter)
                    for x in ast.walk(n.target):
                        if isinstance(x, ast.Name):
                            binds.append((x.id, PART if kv.split(":")[-1] in (PART, BAG) else FRESH))
                elif isinstance(n, ast.withitem) and n.optional_vars is not None:
                    kv = self.of(n.context_expr)
                    for x in ast.walk(n.optional_vars):
                        if isinstance(x, ast.Name):
                            binds.append((x.id, kv))
                line = getattr(n, "lineno", None) or getattr(getattr(n, "iter", None), "lineno", 0) or 0
                for name, kv in binds:
                    base = kv.split(":")[-1]
                    for kk in ({base} if not kv.startswith("mixed:") else {base, FRESH}):
                        cur = self.k.setdefault(name, set())
                        site = (line, kk)
                        if site not in self.sites.setdefault(name, []):
                            self.sites[name].append(site)
                        if kk not in cur:
                            cur.add(kk)
                            changed = True

    def name(self, x: str, at: int = 0) -> str:
        """kinds of the bindings of x that can reach a use at line `at`: those textually before it, and those inside a loop that
        also contains the use (a later binding in the same loop reaches the next iteration)"""
        sites = self.sites.get(x)
        if not sites:
            return FRESH
        reach = {k for line, k in sites if line <= at or any(lo <= line <= hi and lo <= at <= hi for lo, hi in self.loops)} if at else {k for _, k in sites}
        if not reach:
            reach = {k for _, k in sites}
        if reach == {FRESH}:
            return FRESH
        if len(reach) == 1:
            return next(iter(reach))
        return "mixed:" + (PART if PART in reach else BAG)

    def of(self, node: ast.AST) -> str:
        """kind of the value of an expression ('mixed:<kind>' when a name it depends on is bound in several ways)"""
        if isinstance(node, ast.Name):
            return self.name(node.id, getattr(node, "lineno", 0))
        if isinstance(node, ast.Call):
            f = node.func
            fname = f.id if isinstance(f, ast.Name) else (f.attr if isinstance(f, ast.Attribute) else "")
            if fname in ALIASING_WHEN_UNMASKED and isinstance(f, ast.Attribute):
                # DataSet.get_impedances(masked=None) hands out the data set's own array (no copy is made on that branch)
                unmasked = any(kw.arg == "masked" and isinstance(kw.value, ast.Constant) and kw.value.value is None for kw in node.keywords) or \
                    (node.args and isinstance(node.args[0], ast.Constant) and node.args[0].value is None)
                base = self.of(f.value)
                if unmasked and base.split(":")[-1] == PART:
                    self.arrays.add(id(node))
                    return base
                return FRESH
            if fname in COPYING:
                return FRESH
            if isinstance(f, ast.Name) and fname in ("map", "filter") and len(node.args) >= 2 and isinstance(node.args[0], ast.Lambda) and len(node.args[0].args.args) == 1:
                src = self.of(node.args[1])
                if src.split(":")[-1] not in (PART, BAG):
                    return FRESH
                if fname == "filter":
                    return ("mixed:" if src.startswith("mixed:") else "") + BAG
                lam = node.args[0]
                pname = lam.args.args[0].arg
                saved = self.sites.get(pname)
                self.sites[pname] = [(0, PART)]
                try:
                    body = self.of(lam.body)
                finally:
                    if saved is None:
                        self.sites.pop(pname, None)
                    else:
                        self.sites[pname] = saved
                if body.split(":")[-1] in (PART, BAG):
                    return ("mixed:" if src.startswith("mixed:") or body.startswith("mixed:") else "") + BAG
                return FRESH
            if isinstance(f, ast.Attribute):
                base = self.of(f.value)
                if base == FRESH:
                    return FRESH
                mixed = base.startswith("mixed:")
                b = base.split(":")[-1]
                if b == BAG:
                    res = PART if fname in ("pop", "get", "__getitem__", "popitem") else (BAG if fname in BAG_GETTERS or fname in ("copy",) else FRESH)
                else:
                    res = BAG if fname in BAG_GETTERS else PART        # an unknown method of a part may hand out a live part
                return ("mixed:" + res) if mixed and res != FRESH else res
            if isinstance(f, ast.Name) and fname in BAG_WRAPPERS and node.args:
                base = self.of(node.args[0])
                b = base.split(":")[-1]
                if b in (BAG, PART):
                    return ("mixed:" if base.startswith("mixed:") else "") + BAG
                return FRESH
            return FRESH
        if isinstance(node, ast.Attribute):
            base = self.of(node.value)
            return base if base.split(":")[-1] == PART else (FRESH if base == FRESH else base)
        if isinstance(node, ast.Subscript):
            base = self.of(node.value)
            b = base.split(":")[-1]
            if b == BAG:
                return ("mixed:" if base.startswith("mixed:") else "") + (BAG if isinstance(node.slice, ast.Slice) else PART)
            return base
        if isinstance(node, (ast.Tuple, ast.List, ast.Set)):
            ks = [self.of(e) for e in node.elts]
            if any(k.split(":")[-1] in (PART, BAG) for k in ks):
                return ("mixed:" if any(k.startswith("mixed:") for k in ks) else "") + BAG
            return FRESH
        if isinstance(node, ast.IfExp):
            a, b = self.of(node.body), self.of(node.orelse)
            if a == b:
                return a
            ks = {a.split(":")[-1], b.split(":")[-1]} - {FRESH}
            return FRESH if not ks else "mixed:" + (PART if PART in ks else BAG)
        if isinstance(node, ast.Starred):
            return self.of(node.value)
        return FRESH


def may_modify(module: str, fn: ast.FunctionDef, param: str, kind: str = PART, depth: int = 0, seen: Optional[Set[Tuple[str, str, str, str]]] = None) -> Tuple[List[str], List[str]]:
    """(definite, possible) reasons why fn modifies the object bound to `param` (a live part, or a new container of live parts)"""
    seen = seen if seen is not None else set()
    key = (module, fn.name, param, kind)
    if key in seen or depth > 4:
        return [], []
    seen.add(key)
    K = _Kinds(fn, param, kind)
    definite: List[str] = []
    possible: List[str] = []

    def report(k: str, text: str):
        (possible if k.startswith("mixed:") else definite).append(text)
    for n in ast.walk(fn):
        if isinstance(n, (ast.Attribute, ast.Subscript)) and isinstance(n.ctx, (ast.Store, ast.Del)):
            k = K.of(n.value)
            if k.split(":")[-1] == PART:
                report(k, f"{fn.name}: assigns {ast.unparse(n)[:50]} at L{n.lineno}")
        if isinstance(n, ast.AugAssign) and isinstance(n.target, (ast.Attribute, ast.Subscript)):
            k = K.of(n.target.value)
            if k.split(":")[-1] == PART:
                report(k, f"{fn.name}: updates {ast.unparse(n.target)[:50]} in place at L{n.lineno}")
        if isinstance(n, ast.AugAssign) and isinstance(n.target, ast.Name):
            # `Z += ...` on a name bound to a live array of the input (taken out of a getter or a list of such) updates that array
            k = K.name(n.target.id, n.lineno)
            if k.split(":")[-1] == PART:
                text = f"{fn.name}: updates {n.target.id} in place at L{n.lineno} (the name is bound to a live part of the input)"
                if K.from_call.get(n.target.id) and not k.startswith("mixed:"):
                    definite.append(text)
                else:
                    possible.append(text)
        if not isinstance(n, ast.Call):
            continue
        f = n.func
        if isinstance(f, ast.Attribute):
            k = K.of(f.value)
            b = k.split(":")[-1]
            if b == PART and (OBJ_MUT.search(f.attr) or f.attr in LIST_MUT):
                report(k, f"{fn.name}: calls {ast.unparse(f)[:60]}() at L{n.lineno}")
            continue
        callee = f.id if isinstance(f, ast.Name) else None
        if callee is None or callee in COPYING or callee in BAG_WRAPPERS or callee in KNOWN_NON_MUTATING:
            continue
        passed = [(i, a, K.of(a)) for i, a in enumerate(n.args)] + [(kw.arg, kw.value, K.of(kw.value)) for kw in n.keywords if kw.arg]
        passed = [(pos, a, k) for pos, a, k in passed if k.split(":")[-1] in (PART, BAG)]
        if not passed:
            continue
        target = resolve(module, callee)
        if target is None:
            continue                                   # outside the library (numpy, scipy, lmfit, builtins): assumed not to modify its arguments
        tmod = _module_of(module, callee) or module
        params = [a.arg for a in target.args.posonlyargs + target.args.args]
        for pos, _, k in passed:
            pname = params[pos] if isinstance(pos, int) and pos < len(params) else (pos if isinstance(pos, str) else None)
            if pname is None or pname not in params + [a.arg for a in target.args.kwonlyargs]:
                continue
            d, p_ = may_modify(tmod, target, pname, k.split(":")[-1], depth + 1, seen)
            (possible if k.startswith("mixed:") else definite).extend(f"{fn.name} -> {w}" for w in d[:2])
            possible.extend(f"{fn.name} -> {w}" for w in p_[:2])
    return definite, possible


def _module_of(module: str, name: str, depth: int = 0) -> Optional[str]:
    """the module in which `name`, as seen from `module`, is defined"""
    try:
        tree = core.module_ast(module)
    except (FileNotFoundError, OSError):
        return None
    if any(isinstance(n, ast.FunctionDef) and n.name == name for n in tree.body):
        return module
    if depth >= 2:
        return None
    for n in tree.body:
        if isinstance(n, ast.ImportFrom) and n.level >= 1 and any((al.asname or al.name) == name for al in n.names):
            base = module.split("/")[:-1]
            base = base[:len(base) - (n.level - 1)] if n.level > 1 else base
            target = "/".join(base + (n.module.split(".") if n.module else []))
            orig = next(al.name for al in n.names if (al.asname or al.name) == name)
            for cand in (target, target + "/__init__"):
                got = _module_of(cand, orig, depth + 1)
                if got is not None:
                    return got
    return None


ENTRY_POINTS = [
    ("analysis/drt/mrq_fit", "calculate_drt_mrq_fit", ["data", "circuit"]),
    ("analysis/drt/tr_nnls", "calculate_drt_tr_nnls", ["data"]),
    ("analysis/drt/tr_rbf", "calculate_drt_tr_rbf", ["data"]),
    ("analysis/drt/bht", "calculate_drt_bht", ["data"]),
    ("analysis/drt/lm", "calculate_drt_lm", ["data"]),
    ("analysis/zhit/__init__", "perform_zhit", ["data"]),
    ("analysis/kramers_kronig/exploratory", "evaluate_log_F_ext", ["data"]),
    ("analysis/kramers_kronig/exploratory", "perform_exploratory_kramers_kronig_tests", ["data"]),
    ("analysis/kramers_kronig/single", "perform_kramers_kronig_test", ["data"]),
    ("analysis/fitting", "fit_circuit", ["data", "circuit"]),
]


DATA_SET_CONSTRUCTORS = [("data/data_set", "DataSet.average", [("data_sets", BAG)]), ("data/data_set", "DataSet.duplicate", [("data", PART)])]


def target_data_set_constructors():
    """DataSet.average / DataSet.duplicate build a NEW data set: the data sets they are given are left as they were (no mutating
    call, no store, no in-place update of an array taken out of them reaches them)"""
    def run(sess: Session):
        n = 0
        for module, qual, params in DATA_SET_CONSTRUCTORS:
            fn = core.find_def(module, qual)
            for p, kind in params:
                n += 1
                why, maybe = may_modify(module, fn, p, kind)
                ob = sess.check("frame", [], z3.BoolVal(not why), fn.lineno, label=f"{qual}: the caller's `{p}` is not modified")
                if why:
                    ob.detail = "; ".join(why[:4])
                    ob.formula = ob.detail
                elif maybe:
                    sess.unsupported(f"{qual}: cannot decide whether `{p}` is modified: " + "; ".join(maybe[:3]), fn.lineno)
        sess.check("cover", [], z3.BoolVal(n >= 2), 0, label=f"(constructor, input) pairs: {n}")
        sess.assumptions.append("numpy functions (array, mean, ...) return new arrays and do not modify their arguments")
    return ("data/data_set:DataSet.average / duplicate leave their inputs alone", "data/data_set", "DataSet.average", run)


def target_inputs_not_modified():
    def run(sess: Session):
        n = 0
        for module, fname, params in ENTRY_POINTS:
            try:
                fn = core.find_def(module, fname)
            except LookupError as ex:
                sess.unsupported(str(ex))
                continue
            for p in params:
                if p not in [a.arg for a in fn.args.posonlyargs + fn.args.args + fn.args.kwonlyargs]:
                    sess.unsupported(f"{fname} has no parameter {p}")
                    continue
                n += 1
                why, maybe = may_modify(module, fn, p)
                ob = sess.check("frame", [], z3.BoolVal(not why), fn.lineno, label=f"{fname}: the caller's `{p}` is not modified (no mutating call, store or hand-over to a modifying function reaches it)")
                ob.soft = False
                if why:
                    ob.detail = "; ".join(why[:4])
                    ob.formula = ob.detail
                elif maybe:
                    # a name that is sometimes a live part of the input and sometimes a fresh object is modified: not decided
                    sess.unsupported(f"{fname}: cannot decide whether `{p}` is modified: " + "; ".join(maybe[:3]), fn.lineno)
        sess.check("cover", [], z3.BoolVal(n >= 10), 0, label=f"(entry point, input) pairs: {n}")
        sess.assumptions.append("functions outside the library (numpy, scipy, lmfit, pandas) do not modify their arguments; numpy in-place operators on arrays obtained from getters are not tracked")
    return ("analysis/fitting:the inputs of the analysis entry points are not modified", "analysis/fitting", "fit_circuit", run)
