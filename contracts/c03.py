"""C03 proof layer: (1) stack-frame contract of Parser.subcircuit and the node-per-call contracts of main_loop / connection
(shared with C04: a sub-circuit never takes elements from, or leaves elements in, the enclosing connection);
(2) limit-ordering call preconditions of Parser.element against the Element setter contracts of C14 (what serialize()
emits for an element whose values lie within its limits is accepted again, with the same values/limits/fixed flags).
The emitter/parser pair as a whole (all spellings, labels, decimals) is the labelled bounded stand-in."""
from __future__ import annotations

from . import c04


def targets():
    ts = [t for t in c04.targets() if "Parser.subcircuit" in t[0] or "Parser.connection" in t[0] or "Parser.main_loop" in t[0]]
    try:
        from . import c03_element
        ts += c03_element.targets()
    except ImportError:
        pass
    return ts


def target_connection_emitters():
    """Series.to_string / Parallel.to_string / Circuit.to_string / Circuit.serialize on recording children: a connection prints
    its opening bracket, the texts of its children in order -- each asked once, with the SAME `decimals` -- and its closing
    bracket ('[' ']' for series, '(' ')' for parallel: the token pairs Parser.connection is proved against); a circuit prints its
    top-level series; serialize() prefixes the version header `!V=<n>!` and refuses decimals < 1."""
    import z3
    from pyvc import overload as O
    from pyvc.core import Session

    def run(sess: Session):
        for module, qual, lo, hi in (("circuit/series", "Series.to_string", "[", "]"), ("circuit/parallel", "Parallel.to_string", "(", ")")):
            for decimals in (-1, 3, 12):
                asked = []

                class Child:
                    def __init__(self, name):
                        self.name = name

                    def to_string(self, decimals=-1):
                        asked.append((self.name, decimals))
                        return f"<{self.name}>"
                me = type("Me", (), {"_elements": [Child("a"), Child("b"), Child("c")]})()
                ns = {"map": map}
                O.load(module, [qual], ns)
                out = ns["to_string"](me, decimals=decimals)
                sess.check("post", [], z3.BoolVal(out == f"{lo}<a><b><c>{hi}" and asked == [("a", decimals), ("b", decimals), ("c", decimals)]), 0,
                           label=f"{qual}(decimals={decimals}) == '{lo}' + children in order (same decimals, each asked once) + '{hi}'")
                empty = type("Me", (), {"_elements": []})()
                sess.check("post", [], z3.BoolVal(ns["to_string"](empty, decimals=decimals) == lo + hi), 0, label=f"{qual}(decimals={decimals}) of an empty connection == '{lo}{hi}'")
        # Circuit
        asked = []

        class Top:
            def to_string(self, decimals=-1):
                asked.append(decimals)
                return "[TOP]"
        ns = {"VERSION": 7}
        O.load("circuit/circuit", ["Circuit.to_string", "Circuit.serialize"], ns)
        me = type("C", (), {"_elements": Top()})()
        me.to_string = lambda decimals=-1: ns["to_string"](me, decimals=decimals)
        sess.check("post", [], z3.BoolVal(ns["to_string"](me, decimals=5) == "[TOP]" and asked == [5]), 0, label="Circuit.to_string(decimals) == top-level series' text with the same decimals")
        asked.clear()
        sess.check("post", [], z3.BoolVal(ns["serialize"](me, decimals=9) == "!V=7![TOP]" and asked == [9]), 0, label="Circuit.serialize(decimals) == '!V=<VERSION>!' + to_string(decimals)")
        refused = False
        try:
            ns["serialize"](me, decimals=0)
        except ValueError:
            refused = True
        sess.check("post", [], z3.BoolVal(refused), 0, label="Circuit.serialize refuses decimals < 1")
    return ("circuit/series:Series.to_string / Parallel.to_string / Circuit.serialize", "circuit/series", "Series.to_string", run)


_targets_c03_core = targets


def targets():      # noqa: F811
    return _targets_c03_core() + [target_connection_emitters()]


def target_element_emitter():
    """Element.to_string(decimals >= 0): structure and data flow of the emitted text, independent of how numbers are formatted:
    SYMBOL{key=<value>[F]/<lower or inf>/<upper or inf>,...[:label]} with the keys of get_values() in order, each number reading
    back (float()) as that parameter's own value / lower limit / upper limit, `F` exactly on the fixed ones, `inf` exactly for the
    infinite limits, the label after a colon iff there is one.  Distinct tagged values stand for arbitrary ones; all combinations
    of {finite, infinite} limits x fixed flags x label x decimals in {1, 6, 12} are enumerated."""
    import itertools
    import math
    import re
    import z3
    from pyvc import overload as O
    from pyvc.core import Session

    def run(sess: Session):
        ns = {"_is_integer": lambda x: isinstance(x, int), "isinf": math.isinf}
        O.load("circuit/base", ["Element.to_string"], ns)
        fn = ns["to_string"]
        num = r"[-+]?[0-9.]+(?:[eE][-+]?[0-9]+)?"
        n = 0
        bad = {}
        for lo_inf, up_inf, fixed, label, decimals in itertools.product(itertools.product((False, True), repeat=2), itertools.product((False, True), repeat=2),
                                                                        itertools.product((False, True), repeat=2), ("", "lbl"), (1, 6, 12)):
            vals = {"R": 1.5, "Yq": 0.062}          # two significant digits: exact at every printed precision
            lows = {"R": (-math.inf if lo_inf[0] else 0.5), "Yq": (-math.inf if lo_inf[1] else 0.031)}
            ups = {"R": (math.inf if up_inf[0] else 7.5), "Yq": (math.inf if up_inf[1] else 0.87)}
            fx = {"R": fixed[0], "Yq": fixed[1]}
            me = type("E", (), {"_label": label, "get_symbol": lambda s: "Sy", "get_values": lambda s: dict(vals), "get_lower_limits": lambda s: dict(lows),
                                "get_upper_limits": lambda s: dict(ups), "are_fixed": lambda s: dict(fx)})()
            out = fn(me, decimals=decimals)
            n += 1
            m = re.fullmatch(r"Sy\{(.*?)(?::(.*))?\}", out)
            ok = m is not None and (m.group(2) or "") == label
            if ok:
                parts = m.group(1).split(",")
                ok = len(parts) == 2
                for part, key in zip(parts, ("R", "Yq")):
                    pm = re.fullmatch(rf"({re.escape(key)})=({num})(F?)/({num}|inf)/({num}|inf)", part)
                    ok = ok and pm is not None
                    if pm is None:
                        break
                    ok = ok and float(pm.group(2)) == vals[key] and (pm.group(3) == "F") == fx[key]
                    ok = ok and ((pm.group(4) == "inf") == math.isinf(lows[key])) and (pm.group(4) == "inf" or float(pm.group(4)) == lows[key])
                    ok = ok and ((pm.group(5) == "inf") == math.isinf(ups[key])) and (pm.group(5) == "inf" or float(pm.group(5)) == ups[key])
            if not ok:
                bad.setdefault((lo_inf, up_inf, fixed, bool(label)), out)
        for lo_inf, up_inf in itertools.product(itertools.product((False, True), repeat=2), repeat=2):
            w = [v for k, v in bad.items() if k[0] == lo_inf and k[1] == up_inf]
            ob = sess.check("post", [], z3.BoolVal(not w), 0, label=f"Element.to_string: key=value[F]/lower/upper per parameter, own numbers, F and inf exactly where due [lower inf={lo_inf}, upper inf={up_inf}]")
            if w:
                ob.detail = f"emitted: {w[0]!r}"
        basic = fn(type("E", (), {"get_symbol": lambda s: "Sy"})(), decimals=-1)
        sess.check("post", [], z3.BoolVal(basic == "Sy"), 0, label="Element.to_string(decimals=-1) == the symbol")
        sess.check("cover", [], z3.BoolVal(n == 384), 0, label=f"combinations={n}")
    return ("circuit/base:Element.to_string", "circuit/base", "Element.to_string", run)


_targets_c03_with_connections = targets


def targets():      # noqa: F811
    return _targets_c03_with_connections() + [target_element_emitter()]


def target_container_emitter():
    """Container.to_string: the sub-circuits are written between the opening brace and the element's own parameters, in sorted
    key order, as `key=open` (None), `key=short` (a connection without elements) or `key=<text of the connection, same decimals>`,
    separated by ', '; with decimals < 0 only the symbol is printed."""
    import itertools
    import z3
    from pyvc import overload as O
    from pyvc.core import Session

    def run(sess: Session):
        for own, decimals in itertools.product(("Tl{R=1.0E+00/0.0E+00/inf}", "Tl{R=1.0E+00/0.0E+00/inf:lbl}", "Tl{:lbl}", "Tl{}"), (2, 12)):
            asked = []

            class Con:
                def __init__(self, name, n):
                    self.name, self.n = name, n

                def get_elements(self):
                    return [0] * self.n

                def to_string(self, decimals=-1):
                    asked.append((self.name, decimals))
                    return f"<{self.name}>"
            subs = {"Zeta": Con("zeta", 2), "X_1": None, "X_2": Con("x2", 0)}
            me = type("C", (), {"_subcircuit_value": subs})()
            ns = {"super": lambda: type("S", (), {"to_string": lambda s, decimals=-1: own})(), "sorted": sorted, "len": len}
            O.load("circuit/base", ["Container.to_string"], ns)
            out = ns["to_string"](me, decimals=decimals)
            head, rest = own[:3], own[3:]
            body = "X_1=open, X_2=short, Zeta=<zeta>"
            want = head + body + (", " + rest if rest[0] not in ":}" else rest)
            sess.check("post", [], z3.BoolVal(out == want and asked == [("zeta", decimals)]), 0, label=f"Container.to_string[{own!r}, decimals={decimals}]: sub-circuits in sorted order as open / short / text(same decimals), then the parameters")
        ns = {"super": lambda: type("S", (), {"to_string": lambda s, decimals=-1: "Tl"})(), "sorted": sorted, "len": len}
        O.load("circuit/base", ["Container.to_string"], ns)
        sess.check("post", [], z3.BoolVal(ns["to_string"](type("C", (), {"_subcircuit_value": {}})(), decimals=-1) == "Tl"), 0, label="Container.to_string(decimals=-1) == the symbol")
    return ("circuit/base:Container.to_string", "circuit/base", "Container.to_string", run)


_targets_c03_with_element_emitter = targets


def targets():      # noqa: F811
    return _targets_c03_with_element_emitter() + [target_container_emitter()]
