"""C03 proof layer: (1) stack-frame contract of Parser.subcircuit and the node-per-call contracts of main_loop / connection
(shared with C04: a sub-circuit never takes elements from, or leaves elements in, the enclosing connection);
(2) limit-ordering call preconditions of Parser.element against the Element setter contracts of C14 (what serialize()
emits for an element whose values lie within its limits is accepted again, with the same values/limits/fixed flags).
The emitter/parser pair as a whole (all spellings, labels, decimals) is the labelled bounded stand-in."""
from __future__ import annotations

from . import c04


def targets():
    ts = [t for t in c04.targets() if "Parser.subcircuit" in t[0] or "Parser.connection" in t[0] or "Parser.main_loop" in t[0]]
    try:
        from . import c03_element
        ts += c03_element.targets()
    except ImportError:
        pass
    return ts
