"""C03 proof layer: (1) stack-frame contract of Parser.subcircuit and the node-per-call contracts of main_loop / connection
(shared with C04: a sub-circuit never takes elements from, or leaves elements in, the enclosing connection);
(2) limit-ordering call preconditions of Parser.element against the Element setter contracts of C14 (what serialize()
emits for an element whose values lie within its limits is accepted again, with the same values/limits/fixed flags).
The emitter/parser pair as a whole (all spellings, labels, decimals) is the labelled bounded stand-in."""
from __future__ import annotations

from . import c04


def targets():
    ts = [t for t in c04.targets() if "Parser.subcircuit" in t[0] or "Parser.connection" in t[0] or "Parser.main_loop" in t[0]]
    try:
        from . import c03_element
        ts += c03_element.targets()
    except ImportError:
        pass
    return ts


def target_connection_emitters():
    """Series.to_string / Parallel.to_string / Circuit.to_string / Circuit.serialize on recording children: a connection prints
    its opening bracket, the texts of its children in order -- each asked once, with the SAME `decimals` -- and its closing
    bracket ('[' ']' for series, '(' ')' for parallel: the token pairs Parser.connection is proved against); a circuit prints its
    top-level series; serialize() prefixes the version header `!V=<n>!` and refuses decimals < 1."""
    import z3
    from pyvc import overload as O
    from pyvc.core import Session

    def run(sess: Session):
        for module, qual, lo, hi in (("circuit/series", "Series.to_string", "[", "]"), ("circuit/parallel", "Parallel.to_string", "(", ")")):
            for decimals in (-1, 3, 12):
                asked = []

                class Child:
                    def __init__(self, name):
                        self.name = name

                    def to_string(self, decimals=-1):
                        asked.append((self.name, decimals))
                        return f"<{self.name}>"
                class Connection:          # what `isinstance(x, Connection)` in the emitters refers to
                    pass

                class EmptyConnection(Connection, Child):
                    """a nested connection without children: it still has a text ('[]' / '()') and a meaning (an empty series in a
                    parallel connection is a short), so it must not be left out"""

                    def __init__(self):
                        Child.__init__(self, "empty")

                    def __len__(self):
                        return 0

                    def __iter__(self):
                        return iter(())
                ns = {"map": map, "filter": filter, "isinstance": isinstance, "len": len, "Connection": Connection}
                me = type("Me", (O.auto_methods("circuit/base", "Connection", ns),), {"_elements": [Child("a"), Child("b"), Child("c")]})()
                O.load(module, [qual], ns)
                out = ns["to_string"](me, decimals=decimals)
                sess.check("post", [], z3.BoolVal(out == f"{lo}<a><b><c>{hi}" and asked == [("a", decimals), ("b", decimals), ("c", decimals)]), 0,
                           label=f"{qual}(decimals={decimals}) == '{lo}' + children in order (same decimals, each asked once) + '{hi}'")
                asked.clear()
                me2 = type("Me", (O.auto_methods("circuit/base", "Connection", ns),), {"_elements": [Child("a"), EmptyConnection(), Child("b")]})()
                out = ns["to_string"](me2, decimals=decimals)
                sess.check("post", [], z3.BoolVal(out == f"{lo}<a><empty><b>{hi}" and asked == [("a", decimals), ("empty", decimals), ("b", decimals)]), 0,
                           label=f"{qual}(decimals={decimals}): a nested connection without children is printed like any other child (it is not left out)")
                empty = type("Me", (O.auto_methods("circuit/base", "Connection", ns),), {"_elements": []})()
                sess.check("post", [], z3.BoolVal(ns["to_string"](empty, decimals=decimals) == lo + hi), 0, label=f"{qual}(decimals={decimals}) of an empty connection == '{lo}{hi}'")
        # Circuit
        asked = []

        class Top:
            def to_string(self, decimals=-1):
                asked.append(decimals)
                return "[TOP]"
        ns = {"VERSION": 7}
        O.load("circuit/circuit", ["Circuit.to_string", "Circuit.serialize"], ns)
        me = type("C", (), {"_elements": Top()})()
        me.to_string = lambda decimals=-1: ns["to_string"](me, decimals=decimals)
        sess.check("post", [], z3.BoolVal(ns["to_string"](me, decimals=5) == "[TOP]" and asked == [5]), 0, label="Circuit.to_string(decimals) == top-level series' text with the same decimals")
        asked.clear()
        sess.check("post", [], z3.BoolVal(ns["serialize"](me, decimals=9) == "!V=7![TOP]" and asked == [9]), 0, label="Circuit.serialize(decimals) == '!V=<VERSION>!' + to_string(decimals)")
        refused = False
        try:
            ns["serialize"](me, decimals=0)
        except ValueError:
            refused = True
        sess.check("post", [], z3.BoolVal(refused), 0, label="Circuit.serialize refuses decimals < 1")
    return ("circuit/series:Series.to_string / Parallel.to_string / Circuit.serialize", "circuit/series", "Series.to_string", run)


_targets_c03_core = targets


def targets():      # noqa: F811
    return _targets_c03_core() + [target_connection_emitters()]


def target_element_emitter():
    """Element.to_string(decimals >= 0): structure and data flow of the emitted text, independent of how numbers are formatted:
    SYMBOL{key=<value>[F]/<lower or inf>/<upper or inf>,...[:label]} with the keys of get_values() in order, each number reading
    back (float()) as that parameter's own value / lower limit / upper limit, `F` exactly on the fixed ones, `inf` exactly for the
    infinite limits, the label after a colon iff there is one.  Distinct tagged values stand for arbitrary ones; all combinations
    of {finite, infinite} limits x fixed flags x label x decimals in {1, 6, 12} are enumerated."""
    import itertools
    import math
    import re
    import z3
    from pyvc import overload as O
    from pyvc.core import Session

    def run(sess: Session):
        ns = {"_is_integer": lambda x: isinstance(x, int), "isinf": math.isinf}
        O.load("circuit/base", ["Element.to_string"], ns)
        fn = ns["to_string"]
        num = r"[-+]?[0-9.]+(?:[eE][-+]?[0-9]+)?"
        n = 0
        bad = {}
        for lo_inf, up_inf, fixed, label, decimals in itertools.product(itertools.product((False, True), repeat=2), itertools.product((False, True), repeat=2),
                                                                        itertools.product((False, True), repeat=2), ("", "lbl"), (1, 6, 12)):
            vals = {"R": 1.5, "Yq": 0.062}          # two significant digits: exact at every printed precision
            lows = {"R": (-math.inf if lo_inf[0] else 0.5), "Yq": (-math.inf if lo_inf[1] else 0.031)}
            ups = {"R": (math.inf if up_inf[0] else 7.5), "Yq": (math.inf if up_inf[1] else 0.87)}
            fx = {"R": fixed[0], "Yq": fixed[1]}
            me = type("E", (O.auto_methods("circuit/base", "Element", ns),), {"_label": label, "get_symbol": lambda s: "Sy", "get_values": lambda s: dict(vals), "get_lower_limits": lambda s: dict(lows),
                                "get_upper_limits": lambda s: dict(ups), "are_fixed": lambda s: dict(fx)})()
            out = fn(me, decimals=decimals)
            n += 1
            m = re.fullmatch(r"Sy\{(.*?)(?::(.*))?\}", out)
            ok = m is not None and (m.group(2) or "") == label
            if ok:
                parts = m.group(1).split(",")
                ok = len(parts) == 2
                for part, key in zip(parts, ("R", "Yq")):
                    pm = re.fullmatch(rf"({re.escape(key)})=({num})(F?)/({num}|inf)/({num}|inf)", part)
                    ok = ok and pm is not None
                    if pm is None:
                        break
                    ok = ok and float(pm.group(2)) == vals[key] and (pm.group(3) == "F") == fx[key]
                    ok = ok and ((pm.group(4) == "inf") == math.isinf(lows[key])) and (pm.group(4) == "inf" or float(pm.group(4)) == lows[key])
                    ok = ok and ((pm.group(5) == "inf") == math.isinf(ups[key])) and (pm.group(5) == "inf" or float(pm.group(5)) == ups[key])
            if not ok:
                bad.setdefault((lo_inf, up_inf, fixed, bool(label)), out)
        for lo_inf, up_inf in itertools.product(itertools.product((False, True), repeat=2), repeat=2):
            w = [v for k, v in bad.items() if k[0] == lo_inf and k[1] == up_inf]
            ob = sess.check("post", [], z3.BoolVal(not w), 0, label=f"Element.to_string: key=value[F]/lower/upper per parameter, own numbers, F and inf exactly where due [lower inf={lo_inf}, upper inf={up_inf}]")
            if w:
                ob.detail = f"emitted: {w[0]!r}"
        basic = fn(type("E", (), {"get_symbol": lambda s: "Sy"})(), decimals=-1)
        sess.check("post", [], z3.BoolVal(basic == "Sy"), 0, label="Element.to_string(decimals=-1) == the symbol")
        sess.check("cover", [], z3.BoolVal(n == 384), 0, label=f"combinations={n}")
    return ("circuit/base:Element.to_string", "circuit/base", "Element.to_string", run)


_targets_c03_with_connections = targets


def targets():      # noqa: F811
    return _targets_c03_with_connections() + [target_element_emitter()]


def target_container_emitter():
    """Container.to_string: the sub-circuits are written between the opening brace and the element's own parameters, in sorted
    key order, as `key=open` (None), `key=short` (a connection without elements) or `key=<text of the connection, same decimals>`,
    separated by ', '; with decimals < 0 only the symbol is printed."""
    import itertools
    import z3
    from pyvc import overload as O
    from pyvc.core import Session

    def run(sess: Session):
        for own, decimals in itertools.product(("Tl{R=1.0E+00/0.0E+00/inf}", "Tl{R=1.0E+00/0.0E+00/inf:lbl}", "Tl{:lbl}", "Tl{}"), (2, 12)):
            asked = []

            class Con:
                def __init__(self, name, n, children=None, direct=None):
                    self.name, self.n, self.children = name, n, (n if children is None else children)
                    self.direct = n if direct is None else direct      # elements that are direct children (the rest sit in nested connections)

                def get_elements(self, recursive=True):
                    return [0] * (self.n if recursive else self.direct)

                def __len__(self):                 # direct children: a connection can hold (emptied) nested connections and still have no element
                    return self.children

                def to_string(self, decimals=-1):
                    asked.append((self.name, decimals))
                    return f"<{self.name}>"
            # Z_B: every element sits inside a nested connection ('[(RC)]'): it HAS elements, so it is written out, not `short`
            subs = {"Zeta": Con("zeta", 2), "X_1": None, "X_2": Con("x2", 0), "Z_A": Con("za", 0, children=1), "Z_B": Con("zb", 2, children=1, direct=0)}
            ns = {"super": lambda: type("S", (), {"to_string": lambda s, decimals=-1: own})(), "sorted": sorted, "len": len}
            me = type("C", (O.auto_methods("circuit/base", ["Container", "Element"], ns),), {"_subcircuit_value": subs})()
            O.load("circuit/base", ["Container.to_string"], ns)
            out = ns["to_string"](me, decimals=decimals)
            head, rest = own[:3], own[3:]
            body = "X_1=open, X_2=short, Z_A=short, Z_B=<zb>, Zeta=<zeta>"       # Z_A: no element although it has a (hollow) child -> short, never '[()]' 
            want = head + body + (", " + rest if rest[0] not in ":}" else rest)
            sess.check("post", [], z3.BoolVal(out == want and asked == [("zb", decimals), ("zeta", decimals)]), 0, label=f"Container.to_string[{own!r}, decimals={decimals}]: sub-circuits in sorted order as open / short / text(same decimals), then the parameters")
        ns = {"super": lambda: type("S", (), {"to_string": lambda s, decimals=-1: "Tl"})(), "sorted": sorted, "len": len}
        O.load("circuit/base", ["Container.to_string"], ns)
        sess.check("post", [], z3.BoolVal(ns["to_string"](type("C", (), {"_subcircuit_value": {}})(), decimals=-1) == "Tl"), 0, label="Container.to_string(decimals=-1) == the symbol")
    return ("circuit/base:Container.to_string", "circuit/base", "Container.to_string", run)


_targets_c03_with_element_emitter = targets


def targets():      # noqa: F811
    return _targets_c03_with_element_emitter() + [target_container_emitter()]


def target_limit_checks():
    """the conditions under which the parser refuses a written limit: InvalidParameterLowerLimit is raised exactly when a lower
    limit is given and lies strictly above the value, InvalidParameterUpperLimit exactly when an upper limit is given and lies
    strictly below it -- so a value that sits ON one of its limits (what serialize() prints after a limit was moved onto the value,
    `n=1` for a CPE, a 100 % limit) parses.  The guard of each `raise` (with the tests of the enclosing ifs of its function) is
    translated to real arithmetic and compared with that specification; the counter-model is replayed through parse_cdc."""
    import ast
    import z3
    from pyvc import core
    from pyvc.core import Session

    def run(sess: Session):
        tree = core.module_ast("circuit/parser")
        value, lower, upper = z3.Reals("value lower upper")
        nan_lo, nan_up = z3.Bools("isnan_lower isnan_upper")
        env = {"value": value, "lower": lower, "upper": upper}

        def tr(e):
            if isinstance(e, ast.BoolOp):
                vs = [tr(v) for v in e.values]
                return z3.And(*vs) if isinstance(e.op, ast.And) else z3.Or(*vs)
            if isinstance(e, ast.UnaryOp) and isinstance(e.op, ast.Not):
                return z3.Not(tr(e.operand))
            if isinstance(e, ast.Call) and isinstance(e.func, ast.Name) and e.func.id == "isnan" and len(e.args) == 1 and isinstance(e.args[0], ast.Name) and e.args[0].id in ("lower", "upper"):
                return nan_lo if e.args[0].id == "lower" else nan_up
            if isinstance(e, ast.Compare) and len(e.ops) == 1 and all(isinstance(x, ast.Name) and x.id in env for x in [e.left, e.comparators[0]]):
                a, b = env[e.left.id], env[e.comparators[0].id]
                return {ast.Lt: a < b, ast.LtE: a <= b, ast.Gt: a > b, ast.GtE: a >= b, ast.Eq: a == b, ast.NotEq: a != b}[type(e.ops[0])]
            raise NotImplementedError(ast.unparse(e)[:60])
        spec = {"InvalidParameterLowerLimit": z3.And(z3.Not(nan_lo), lower > value), "InvalidParameterUpperLimit": z3.And(z3.Not(nan_up), upper < value)}
        found = {k: 0 for k in spec}
        for fn in [f for c in tree.body if isinstance(c, ast.ClassDef) and c.name == "Parser" for f in c.body if isinstance(f, ast.FunctionDef)]:
            def walk(body, guards):
                for s in body:
                    if isinstance(s, ast.Raise) and isinstance(s.exc, ast.Call) and isinstance(s.exc.func, ast.Name) and s.exc.func.id in spec:
                        name = s.exc.func.id
                        found[name] += 1
                        try:
                            rel = [(g, pos) for g, pos in guards if any(isinstance(x, ast.Name) and x.id in ("value", "lower", "upper") for x in ast.walk(g))]
                            cond = z3.And(*[tr(g) if pos else z3.Not(tr(g)) for g, pos in rel]) if rel else z3.BoolVal(True)
                        except NotImplementedError as ex:
                            sess.unsupported(f"{fn.name}: the guard of `raise {name}` uses {ex}", s.lineno)
                            continue
                        # an upper-limit error is only reached when the lower-limit test of the same statement list did not fire
                        ctx = [] if name == "InvalidParameterLowerLimit" else [z3.Not(spec["InvalidParameterLowerLimit"])]
                        ob = sess.check("post", ctx, cond == spec[name], s.lineno, label=f"{name} is raised exactly when the limit is given and strictly {'above' if 'Lower' in name else 'below'} the value")
                        if ob.status == "refuted" and ob.model:
                            from fractions import Fraction
                            m = {k: float(Fraction(v.replace("?", ""))) for k, v in ob.model.items() if k in ("value", "lower", "upper") and "/" in v or v.replace(".", "").replace("-", "").isdigit()}
                            v_ = m.get("value", 1.0)
                            lo_ = m.get("lower", v_ - 1.0)
                            up_ = m.get("upper", v_ + 1.0)
                            if "Lower" in name:
                                up_ = max(up_, v_ + 1.0, lo_ + 1.0)
                            else:
                                lo_ = min(lo_, v_ - 1.0, up_ - 1.0)
                            accept = lo_ <= v_ <= up_ and lo_ < up_
                            cdc = f"R{{R={v_!r}/{lo_!r}/{up_!r}}}"
                            ob.replay = {"repro": "from pyimpspec import parse_cdc\nfrom pyimpspec.exceptions import ParsingError\n"
                                                  f"cdc = {cdc!r}\nexpect_accept = {accept}\n"
                                                  "try:\n    parse_cdc(cdc)\n    got = True\nexcept (ParsingError, ValueError) as ex:\n    got = False\n    print('refused:', type(ex).__name__, ex)\n"
                                                  "assert got == expect_accept, (cdc, got, expect_accept)\n"}
                    elif isinstance(s, ast.If):
                        walk(s.body, guards + [(s.test, True)])
                        walk(s.orelse, guards + [(s.test, False)])
                    elif isinstance(s, (ast.For, ast.While, ast.With, ast.Try)):
                        walk(s.body, guards)
                        for h in getattr(s, "handlers", []):
                            walk(h.body, guards)
                        walk(getattr(s, "orelse", []), guards)
                        walk(getattr(s, "finalbody", []), guards)
            walk(fn.body, [])
        for name, n in found.items():
            sess.check("cover", [], z3.BoolVal(n >= 1), 0, label=f"`raise {name}` found in the parser")
    return ("circuit/parser:Parser limit checks", "circuit/parser", "Parser.parameters", run)


_targets_c03_with_container_emitter = targets


def targets():      # noqa: F811
    return _targets_c03_with_container_emitter() + [target_limit_checks()]


_targets_before_assembly = targets


def target_process_assembly():
    """`Parser.process`, from what the top-level loop leaves on the stack to the circuit: several items become ONE series holding
    exactly those items in input order (the stack is popped in reverse) -- a bracketed series among them may be kept as one child or
    merged in place, which the property allows, but nothing is lost, duplicated or moved: `R[CL](RC)` is R, C, L, (RC) in that order; a single item becomes the circuit's
    series as it is if it is a series and is wrapped in one otherwise; the circuit is built from that series.  The real method runs
    on recording stand-ins: the tokenizer and `main_loop` are stubs that leave the given nodes on the stack."""
    import z3
    from pyvc import overload as O
    from pyvc.core import Session

    def run(sess: Session):
        class Element:
            def __init__(self, name):
                self.name = name

        class Connection:
            pass

        class Series(Connection):
            def __init__(self, elements):
                self._elements = list(elements)
                self.made_by_process = True

        class Parallel(Connection):
            def __init__(self, elements=()):
                self._elements = list(elements)

        class Circuit:
            def __init__(self, con):
                self.con = con

        def mk_series(tag, kids):
            s_ = Series.__new__(Series)
            s_._elements, s_.made_by_process, s_.tag = list(kids), False, tag
            return s_
        r, c, l_ = Element("R"), Element("C"), Element("L")
        inner = mk_series("[CL]", [c, l_])
        par = Parallel([Element("R2"), Element("C2")])
        cases = {"R[CL](RC)": [r, inner, par], "[CL]R": [mk_series("[CL]", [c, l_]), r], "single series": [mk_series("[RC]", [r, c])], "single element": [r], "single parallel": [par]}
        for name, items in cases.items():
            ns = {"Series": Series, "Parallel": Parallel, "Element": Element, "Connection": Connection, "Circuit": Circuit, "isinstance": isinstance, "type": type, "len": len,
                  "Tokenizer": type("Tokenizer", (), {"process": lambda self, s_: [f"token{k}" for k in range(len(items))]}), "ParsingError": type("ParsingError", (Exception,), {})}

            class Me(O.auto_methods("circuit/parser", "Parser", ns)):      # (a helper method process() is refactored to call is taken from the real class)
                def __init__(self):
                    self._stack, self._tokens, self.loops = [], [], 0

                def migrate(self, version=-1):
                    pass

                def main_loop(self):
                    # what the real main loop does, seen from process(): consumes tokens, pushes finished nodes (newest on top)
                    self._tokens.pop(0)
                    self._stack.insert(0, items[self.loops])
                    self.loops += 1

                def pop_stack(self):
                    return self._stack.pop(0)

                def push_stack(self, item):
                    self._stack.insert(0, item)

                def is_stack_empty(self):
                    return len(self._stack) == 0

                def get_stack_length(self):
                    return len(self._stack)
            O.load("circuit/parser", ["Parser.process"], ns)
            me = Me()
            out = ns["process"](me, "some code")
            tag = f" [{name}]"
            ok = isinstance(out, Circuit) and isinstance(out.con, Series)
            sess.check("post", [], z3.BoolVal(ok and not me._stack), 0, label="the circuit is built from a series and the stack is used up" + tag)
            if not ok:
                continue
            def flat(xs):
                out_ = []
                for x in xs:
                    if isinstance(x, Series):
                        out_ += flat(x._elements)
                    else:
                        out_.append(x)
                return out_
            if len(items) > 1:
                kids = out.con._elements
                # (the property allows directly nested series to be merged into the series that holds them, so the comparison is
                # made on the flattened sequences; what must not happen is an item lost, duplicated or moved)
                sess.check("post", [], z3.BoolVal(len(flat(kids)) == len(flat(items)) and all(a is b for a, b in zip(flat(kids), flat(items)))), 0,
                           label="the top-level series holds exactly what the loop produced, in input order (nested series merged or kept, nothing lost, duplicated or moved)" + tag)
                sess.check("post", [], z3.BoolVal(all(not isinstance(k, Parallel) or len(k._elements) == 2 for k in kids)), 0, label="nested parallel connections keep their own children" + tag)
            elif isinstance(items[0], Series):
                sess.check("post", [], z3.BoolVal(out.con is items[0]), 0, label="a single series is the circuit's series as it is" + tag)
            else:
                sess.check("post", [], z3.BoolVal(out.con.made_by_process and len(out.con._elements) == 1 and out.con._elements[0] is items[0]), 0, label="a single element or parallel connection is wrapped in a series" + tag)
    return ("circuit/parser:Parser.process[what the stack becomes]", "circuit/parser", "Parser.process", run)


def targets():      # noqa: F811
    return _targets_before_assembly() + [target_process_assembly()]


_targets_before_setters = targets


def targets():      # noqa: F811
    """+ shared with C14: `Parser.element` builds the element through the setters, so the values, limits and flags that were
    written are the ones read back only if each setter stores exactly what it is given (a limit of 0 is a limit, not 'no limit')"""
    from . import c14
    shared = [t for t in c14._targets_before_roundtrip() if any(k in t[0] for k in ("Element.set_values[kw]", "Element.set_lower_limits[kw]", "Element.set_upper_limits[kw]", "Element.set_fixed[kw]"))]
    return _targets_before_setters() + shared
