"""C08 proof layer: the algebra of residuals / pseudo chi-squared on the real functions (pointwise; sums by the Sigma rule),
and data-flow obligations on the result-assembly sites (which expressions the result objects are built from)."""
from __future__ import annotations

import ast

import z3

from pyvc import core
from pyvc import overload as O
from pyvc.core import Session
from pyvc.overload import SQ, csym, sym
from . import lemmas as L
from . import dataflow as DF


def target_algebra():
    def run(sess: Session):
        ctx = L.fresh_ctx([z3.Or(z3.Real("Ze_re") != 0, z3.Real("Ze_im") != 0)])
        P = ctx.P
        ns = L.load(L.UTIL, ["_calculate_residuals", "_boukamp_weight", "_calculate_pseudo_chisqr"])
        Ze, Zf = csym("Ze"), csym("Zf")
        r = ns["_calculate_residuals"](Ze, Zf)
        s = abs(Ze)                    # memoised: the same symbol the function used
        # residual = (Z_exp - Z_fit)/|Z_exp| point by point
        sess.check_qeq("post", P, r * s, Ze - Zf, 0, label="residual*|Z_exp| == Z_exp - Z_fit")
        chi_term = ns["_calculate_pseudo_chisqr"](Ze, Zf)          # pointwise summand (array_sum is the Sigma marker)
        sess.check("post", P.hyps, P.eq_goal(chi_term, L.abs2(r)), 0, label="chisqr summand == |residual|^2 (default Boukamp weight)")
        w = sym("w")
        chi_w = ns["_calculate_pseudo_chisqr"](Ze, Zf, weight=w)
        sess.check_qeq("post", P, chi_w, w * L.abs2(Ze - Zf), 0, label="chisqr summand with explicit weight == w*|Z_exp-Z_fit|^2")
        sess.check_qeq("post", P, ns["_boukamp_weight"](Ze) * L.abs2(Ze), SQ.of(1), 0, label="boukamp weight == 1/|Z|^2")
        # the Kramers-Kronig copy of the weight agrees with it for impedances and is 1/|Y|^2 for admittances
        ns2 = L.load(L.KKUTIL, ["_boukamp_weight"])
        sess.check_qeq("post", P, ns2["_boukamp_weight"](Ze, False), ns["_boukamp_weight"](Ze), 0, label="kramers_kronig._boukamp_weight(Z, False) == utility._boukamp_weight(Z)")
        sess.check_qeq("post", P, ns2["_boukamp_weight"](Ze, True) * L.abs2(1 / Ze), SQ.of(1), 0, label="kramers_kronig._boukamp_weight(Z, True) == 1/|1/Z|^2")
        sess.check("canary", P.hyps, P.eq_goal(chi_term, 2 * L.abs2(r)), 0, label="2*|r|^2", expect_refuted=True)
        sess.assumptions.append("Sigma rule: array_sum of pointwise-equal summands are equal (numpy.sum is uninterpreted, congruent and linear)")
    return (f"{L.UTIL}:_calculate_pseudo_chisqr", L.UTIL, "_calculate_pseudo_chisqr", run)


RESULT_CLASSES = [("analysis/drt/result", "DRTResult", False), ("analysis/zhit/__init__", "ZHITResult", False),
                  ("analysis/fitting", "FitResult", True), ("analysis/kramers_kronig/result", "KramersKronigResult", True)]


def target_result_views():
    """What a result object SHOWS is what it HOLDS: get_frequencies / get_impedances / get_nyquist_data / get_bode_data /
    get_residuals_data of every result class are the stored frequencies, impedances and residuals (Re Z, -Im Z; f, |Z|, -phase in
    degrees; f, 100 Re r, 100 Im r), and for the classes with a `num_per_decade` option (FitResult, KramersKronigResult) a positive
    value shows the attached circuit's impedance at the SAME interpolated frequencies in every view (so the curve a user plots is
    the reported circuit's, and f / |Z| / phase of one row belong together).  The real methods run on EUF terms."""
    from .dataflow import T, opaque

    def run(sess: Session):
        n_paths = 0
        for module, cls, has_n in RESULT_CLASSES:
            names = ["get_frequencies", "get_impedances", "get_nyquist_data", "get_bode_data", "get_residuals_data"]
            ns = {"abs": lambda x: abs(x), "angle": opaque("angle"), "_interpolate": opaque("_interpolate"), "_is_integer": lambda x: True}
            O.load(module, [f"{cls}.{n}" for n in names], ns)
            f, Z, r = T.var("f"), T.var("Z"), T.var("res")
            circ_Z = opaque("circuit.get_impedances")

            class Circuit:
                def get_impedances(self, freq):
                    return circ_Z(freq)

            class Me:
                frequencies, impedances, residuals, circuit = f, Z, r, Circuit()
            for n in names:
                setattr(Me, n, ns[n])
            ang = lambda z: opaque("angle")(z, deg=True)
            cases = [("default", (), f, Z)]
            if has_n:
                cases += [("num_per_decade=0", (0,), f, Z), ("num_per_decade=-1", (-1,), f, Z)]
            for tag, a, fw, Zw in cases:
                me = Me()
                DF.eq_check(sess, f"{cls}.get_frequencies == stored frequencies [{tag}]", me.get_frequencies(*a), fw)
                DF.eq_check(sess, f"{cls}.get_impedances == stored impedances [{tag}]", me.get_impedances(*a), Zw)
                re_, nim = me.get_nyquist_data(*a)
                DF.eq_check(sess, f"{cls}.get_nyquist_data == (Re Z, -Im Z) [{tag}]", (re_, nim), (Zw.real, -Zw.imag))
                DF.eq_check(sess, f"{cls}.get_bode_data == (f, |Z|, -phase in degrees) [{tag}]", tuple(me.get_bode_data(*a)), (fw, abs(Zw), -ang(Zw)))
                n_paths += 1
            DF.eq_check(sess, f"{cls}.get_residuals_data == (f, 100 Re r, 100 Im r)", tuple(Me().get_residuals_data()), (f, r.real * 100, r.imag * 100))
            if has_n:
                def once():
                    n = T.var("n")
                    me = Me()
                    return n, me.get_frequencies(n), me.get_impedances(n), me.get_nyquist_data(n), me.get_bode_data(n)
                for log, (n, gf, gZ, ny, bo), facts in DF.explore(once):
                    pos = all(v for w, v in log if "gt" in str(w))
                    tag = "n>0" if pos else "n<=0"
                    fw = opaque("_interpolate")(f, n) if pos else f
                    Zw = circ_Z(fw) if pos else Z
                    DF.eq_check(sess, f"{cls}.get_frequencies == {'interpolated' if pos else 'stored'} frequencies [{tag}]", gf, fw)
                    DF.eq_check(sess, f"{cls}.get_impedances == {'circuit impedance at the interpolated frequencies' if pos else 'stored impedances'} [{tag}]", gZ, Zw)
                    DF.eq_check(sess, f"{cls}.get_nyquist_data == (Re Z, -Im Z) of that curve [{tag}]", tuple(ny), (Zw.real, -Zw.imag))
                    DF.eq_check(sess, f"{cls}.get_bode_data == (f, |Z|, -phase) of that curve at those frequencies [{tag}]", tuple(bo), (fw, abs(Zw), -ang(Zw)))
                    n_paths += 1
        sess.check("cover", [], z3.BoolVal(n_paths >= 10), 0, label=f"result views executed on {n_paths} paths")
    return ("analysis/drt/result:result views show the stored fields", "analysis/drt/result", "DRTResult.get_bode_data", run)


def targets():
    from . import purity, c12
    pure = purity.target([
        ("analysis/utility", ["_calculate_residuals", "_boukamp_weight", "_calculate_pseudo_chisqr"], ()),
        ("analysis/zhit/offset", ["_adjust_offset", "_adjust_modulus_offset", "_calculate_modulus_offset"], ()),
        ("analysis/zhit/reconstruction", ["_reconstruct", "_reconstruct_modulus_data"], ()),
        ("analysis/zhit/weights", ["_generate_weights", "_generate_window_options"], ()),
    ], title="callees assumed pure by the data-flow contracts write no module-level state")
    # the circuit passed to fit_circuit is only read through deepcopy, once per method/weight combination (inputs are not modified,
    # and results of different combinations do not share a circuit)
    from . import c05
    # shared with C05: what every analysis reads (the unmasked view) is a function of the data set's current mask -- the getters
    # select by the mask as it is now and keep no subsets from earlier calls
    # ... and on how the constructor maps the caller's mask onto the points (ascending input is reversed, the mask with it): which
    # points are "masked" when an analysis runs is decided there
    shared = [t for t in c05.targets() if "get_frequencies" in t[0] or "set_mask" in t[0] or "observers" in t[0] or "DataSet.__init__" in t[0]]
    results = purity.target_observers(["data/data_set", "analysis/drt/result", "analysis/kramers_kronig/result", "analysis/zhit/__init__", "analysis/fitting",
                                       "analysis/drt/tr_nnls", "analysis/drt/tr_rbf", "analysis/drt/bht", "analysis/drt/lm", "analysis/drt/mrq_fit"], "data set and result observers keep no state")
    from . import frames
    return [target_algebra()] + DF.c08_targets() + [pure, c12.target_fit_process_frame(), results, frames.target_inputs_not_modified(), target_result_views()] + shared



_targets_before_interpolate_c08 = targets


def targets():      # noqa: F811
    # shared with C19: the grid behind every result's get_frequencies(num_per_decade) / get_impedances(num_per_decade)
    from . import c19
    return _targets_before_interpolate_c08() + [c19.target_interpolate()]
