"""C16 proof layer: identifiers are unique and well-numbered (circuit/base.py).

  * Connection._get_elements_recursive: the returned list has no duplicates (so the explicit `raise ValueError` is
    unreachable) and holds elements only;
  * Connection.generate_element_identifiers: running=True maps the j-th element to j (a bijection onto 0..N-1 given no
    duplicates); running=False maps the j-th element to 1 + (number of earlier elements with the same symbol), i.e. the
    per-type count 1..count in traversal order (ghost prefix-count function).
Names as strings (f"{symbol}_{id}"), sympy variables, fit identifiers and diagram labels: bounded layer."""
from __future__ import annotations

import ast

import z3

from pyvc import builtins as B
from pyvc.core import Session, find_def
from pyvc.symex import Contract, Executor, LoopSpec, Raised, State, Unsupported
from pyvc.values import NONE, ClassV, DictV, FuncV, Key, ListV, NoneV, Obj, PyList, Ref, StrV, TupleV, fresh

MOD = "circuit/base"
I = z3.IntSort()
kind = z3.Function("nkind", I, I)
sym = z3.Function("symbol_of", I, Key)
ELEMENT, CONTAINER, CONNECTION = 1, 2, 3


class Node:
    def __init__(self, i):
        self.id = i


def is_element(i):
    return z3.Or(kind(i) == ELEMENT, kind(i) == CONTAINER)


def no_dups(L: ListV):
    a, b = fresh("a", I), fresh("b", I)
    return z3.ForAll([a, b], z3.Implies(z3.And(L.lo <= a, a < b, b < L.hi), z3.Select(L.arr, a) != z3.Select(L.arr, b)))


def all_elements(L: ListV):
    a = fresh("a", I)
    return z3.ForAll([a], z3.Implies(z3.And(L.lo <= a, a < L.hi), is_element(z3.Select(L.arr, a))))


def fresh_list(tag) -> ListV:
    L = ListV(fresh(tag, z3.ArraySort(I, I)), z3.IntVal(0), fresh(tag + ".n", I), wrap=Node)
    return L


def executor(sess) -> Executor:
    ex = Executor(sess, MOD, "Connection")
    B.install(ex)
    ex.empty_list_sort = I
    for n in ("Element", "Container", "Connection"):
        ex.classes[n] = ClassV(n)

    def isinstance_model(ex_, st, v, c):
        names = [x.name for x in (c.items if isinstance(c, TupleV) else [c]) if isinstance(x, ClassV)]
        if isinstance(v, Node):
            conds = []
            for n in names:
                if n == "Element":
                    conds.append(is_element(v.id))
                elif n == "Container":
                    conds.append(kind(v.id) == CONTAINER)
                elif n == "Connection":
                    conds.append(kind(v.id) == CONNECTION)
            return z3.Or(*conds) if conds else z3.BoolVal(False)
        return None
    ex.isinstance_model = isinstance_model
    orig_cvm = ex.call_value_method

    def cvm(recv, o, name, args, kwargs, st, node):
        args = [a.id if isinstance(a, Node) else a for a in args]
        if isinstance(o, ListV) and name == "extend":
            other = st.deref(args[0])
            if isinstance(other, ListV):
                i = fresh("xi", I)
                n0 = o.hi
                st.heap[recv.addr] = ListV(z3.Lambda([i], z3.If(i < n0, z3.Select(o.arr, i), z3.Select(other.arr, i - n0 + other.lo))), o.lo, o.hi + other.length(), o.wrap)
                return [(NONE, st)]
        return orig_cvm(recv, o, name, args, kwargs, st, node)
    ex.call_value_method = cvm
    orig_contains = ex.contains

    def contains(container, item, st, line):
        if isinstance(item, Node):
            item = item.id
        return orig_contains(container, item, st, line)
    ex.contains = contains
    orig_store = ex.store

    def store(t, v, st, node):
        return orig_store(t, v, st, node)
    ex.store = store
    return ex


def target_elements_recursive():
    qual = "Connection._get_elements_recursive"

    def run(sess: Session):
        ex = executor(sess)
        st = State()
        me = st.alloc(Obj("Connection", {}))
        items = fresh_list("items")
        a = fresh("a", I)
        # contract of _get_all_items_recursive: the direct and nested non-connection children (WF: they are elements)
        st.pc += [items.hi >= 0, all_elements(items)]

        def all_items(ex_, s, recv, args, kwargs, line):
            return [(s.alloc(ListV(items.arr, items.lo, items.hi, items.wrap)), s)]
        ex.contracts["_get_all_items_recursive"] = Contract("_get_all_items_recursive", all_items)

        def sub_elements(ex_, s, recv, args, kwargs, line):
            L = fresh_list("sub")
            s.pc += [L.hi >= 0, all_elements(L)]
            return [(s.alloc(L), s)]
        ex.contracts["_get_elements_recursive"] = Contract("_get_elements_recursive", sub_elements)
        orig_ga = ex.getattr

        def ga(base, attr, s, node=None):
            if attr == "__bases__":
                return TupleV([ClassV("Connection")])
            if isinstance(base, Node) and attr in ("_get_elements_recursive", "get_subcircuits"):
                return ("nodemethod", base, attr)
            return orig_ga(base, attr, s, node)
        ex.getattr = ga
        orig_call = ex.call

        def call(f, args, kwargs, starkw, s, node):
            if isinstance(f, tuple) and f[0] == "nodemethod":
                if f[2] == "_get_elements_recursive":
                    return sub_elements(ex, s, f[1], args, kwargs, getattr(node, "lineno", 0))
                if f[2] == "get_subcircuits":
                    return [(("subcircuits", f[1]), s)]
            if isinstance(f, tuple) and f[0] == "boundmethod" and isinstance(f[1], tuple) and f[1][0] == "subcircuits" and f[2] == "values":
                return [(("subvalues", f[1][1]), s)]
            return orig_call(f, args, kwargs, starkw, s, node)
        ex.call = call
        orig_ga2 = ex.getattr

        def ga2(base, attr, s, node=None):
            if isinstance(base, tuple) and base and base[0] == "subcircuits":
                return ("boundmethod", base, attr)
            return orig_ga2(base, attr, s, node)
        ex.getattr = ga2

        def b_filter(ex_, s, a_, kw, n):
            # filter(lambda c: c is not None, container.get_subcircuits().values()): some list of connections
            L = fresh_list("subcons")
            j = fresh("j", I)
            s.pc += [L.hi >= 0, z3.ForAll([j], z3.Implies(z3.And(0 <= j, j < L.hi), kind(z3.Select(L.arr, j)) == CONNECTION))]
            return [(s.alloc(L), s)]
        ex.consts["filter"] = ("builtin", b_filter)
        ex.consts["type"] = ("builtin", lambda ex_, s, a_, kw, n: [(ClassV("Series"), s)])
        ex.consts["set"] = ("builtin", lambda ex_, s, a_, kw, n: [(("setof", s.deref(a_[0])), s)])
        orig_len = ex.consts["len"][1]

        def b_len(ex_, s, a_, kw, n):
            v = a_[0]
            if isinstance(v, tuple) and v[0] == "setof":
                # len(set(L)) == len(L)  iff  L has no duplicates
                L = v[1]
                m = fresh("card", I)
                s.pc += [m >= 0, m <= L.length(), (m == L.length()) == no_dups(L)]
                return [(m, s)]
            return orig_len(ex_, s, a_, kw, n)
        ex.consts["len"] = ("builtin", b_len)

        def inv(ex_, s, entry, ghost):
            el = s.deref(s.loc["elements"])
            q = s.deref(s.loc["queue"])
            j = fresh("j", I)
            return z3.And(el.lo <= el.hi, q.lo <= q.hi, no_dups(el), all_elements(el),
                          z3.ForAll([j], z3.Implies(z3.And(q.lo <= j, j < q.hi), z3.Or(is_element(z3.Select(q.arr, j)), kind(z3.Select(q.arr, j)) == CONNECTION))))

        def prep(ex_, s):
            if isinstance(s.deref(s.loc["elements"]), PyList):
                s.heap[s.loc["elements"].addr] = ListV.empty(I, wrap=Node)
        ex.loops[(qual, "queue")] = LoopSpec(invariant=inv, modifies=["queue", "elements", "element"], prepare=prep)
        fn = find_def(MOD, qual)
        node = ast.parse("f()").body[0].value
        node.lineno = fn.lineno
        outs = ex.call_funcv(FuncV(fn, MOD, qualname=qual, bound_self=me), [], {}, None, st, node)
        n_ok = 0
        for val, s1 in outs:
            if isinstance(val, Raised):
                sess.check("exc-free", s1.pc, z3.BoolVal(False), val.exc.line, label=f"{val.exc.name} unreachable (no duplicate elements, only elements)")
                continue
            n_ok += 1
            L = s1.deref(val)
            sess.check("post", s1.pc, z3.And(no_dups(L), all_elements(L)), 0, label="result: every entry an element, no element twice")
            sess.check("canary", s1.pc, z3.BoolVal(False), 0, label="ensures-False", expect_refuted=True)
        sess.check("cover", [], z3.BoolVal(n_ok >= 1), 0, label="normal-exit")
        sess.assumptions.append("termination of the work-list loop (finite tree) and completeness of the traversal (every reachable element is listed) are not proved here: bounded layer")
    return (f"{MOD}:{qual}", MOD, qual, run)


def target_identifiers():
    qual = "Connection.generate_element_identifiers"

    def run(sess: Session):
        for running in (True, False):
            ex = executor(sess)
            ex.empty_dict_sorts = (I, I)
            st = State()
            me = st.alloc(Obj("Connection", {}))
            els = fresh_list("els")
            st.pc += [els.hi >= 0, no_dups(els), all_elements(els)]

            def get_els(ex_, s, recv, args, kwargs, line):
                return [(s.alloc(ListV(els.arr, els.lo, els.hi, els.wrap)), s)]
            ex.contracts["_get_elements_recursive"] = Contract("_get_elements_recursive", get_els)
            # ghost: pc(j, s) = number of elements with symbol s among the first j
            pcnt = z3.Function("prefix_count", I, Key, I)
            j, s_ = fresh("j", I), fresh("s", Key)
            st.pc += [z3.ForAll([s_], pcnt(0, s_) == 0),
                      z3.ForAll([j, s_], z3.Implies(z3.And(0 <= j, j < els.hi), pcnt(j + 1, s_) == pcnt(j, s_) + z3.If(sym(z3.Select(els.arr, j)) == s_, 1, 0)))]
            orig_ga = ex.getattr

            def ga(base, attr, s, node=None):
                if isinstance(base, Node) and attr == "get_symbol":
                    return ("nodemethod", base, attr)
                return orig_ga(base, attr, s, node)
            ex.getattr = ga
            orig_call = ex.call

            def call(f, args, kwargs, starkw, s, node):
                if isinstance(f, tuple) and f[0] == "nodemethod" and f[2] == "get_symbol":
                    return [(sym(f[1].id), s)]
                return orig_call(f, args, kwargs, starkw, s, node)
            ex.call = call
            # the two comprehensions of the function, as maps
            orig_dictcomp = ex.ev_DictComp

            def dictcomp(e, s):
                src = ast.unparse(e)
                if src == "{element: i for i, element in enumerate(self._get_elements_recursive())}":
                    k = fresh("k", I)
                    i = fresh("i", I)
                    dom = z3.Lambda([k], z3.Exists([i], z3.And(0 <= i, i < els.hi, z3.Select(els.arr, i) == k)))
                    # value: the index of k (well defined: no duplicates) -- as an uninterpreted index_of with its defining axiom
                    index_of = z3.Function("index_of", I, I)
                    s.pc.append(z3.ForAll([i], z3.Implies(z3.And(0 <= i, i < els.hi), index_of(z3.Select(els.arr, i)) == i)))
                    return [(s.alloc(DictV(dom, z3.Lambda([k], index_of(k)), I, I)), s)]
                if src == "{element.get_symbol(): 0 for element in elements}":
                    k = fresh("k", Key)
                    i = fresh("i", I)
                    dom = z3.Lambda([k], z3.Exists([i], z3.And(0 <= i, i < els.hi, sym(z3.Select(els.arr, i)) == k)))
                    return [(s.alloc(DictV(dom, z3.K(Key, z3.IntVal(0)), Key, I)), s)]
                return orig_dictcomp(e, s)
            ex.ev_DictComp = dictcomp
            orig_store = ex.store

            def store(t, v, s, node):
                if isinstance(t, ast.Subscript):
                    # identifiers[element] = i : key is a Node
                    res = ex.ev_list([t.value, t.slice], s)
                    base, idx = res[0][0]
                    if isinstance(idx, Node):
                        c = s.deref(base)
                        if isinstance(c, DictV):
                            s.heap[base.addr] = c.store(idx.id, ex.lift(v))
                            return None
                        from pyvc.values import PyDict
                        if isinstance(c, PyDict) and not c.items:
                            s.heap[base.addr] = DictV.empty(I, I).store(idx.id, ex.lift(v))
                            return None
                return orig_store(t, v, s, node)
            ex.store = store

            def inv(ex_, s, entry, ghost):
                ids = s.deref(s.loc["identifiers"])
                cnt = s.deref(s.loc["counts"])
                i = ghost["i"]
                m, ss = fresh("m", I), fresh("s", Key)
                from pyvc.values import PyDict
                if isinstance(ids, PyDict):
                    return z3.BoolVal(True) if True else None
                return z3.And(z3.ForAll([ss], z3.Implies(cnt.has(ss), cnt.get(ss) == pcnt(i, ss))),
                              z3.ForAll([m], z3.Implies(z3.And(0 <= m, m < els.hi), cnt.has(sym(z3.Select(els.arr, m))))),
                              z3.ForAll([m], z3.Implies(z3.And(0 <= m, m < i), z3.And(ids.has(z3.Select(els.arr, m)), ids.get(z3.Select(els.arr, m)) == pcnt(m + 1, sym(z3.Select(els.arr, m)))))))

            def prep(ex_, s):
                from pyvc.values import PyDict
                if isinstance(s.deref(s.loc["identifiers"]), PyDict):
                    s.heap[s.loc["identifiers"].addr] = DictV.empty(I, I)
            ex.loops[(qual, "element in elements")] = LoopSpec(invariant=inv, modifies=["identifiers", "counts", "element", "symbol", "i"], prepare=prep)
            fn = find_def(MOD, qual)
            node = ast.parse("f()").body[0].value
            node.lineno = fn.lineno
            outs = ex.call_funcv(FuncV(fn, MOD, qualname=qual, bound_self=me), [z3.BoolVal(running)], {}, None, st, node)
            n_ok = 0
            for val, s1 in outs:
                if isinstance(val, Raised):
                    sess.check("exc-free", s1.pc, z3.BoolVal(False), val.exc.line, label=f"[running={running}]{val.exc.name}")
                    continue
                n_ok += 1
                ids = s1.deref(val)
                m = fresh("m", I)
                if running:
                    sess.check("post", s1.pc, z3.ForAll([m], z3.Implies(z3.And(0 <= m, m < els.hi), z3.And(ids.has(z3.Select(els.arr, m)), ids.get(z3.Select(els.arr, m)) == m))), 0,
                               label="[running]the j-th element gets identifier j (bijection onto 0..N-1)")
                else:
                    sess.check("post", s1.pc, z3.ForAll([m], z3.Implies(z3.And(0 <= m, m < els.hi), z3.And(ids.has(z3.Select(els.arr, m)), ids.get(z3.Select(els.arr, m)) == pcnt(m + 1, sym(z3.Select(els.arr, m)))))), 0,
                               label="[per-type]the j-th element gets 1 + number of earlier elements with its symbol")
                    # pcnt >= 0 by induction on j (base and step discharged separately, then used as a lemma)
                    jj, ss = fresh("j", I), fresh("s", Key)
                    base_ax = [c for c in st.pc[-2:]]
                    sess.check("lemma", base_ax, z3.ForAll([ss], pcnt(0, ss) >= 0), 0, label="[per-type]induction base: prefix_count(0, s) >= 0")
                    sess.check("lemma", base_ax + [0 <= jj, jj < els.hi, pcnt(jj, ss) >= 0], pcnt(jj + 1, ss) >= 0, 0, label="[per-type]induction step: prefix_count(j, s) >= 0 => prefix_count(j+1, s) >= 0")
                    lemma = z3.ForAll([jj, ss], z3.Implies(z3.And(0 <= jj, jj <= els.hi), pcnt(jj, ss) >= 0))
                    m0 = fresh("m0", I)
                    sm = sym(z3.Select(els.arr, m0))
                    sess.check("lemma", base_ax + [0 <= m0, m0 < els.hi, pcnt(m0, sm) >= 0], pcnt(m0 + 1, sm) >= 1, 0, label="[per-type]identifiers start at 1 (every identifier >= 1)")
                sess.check("canary", s1.pc, z3.BoolVal(False), 0, label="ensures-False", expect_refuted=True)
            sess.check("cover", [], z3.BoolVal(n_ok >= 1), 0, label=f"[running={running}]normal-exit")
    return (f"{MOD}:{qual}", MOD, qual, run)


def targets():
    # shared contracts: the fit-parameter table looks parameters up by '<symbol>_<running id>' (C12), labels are validated on the
    # text that is stored (C14) -- both are what "the same name denotes the same element" rests on outside the connection classes
    from . import c12, c14
    return [target_elements_recursive(), target_identifiers(), c12.target_extract_parameters(), c14.target_set_label()]


def target_names():
    """Element.get_name, Connection.get_element_name, Circuit.get_element_name: the display name is '<symbol>_<label>' for a
    labelled element and '<symbol>_<per-type identifier>' otherwise, the identifier taken from the map that was passed or from
    generate_element_identifiers(running=False) of this very connection; an element that is not part of the connection, or not in
    the map, is refused (ValueError); the circuit delegates to its top-level connection with both arguments."""
    import z3 as _z3
    from pyvc import overload as O

    def run(sess):
        ns = {}
        O.load("circuit/base", ["Element.get_name"], ns)
        for label, want in (("", "Sy"), ("ct", "Sy_ct"), ("a_b", "Sy_a_b")):
            me = type("E", (), {"_label": label, "get_symbol": lambda s: "Sy"})()
            sess.check("post", [], _z3.BoolVal(ns["get_name"](me) == want), 0, label=f"Element.get_name[label={label!r}] == {want!r}")
        # any non-empty label: the name is '<symbol>_<label>' whatever the label looks like -- every question the code asks about
        # the label's content (startswith, in, isdigit, ...) is answered both ways and must not change the name, otherwise two
        # different labels can give one name (names are unique only because labels are and the prefix is fixed)
        asked = []

        class Lab(str):
            answer = True

            def _q(self, *a, **k):
                asked.append(1)
                return Lab.answer
            startswith = endswith = __contains__ = isdigit = isalpha = isalnum = isupper = islower = isidentifier = isnumeric = isdecimal = _q

            def find(self, *a):
                asked.append(1)
                return 0 if Lab.answer else -1
            index = rfind = find
        for ans in (True, False):
            Lab.answer = ans
            lab = Lab("\u27e6label\u27e7")
            me = type("E", (), {"_label": lab, "get_symbol": lambda s: "Sy"})()
            try:
                got = ns["get_name"](me)
            except Exception as ex:       # noqa: BLE001
                got = f"raised {type(ex).__name__}"
            ob = sess.check("post", [], _z3.BoolVal(got == "Sy_\u27e6label\u27e7"), 0, label=f"Element.get_name[any non-empty label, content questions answered {ans}] == '<symbol>_<label>'")
            if got != "Sy_\u27e6label\u27e7":
                ob.detail = f"got {got!r}"
        ns = {}
        O.load("circuit/base", ["Connection.get_element_name"], ns)
        fn = ns["get_element_name"]

        class El:
            def __init__(self, symbol, label):
                self.symbol, self.label = symbol, label

            def get_name(self):
                return self.symbol if self.label == "" else f"{self.symbol}_{self.label}"

            def get_symbol(self):
                return self.symbol
        a, b, stranger = El("R", ""), El("R", "x_1"), El("C", "")
        asked = []

        class Con:
            def __contains__(self, e):
                return e in (a, b)

            def generate_element_identifiers(self, running):
                asked.append(running)
                return {a: 2, b: 1}
        con = Con()
        sess.check("post", [], _z3.BoolVal(fn(con, a) == "R_2" and asked == [False]), 0, label="unlabelled element, no map given: '<symbol>_<id>' from generate_element_identifiers(running=False)")
        asked.clear()
        sess.check("post", [], _z3.BoolVal(fn(con, a, identifiers={a: 7, b: 8}) == "R_7" and asked == []), 0, label="unlabelled element, map given: the id comes from the map that was passed")
        sess.check("post", [], _z3.BoolVal(fn(con, b, identifiers={a: 7, b: 8}) == "R_x_1" and fn(con, b) == "R_x_1"), 0, label="labelled element: '<symbol>_<label>' whatever the identifiers")
        for who, kw, why in ((stranger, {}, "not contained"), (a, {"identifiers": {b: 1}}, "missing from the map")):
            refused = False
            try:
                fn(con, who, **kw)
            except ValueError:
                refused = True
            sess.check("post", [], _z3.BoolVal(refused), 0, label=f"an element {why} is refused with ValueError")
        ns = {}
        O.load("circuit/circuit", ["Circuit.get_element_name"], ns)
        # Circuit.get_element_name: behavioural contract -- the name of an element of the circuit is the name its top-level
        # connection gives it (label, or per-type identifier from the map that was passed / from generate_element_identifiers(
        # running=False)); whether the circuit delegates or spells the steps out is its own business.  The circuit's surroundings
        # are modelled by their contracts: membership and identifiers descend into container elements, get_elements(recursive=True)
        # does NOT (traversal contract).  `a` is nested inside a container element, `b` (labelled) sits directly in a connection.
        generated = []

        class Top:
            def __contains__(self, e):
                return e in (a, b)

            def generate_element_identifiers(self, running=False):
                generated.append(running)
                return {a: 2, b: 1}

            def get_element_name(self, element=None, identifiers=None):
                return fn(self, element, identifiers=identifiers)      # the real Connection.get_element_name (under contract above)

            def get_elements(self, recursive=True):
                return [b]
        top = Top()

        class Cir:
            _elements = top

            def get_elements(self, recursive=True):
                return [b]

            def get_connections(self, recursive=True):
                return [top]

            def generate_element_identifiers(self, running=False):
                return top.generate_element_identifiers(running=running)

            def __contains__(self, e):
                return e in top
        ns.update(Element=El, Connection=Top, Series=Top, isinstance=isinstance)
        for who, where, want_given, want_omitted in ((a, "nested inside a container element", "R_3", "R_2"), (b, "directly in a connection, labelled", "R_x_1", "R_x_1")):
            for ids, want in (({a: 3, b: 4}, want_given), (None, want_omitted)):
                generated.clear()
                try:
                    r = ns["get_element_name"](Cir(), who, ids)
                except (ValueError, TypeError, KeyError) as e:
                    r = f"{type(e).__name__}: {e}"
                sess.check("post", [], _z3.BoolVal(r == want and all(g is False for g in generated)), 0,
                           label=f"Circuit.get_element_name == the name its top-level connection gives [element {where}, identifiers {'given' if ids else 'omitted'}]: {want}")
        refused = False
        try:
            ns["get_element_name"](Cir(), stranger, None)
        except ValueError:
            refused = True
        sess.check("post", [], _z3.BoolVal(refused), 0, label="Circuit.get_element_name refuses an element that is not part of the circuit (ValueError)")
    return ("circuit/base:Element.get_name / Connection.get_element_name / Circuit.get_element_name", "circuit/base", "Connection.get_element_name", run)


_targets_c16_core = targets


def targets():      # noqa: F811
    from . import c12
    # by-name (not positional) transfer of fitted values between lmfit and the circuit: a value reported under a name is that parameter's
    return _targets_c16_core() + [target_names(), c12.target_fit_identifiers(), c12.target_from_lmfit(), c12.target_to_lmfit()]


_targets_before_observers = targets


def targets():      # noqa: F811
    from . import purity
    return _targets_before_observers() + [purity.target_observers(["circuit/base", "circuit/series", "circuit/parallel", "circuit/circuit", "circuit/circuit_builder", "circuit/transmission_line_model"], "circuit observers keep no state")]


_targets_before_traversal = targets


def targets():      # noqa: F811
    """+ completeness of the traversals for every connection tree (pyvc.hoare): every element is listed exactly once"""
    from . import traversal, c12
    # shared with C12: the parameter table uses the names and identifiers consistently -- every cell of a row belongs to the element
    # and the parameter the row is labelled with
    return _targets_before_traversal() + traversal.targets() + [c12.target_parameters_table()]


_targets_before_circuit_glue = targets


def target_circuit_glue():
    """`Circuit.generate_element_identifiers`, `Circuit.get_elements`, `Circuit.get_connections`: the circuit answers with what its
    top-level connection answers (same `running` / `recursive` argument) -- the numbering a caller sees is the connection's, for both
    modes; the non-recursive element list holds the top-level connection's own elements only, in order; the connection list starts
    with the top-level connection itself.  Real methods on recording stand-ins."""
    import z3 as _z3
    from pyvc import overload as O

    def run(sess):
        class Element:
            def __init__(self, n):
                self.n = n

        class Conn:
            def __init__(self, tag):
                self.tag, self.asked = tag, []

            def generate_element_identifiers(self, running):
                self.asked.append(("ids", running))
                return {"ids for running": running}

            def get_elements(self, recursive=True):
                self.asked.append(("elements", recursive))
                return ["elements", recursive]

            def get_connections(self, recursive=True):
                self.asked.append(("connections", recursive))
                return [f"nested of {self.tag}"]
        e1, e2, inner = Element(1), Element(2), Conn("inner")

        class Top(Conn):
            def __iter__(self):
                return iter([e1, inner, e2])
        ns = {"Element": Element, "Connection": Conn, "isinstance": isinstance}
        O.load("circuit/circuit", ["Circuit.generate_element_identifiers", "Circuit.get_elements", "Circuit.get_connections"], ns)
        for running in (False, True):
            top = Top("top")
            me = type("C", (), {"_elements": top})()
            out = ns["generate_element_identifiers"](me, running=running)
            sess.check("post", [], _z3.BoolVal(out == {"ids for running": running} and top.asked == [("ids", running)]), 0, label=f"Circuit.generate_element_identifiers(running={running}) is the top-level connection's map for the same mode")
        top = Top("top")
        me = type("C", (), {"_elements": top})()
        sess.check("post", [], _z3.BoolVal(ns["get_elements"](me, recursive=True) == ["elements", True] and top.asked == [("elements", True)]), 0, label="Circuit.get_elements(recursive=True) is the top-level connection's recursive list")
        got = ns["get_elements"](me, recursive=False)
        sess.check("post", [], _z3.BoolVal(isinstance(got, list) and len(got) == 2 and got[0] is e1 and got[1] is e2), 0, label="Circuit.get_elements(recursive=False) holds the top-level connection's own elements only, in order")
        top = Top("top")
        me = type("C", (), {"_elements": top})()
        got = ns["get_connections"](me, recursive=False)
        sess.check("post", [], _z3.BoolVal(isinstance(got, list) and len(got) == 1 and got[0] is top), 0, label="Circuit.get_connections(recursive=False) is [the top-level connection]")
        got = ns["get_connections"](me, recursive=True)
        sess.check("post", [], _z3.BoolVal(isinstance(got, list) and len(got) >= 1 and got[0] is top), 0, label="Circuit.get_connections(recursive=True) starts with the top-level connection itself")
    return ("circuit/circuit:Circuit.generate_element_identifiers / get_elements / get_connections", "circuit/circuit", "Circuit.generate_element_identifiers", run)


def targets():      # noqa: F811
    return _targets_before_circuit_glue() + [target_circuit_glue()]
