"""Tuple protocols between a producer of work items and the worker function that unpacks them (the multi-process branches:
`pool.imap(worker, args)`, `map(worker, args)`).  The worker takes ONE tuple and unpacks it by position; the producer builds
the tuples somewhere else.  Nothing but position ties the two together, so a reordered or dropped item type-checks and runs.

Decided on the real ASTs (re-read every run): for every call `map/imap/imap_unordered/_map(worker, X)` in the analysis
modules where `worker` is a module-level function whose body starts by unpacking its single parameter into names n1..nk,
every tuple that can reach X (generator / list comprehension element, list literal items, `X.append((...))`) has exactly k
items, and every item that is a plain variable named like one of the worker's names sits at that name's position."""
from __future__ import annotations

import ast
from typing import Dict, List, Optional, Tuple

import z3

from pyvc import core
from pyvc.core import Session

MODULES = ["analysis/fitting", "analysis/drt/bht", "analysis/drt/tr_rbf", "analysis/zhit/offset", "analysis/zhit/reconstruction", "analysis/kramers_kronig/exploratory"]
MAPPERS = ("map", "_map", "imap", "imap_unordered")


def worker_names(fn: ast.FunctionDef) -> Optional[List[Optional[str]]]:
    """names the worker unpacks its single tuple parameter into (None for nested patterns), or None if it does not do that"""
    if len(fn.args.args) != 1:
        return None
    p = fn.args.args[0].arg
    real = [s for s in core.strip_docstring(fn.body) if not isinstance(s, (ast.Import, ast.ImportFrom)) and not (isinstance(s, ast.AnnAssign) and s.value is None)]
    for s in real[:2]:
        if isinstance(s, (ast.Assign, ast.AnnAssign)) and isinstance(getattr(s, "value", None), ast.Name) and s.value.id == p:
            t = s.targets[0] if isinstance(s, ast.Assign) else s.target
            if isinstance(t, (ast.Tuple, ast.List)):
                return [e.id if isinstance(e, ast.Name) else None for e in t.elts]
    return None


def tuples_reaching(fn: ast.FunctionDef, x: ast.AST, depth: int = 0) -> Optional[List[ast.Tuple]]:
    """tuple literals that make up the iterable x inside fn; None if x cannot be resolved"""
    if isinstance(x, (ast.GeneratorExp, ast.ListComp)):
        return [x.elt] if isinstance(x.elt, ast.Tuple) else None
    if isinstance(x, (ast.List, ast.Tuple)) and all(isinstance(e, ast.Tuple) for e in x.elts) and x.elts:
        return list(x.elts)
    if isinstance(x, ast.Name) and depth < 3:
        out: List[ast.Tuple] = []
        found = False
        for n in ast.walk(fn):
            if isinstance(n, (ast.Assign, ast.AnnAssign)) and getattr(n, "value", None) is not None:
                targets = n.targets if isinstance(n, ast.Assign) else [n.target]
                if any(isinstance(t, ast.Name) and t.id == x.id for t in targets):
                    if isinstance(n.value, (ast.List,)) and not n.value.elts:
                        found = True
                        continue
                    r = tuples_reaching(fn, n.value, depth + 1)
                    if r is None:
                        return None
                    out += r
                    found = True
            elif isinstance(n, ast.Call) and isinstance(n.func, ast.Attribute) and n.func.attr == "append" and isinstance(n.func.value, ast.Name) and n.func.value.id == x.id:
                if len(n.args) == 1 and isinstance(n.args[0], ast.Tuple):
                    out.append(n.args[0])
                    found = True
                else:
                    return None
        return out if found and out else None
    return None


def resolve(module: str, name: str, depth: int = 0) -> Optional[ast.FunctionDef]:
    """module-level function `name` as seen from `module`: defined there, or imported with `from .x import name`"""
    try:
        tree = core.module_ast(module)
    except (FileNotFoundError, OSError):
        return None
    for n in tree.body:
        if isinstance(n, ast.FunctionDef) and n.name == name:
            return n
    if depth >= 2:
        return None
    for n in tree.body:
        if isinstance(n, ast.ImportFrom) and n.level >= 1 and any((al.asname or al.name) == name for al in n.names):
            base = module.split("/")[:-1]
            base = base[:len(base) - (n.level - 1)] if n.level > 1 else base
            target = "/".join(base + (n.module.split(".") if n.module else []))
            orig = next(al.name for al in n.names if (al.asname or al.name) == name)
            for cand in (target, target + "/__init__"):
                got = resolve(cand, orig, depth + 1)
                if got is not None:
                    return got
    return None


def target_tuple_protocols():
    def run(sess: Session):
        n_sites = 0
        for module in MODULES:
            try:
                tree = core.module_ast(module)
            except (FileNotFoundError, OSError):
                continue
            defs = {n.name: n for n in tree.body if isinstance(n, ast.FunctionDef)}
            for fn in defs.values():
                for call in [c for c in ast.walk(fn) if isinstance(c, ast.Call)]:
                    name = call.func.id if isinstance(call.func, ast.Name) else (call.func.attr if isinstance(call.func, ast.Attribute) else "")
                    if name not in MAPPERS or len(call.args) < 2 or not isinstance(call.args[0], ast.Name):
                        continue
                    worker = resolve(module, call.args[0].id)
                    if worker is None:
                        continue
                    names = worker_names(worker)
                    if names is None:
                        continue
                    n_sites += 1
                    tag = f"{module}:{fn.name} -> {worker.name}"
                    tuples = tuples_reaching(fn, call.args[1])
                    if tuples is None:
                        sess.unsupported(f"{tag}: the work items handed to {name}() cannot be traced to tuple literals", call.lineno)
                        continue
                    ok_len = all(len(t.elts) == len(names) for t in tuples)
                    sess.check("call-pre", [], z3.BoolVal(ok_len), call.lineno, label=f"{tag}: every work item has the {len(names)} fields the worker unpacks")
                    misplaced = []
                    for t in tuples:
                        for i, e in enumerate(t.elts):
                            if isinstance(e, ast.Name) and e.id in names and (i >= len(names) or names[i] != e.id):
                                misplaced.append(f"{e.id} at position {i} (worker expects it at {names.index(e.id)})")
                    ob = sess.check("call-pre", [], z3.BoolVal(not misplaced), call.lineno, label=f"{tag}: a variable named like a field of the worker is passed at that field's position")
                    if misplaced:
                        ob.detail = "; ".join(misplaced[:4])
        sess.check("cover", [], z3.BoolVal(n_sites >= 8), 0, label=f"producer/worker sites found: {n_sites}")
    return ("analysis/fitting:work-item tuples match what the workers unpack", "analysis/fitting", "_fit_process", run)
