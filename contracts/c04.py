"""C04 proof layer: parse_cdc is total.  Part 1: Tokenizer (every exit of main_loop consumes >= 1 character or raises an
allowed class; no TypeError/IndexError/KeyError at any primitive; scanning loops terminate).  Part 2: Parser (contracts/parser.py)."""
from __future__ import annotations

import ast

import z3

from pyvc.core import Session, find_def
from pyvc.symex import Raised, State, Unsupported
from pyvc.values import FuncV, ListV, fresh
from . import tokenizer as T


_REPRO = '''
import pyimpspec
from pyimpspec.exceptions import ParsingError, TokenizingError
tail = %r
for prefix in ("", "R", "R{", "R{R=", "R{R=1,", "R{:", "[R", "(RC"):
    try:
        pyimpspec.parse_cdc(prefix + tail)
    except (ParsingError, TokenizingError, ValueError):
        pass
    except Exception as ex:
        raise SystemExit(f"parse_cdc({prefix + tail!r}) raised {type(ex).__name__}: {ex}")
print("only parsing errors")
'''


def _call(ex, qual, st, me, args=()):
    fn = find_def(T.MOD, qual)
    node = ast.parse("f()").body[0].value
    node.lineno = fn.lineno
    return ex.call_funcv(FuncV(fn, T.MOD, qualname=qual, bound_self=me), list(args), {}, None, st, node)


def target_tokenizer_main_loop():
    qual = "Tokenizer.main_loop"

    def run(sess: Session):
        ex = T.make_executor(sess)
        st = State()
        me, chars, toks = T.new_tokenizer(st, nonempty=True)
        idx0 = st.deref(me).fields["_index"]
        outs = _call(ex, qual, st, me)
        n_norm = n_exc = 0
        for val, s1 in outs:
            if isinstance(val, Raised):
                n_exc += 1
                sess.check("exc-class", s1.pc, z3.BoolVal(val.exc.name in T.ALLOWED_EXC), val.exc.line, label=val.exc.name)
                continue
            n_norm += 1
            c1: ListV = s1.deref(s1.deref(me).fields["_chars"])
            sess.check("decreases", s1.pc, z3.And(c1.lo > chars.lo, c1.lo <= c1.hi, c1.hi == chars.hi), 0, label="|_chars|-strictly-decreases")
            sess.check("post", s1.pc, z3.BoolVal(c1.arr.eq(chars.arr)), 0, label="_chars-is-a-suffix-of-the-input")
            sess.check("post", s1.pc, s1.deref(me).fields["_index"] - c1.lo == idx0 - chars.lo, 0, label="_index-counts-consumed-characters")
            t1: ListV = s1.deref(s1.deref(me).fields["_tokens"])
            sess.check("post", s1.pc, z3.And(t1.lo == toks.lo, t1.hi >= toks.hi, t1.hi <= toks.hi + 1), 0, label="at-most-one-token-appended")
        sess.check("cover", [], z3.BoolVal(n_norm >= 5 and n_exc >= 1), 0, label=f"paths(normal={n_norm},exceptional={n_exc})")
        # counter-models -> candidate inputs (remaining characters of the initial window), replayed through parse_cdc
        for ob in sess.obligations:
            m = getattr(ob, "_z3model", None)
            if ob.status == "refuted" and m is not None and not ob.expect_refuted:
                try:
                    lo = m.eval(chars.lo, model_completion=True).as_long()
                    hi = m.eval(chars.hi, model_completion=True).as_long()
                    text = "".join(chr(m.eval(z3.Select(chars.arr, z3.IntVal(i)), model_completion=True).as_long()) for i in range(lo, min(hi, lo + 40)))
                except Exception:
                    continue
                ob.replay = {"input": text, "repro": _REPRO % (text,)}
        for val, s1 in outs:
            if not isinstance(val, Raised):
                sess.check("canary", s1.pc, z3.BoolVal(False), 0, label="ensures-False", expect_refuted=True)
                break
    return (f"{T.MOD}:{qual}", T.MOD, qual, run)


def target_tokenizer_process():
    """process(): the outer loop `while self._chars: self.main_loop()` with main_loop by its contract above: terminates, returns _tokens"""
    qual = "Tokenizer.process"

    def run(sess: Session):
        from pyvc.symex import Contract, LoopSpec
        from pyvc.values import NONE, Char, StrV
        ex = T.make_executor(sess)
        del ex.inline["main_loop"]

        def main_loop_contract(ex_, st, recv, args, kwargs, line):
            o = st.deref(recv)
            c: ListV = st.deref(o.fields["_chars"])
            ex_.oblige("call-pre", st, c.length() > 0, line, "main_loop:requires-nonempty-_chars")
            outs = []
            sr = st.clone()
            outs.append((Raised(T.Exc("UnexpectedCharacter|ValueError", line)), sr))
            nlo = fresh("lo", T.I)
            st.heap[o.fields["_chars"].addr] = ListV(c.arr, nlo, c.hi, c.wrap)
            st.pc += [nlo > c.lo, nlo <= c.hi]
            t: ListV = st.deref(o.fields["_tokens"])
            st.heap[o.fields["_tokens"].addr] = ListV(fresh("tok", t.arr.sort()), t.lo, fresh("thi", T.I), t.wrap)
            o.fields["_index"] = fresh("idx", T.I)
            o.fields["_start"] = fresh("start", T.I)
            o.fields["_end"] = fresh("end", T.I)
            o.fields["_value"] = StrV(note="value")
            outs.append((NONE, st))
            return outs
        ex.contracts["main_loop"] = Contract("main_loop", main_loop_contract)
        ex.ev_ListComp = lambda e, st: [(st.alloc(ListV(fresh("orig", z3.ArraySort(T.I, T.I)), z3.IntVal(0), st.ghost["len"], wrap=Char)), st)]

        def inv(ex_, st, entry, ghost):
            c: ListV = st.deref(st.deref(st.loc["self"]).fields["_chars"])
            return z3.And(c.lo <= c.hi)
        ex.loops[(qual, "self._chars")] = LoopSpec(invariant=inv, variant=T.scan_variant,
                                                   modifies=["self._chars", "self._tokens", "self._index", "self._start", "self._end", "self._value"])
        st = State()
        me, chars, toks = T.new_tokenizer(st, nonempty=False)
        n = fresh("len", T.I)
        st.pc.append(n >= 0)
        st.ghost["len"] = n
        outs = _call(ex, qual, st, me, args=[StrV(note="input")])
        nn = 0
        for val, s1 in outs:
            if isinstance(val, Raised):
                sess.check("exc-class", s1.pc, z3.BoolVal(all(x in T.ALLOWED_EXC for x in val.exc.name.split("|"))), val.exc.line, label=val.exc.name)
                continue
            nn += 1
            c1: ListV = s1.deref(s1.deref(me).fields["_chars"])
            sess.check("post", s1.pc, c1.length() == 0, 0, label="whole-input-consumed")
            sess.check("post", s1.pc, z3.BoolVal(val == s1.deref(me).fields["_tokens"]), 0, label="returns-_tokens")
        sess.check("cover", [], z3.BoolVal(nn >= 1), 0, label="normal-exit")
    return (f"{T.MOD}:{qual}", T.MOD, qual, run)


def targets():
    return [target_tokenizer_main_loop(), target_tokenizer_process()]
