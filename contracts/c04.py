"""C04 proof layer: parse_cdc is total.  Part 1: Tokenizer (every exit of main_loop consumes >= 1 character or raises an
allowed class; no TypeError/IndexError/KeyError at any primitive; scanning loops terminate).  Part 2: Parser (contracts/parser.py)."""
from __future__ import annotations

import ast

import z3

from pyvc.core import Session, find_def
from pyvc.symex import Raised, State, Unsupported
from pyvc.values import FuncV, ListV, fresh
from . import tokenizer as T


_REPRO = '''
import pyimpspec
from pyimpspec.exceptions import ParsingError, TokenizingError
tail = %r
for prefix in ("", "R", "R{", "R{R=", "R{R=1,", "R{:", "[R", "(RC"):
    try:
        pyimpspec.parse_cdc(prefix + tail)
    except (ParsingError, TokenizingError, ValueError):
        pass
    except Exception as ex:
        raise SystemExit(f"parse_cdc({prefix + tail!r}) raised {type(ex).__name__}: {ex}")
print("only parsing errors")
'''


def _call(ex, qual, st, me, args=()):
    fn = find_def(T.MOD, qual)
    node = ast.parse("f()").body[0].value
    node.lineno = fn.lineno
    return ex.call_funcv(FuncV(fn, T.MOD, qualname=qual, bound_self=me), list(args), {}, None, st, node)


def target_tokenizer_main_loop():
    qual = "Tokenizer.main_loop"

    def run(sess: Session):
        ex = T.make_executor(sess)
        st = State()
        me, chars, toks = T.new_tokenizer(st, nonempty=True)
        idx0 = st.deref(me).fields["_index"]
        outs = _call(ex, qual, st, me)
        n_norm = n_exc = 0
        for val, s1 in outs:
            if isinstance(val, Raised):
                n_exc += 1
                sess.check("exc-class", s1.pc, z3.BoolVal(val.exc.name in T.ALLOWED_EXC), val.exc.line, label=val.exc.name)
                continue
            n_norm += 1
            c1: ListV = s1.deref(s1.deref(me).fields["_chars"])
            sess.check("decreases", s1.pc, z3.And(c1.lo > chars.lo, c1.lo <= c1.hi, c1.hi == chars.hi), 0, label="|_chars|-strictly-decreases")
            sess.check("post", s1.pc, z3.BoolVal(c1.arr.eq(chars.arr)), 0, label="_chars-is-a-suffix-of-the-input")
            sess.check("post", s1.pc, s1.deref(me).fields["_index"] - c1.lo == idx0 - chars.lo, 0, label="_index-counts-consumed-characters")
            t1: ListV = s1.deref(s1.deref(me).fields["_tokens"])
            sess.check("post", s1.pc, z3.And(t1.lo == toks.lo, t1.hi >= toks.hi, t1.hi <= toks.hi + 1), 0, label="at-most-one-token-appended")
        sess.check("cover", [], z3.BoolVal(n_norm >= 5 and n_exc >= 1), 0, label=f"paths(normal={n_norm},exceptional={n_exc})")
        # counter-models -> candidate inputs (remaining characters of the initial window), replayed through parse_cdc
        for ob in sess.obligations:
            m = getattr(ob, "_z3model", None)
            if ob.status == "refuted" and m is not None and not ob.expect_refuted:
                try:
                    lo = m.eval(chars.lo, model_completion=True).as_long()
                    hi = m.eval(chars.hi, model_completion=True).as_long()
                    text = "".join(chr(m.eval(z3.Select(chars.arr, z3.IntVal(i)), model_completion=True).as_long()) for i in range(lo, min(hi, lo + 40)))
                except Exception:
                    continue
                ob.replay = {"input": text, "repro": _REPRO % (text,)}
        for val, s1 in outs:
            if not isinstance(val, Raised):
                sess.check("canary", s1.pc, z3.BoolVal(False), 0, label="ensures-False", expect_refuted=True)
                break
    return (f"{T.MOD}:{qual}", T.MOD, qual, run)


def target_tokenizer_process():
    """process(): the outer loop `while self._chars: self.main_loop()` with main_loop by its contract above: terminates, returns _tokens"""
    qual = "Tokenizer.process"

    def run(sess: Session):
        from pyvc.symex import Contract, LoopSpec
        from pyvc.values import NONE, Char, StrV
        ex = T.make_executor(sess)
        del ex.inline["main_loop"]

        def main_loop_contract(ex_, st, recv, args, kwargs, line):
            o = st.deref(recv)
            c: ListV = st.deref(o.fields["_chars"])
            ex_.oblige("call-pre", st, c.length() > 0, line, "main_loop:requires-nonempty-_chars")
            outs = []
            sr = st.clone()
            outs.append((Raised(T.Exc("UnexpectedCharacter|ValueError", line)), sr))
            nlo = fresh("lo", T.I)
            st.heap[o.fields["_chars"].addr] = ListV(c.arr, nlo, c.hi, c.wrap)
            st.pc += [nlo > c.lo, nlo <= c.hi]
            t: ListV = st.deref(o.fields["_tokens"])
            st.heap[o.fields["_tokens"].addr] = ListV(fresh("tok", t.arr.sort()), t.lo, fresh("thi", T.I), t.wrap)
            o.fields["_index"] = fresh("idx", T.I)
            o.fields["_start"] = fresh("start", T.I)
            o.fields["_end"] = fresh("end", T.I)
            o.fields["_value"] = StrV(note="value")
            outs.append((NONE, st))
            return outs
        ex.contracts["main_loop"] = Contract("main_loop", main_loop_contract)
        ex.ev_ListComp = lambda e, st: [(st.alloc(ListV(fresh("orig", z3.ArraySort(T.I, T.I)), z3.IntVal(0), st.ghost["len"], wrap=Char)), st)]

        def inv(ex_, st, entry, ghost):
            c: ListV = st.deref(st.deref(st.loc["self"]).fields["_chars"])
            return z3.And(c.lo <= c.hi)
        ex.loops[(qual, "self._chars")] = LoopSpec(invariant=inv, variant=T.scan_variant,
                                                   modifies=["self._chars", "self._tokens", "self._index", "self._start", "self._end", "self._value"])
        st = State()
        me, chars, toks = T.new_tokenizer(st, nonempty=False)
        n = fresh("len", T.I)
        st.pc.append(n >= 0)
        st.ghost["len"] = n
        outs = _call(ex, qual, st, me, args=[StrV(note="input")])
        nn = 0
        for val, s1 in outs:
            if isinstance(val, Raised):
                sess.check("exc-class", s1.pc, z3.BoolVal(all(x in T.ALLOWED_EXC for x in val.exc.name.split("|"))), val.exc.line, label=val.exc.name)
                continue
            nn += 1
            c1: ListV = s1.deref(s1.deref(me).fields["_chars"])
            sess.check("post", s1.pc, c1.length() == 0, 0, label="whole-input-consumed")
            sess.check("post", s1.pc, z3.BoolVal(val == s1.deref(me).fields["_tokens"]), 0, label="returns-_tokens")
        sess.check("cover", [], z3.BoolVal(nn >= 1), 0, label="normal-exit")
    return (f"{T.MOD}:{qual}", T.MOD, qual, run)


# ------------------------------------------------------------------------------------------------ parser
from . import parser as PR          # noqa: E402
from pyvc.symex import Contract, LoopSpec   # noqa: E402
from pyvc.values import NONE, ClassV, PyList     # noqa: E402


def _pcall(ex, qual, st, me, args=(), kwargs=None):
    fn = find_def(PR.MOD, qual)
    node = ast.parse("f()").body[0].value
    node.lineno = fn.lineno
    return ex.call_funcv(FuncV(fn, PR.MOD, qualname=qual, bound_self=me), list(args), kwargs or {}, None, st, node)


def _parser_executor(sess, contracts=("main_loop", "connection", "element", "subcircuit")):
    from pyvc.symex import Executor
    ex = Executor(sess, PR.MOD, "Parser")
    PR.install_common(ex)
    for n in contracts:
        if n == "subcircuit":
            ex.contracts[n] = Contract(n, PR.subcircuit_contract)
        else:
            ex.contracts[n] = Contract(n, PR.push_node_contract(n))
    ex.contracts["new:Series"] = Contract("new:Series", PR.node_ctor("Series"))
    ex.contracts["new:Parallel"] = Contract("new:Parallel", PR.node_ctor("Parallel"))
    return ex


def _check_exits(sess, outs, me, T0, S0, post, label):
    n_norm = n_exc = 0
    for val, s1 in outs:
        if isinstance(val, Raised):
            n_exc += 1
            ok = all(x in PR.PARSING_ERRORS for x in val.exc.name.split("|"))
            sess.check("exc-class", s1.pc, z3.BoolVal(ok), val.exc.line, label=f"{label}:{val.exc.name}")
            continue
        n_norm += 1
        post(val, s1)
    sess.check("cover", [], z3.BoolVal(n_norm >= 1), 0, label=f"{label}:normal-exit-reachable(normal={n_norm},exceptional={n_exc})")
    for val, s1 in outs:
        if not isinstance(val, Raised):
            sess.check("canary", s1.pc, z3.BoolVal(False), 0, label="ensures-False", expect_refuted=True)
            break


def target_parser_main_loop():
    qual = "Parser.main_loop"

    def run(sess: Session):
        ex = _parser_executor(sess, contracts=("connection", "element"))
        st = State()
        me, T0, S0 = PR.new_parser(st)
        outs = _pcall(ex, qual, st, me)

        def post(val, s1):
            T1, S1 = PR.cur(s1, me, "_tokens"), PR.cur(s1, me, "_stack")
            sess.check("decreases", s1.pc, PR.progress_post(T1, T0), 0, label="tokens-strictly-consumed")
            sess.check("post", s1.pc, PR.pushes_one_node(S1, S0), 0, label="stack = [node] + old stack")
            sess.check("post", s1.pc, PR.stack_inv(S1), 0, label="StackInv")
        _check_exits(sess, outs, me, T0, S0, post, "main_loop")
    return (f"{PR.MOD}:{qual}", PR.MOD, qual, run)


def target_parser_connection(opening: str, closing: str, cls: str):
    qual = "Parser.connection"

    def run(sess: Session):
        ex = _parser_executor(sess, contracts=("main_loop",))
        st = State()
        me, T0, S0 = PR.new_parser(st, tokens_nonempty=True)
        st.pc.append(PR.kind(z3.Select(T0.arr, T0.lo)) == PR.K[opening])
        entry = {"S0": S0}

        def inv1(ex_, s, e, ghost):
            S, T = PR.cur(s, me, "_stack"), PR.cur(s, me, "_tokens")
            return z3.And(PR.same_below(S, S0), S.lo <= S0.lo - 1, z3.Select(S.arr, S0.lo - 1) == z3.Select(T0.arr, T0.lo),
                          PR.nodes_only(S, S.lo, S0.lo - 1), PR.progress_post(T, T0, strict=True))

        def var1(ex_, s, ghost):
            return PR.cur(s, me, "_tokens").length()
        ex.loops[(qual, "not self.accept(Closing)")] = LoopSpec(invariant=inv1, variant=var1, modifies=["self._stack", "self._tokens:window"])

        def inv2(ex_, s, e, ghost):
            S = PR.cur(s, me, "_stack")
            items = s.deref(s.loc["items"])
            base = [PR.same_below(S, S0, frm=None), ]
            # still above (or at) the opening token: everything above it is a node; collected items are nodes
            return z3.And(S.hi == S0.hi, S.lo <= S0.lo - 1, PR.same_below(S, S0),
                          z3.Select(S.arr, S0.lo - 1) == z3.Select(T0.arr, T0.lo), PR.nodes_only(S, S.lo, S0.lo - 1),
                          PR.nodes_only(items) if hasattr(items, "arr") else z3.BoolVal(True), items.lo <= items.hi if hasattr(items, "arr") else z3.BoolVal(True))

        def var2(ex_, s, ghost):
            return PR.cur(s, me, "_stack").length()

        def prep2(ex_, s):
            it = s.deref(s.loc["items"])
            if isinstance(it, PyList) and not it.items:
                s.heap[s.loc["items"].addr] = PR.ListV.empty(PR.I, wrap=PR.Tok)
        ex.loops[(qual, "self._stack")] = LoopSpec(invariant=inv2, variant=var2, modifies=["self._stack:window", "items", "item"], prepare=prep2)
        outs = _pcall(ex, qual, st, me, args=[PR.TK.TokClass(PR.K[opening]), PR.TK.TokClass(PR.K[closing]), ClassV(cls)])

        def post(val, s1):
            T1, S1 = PR.cur(s1, me, "_tokens"), PR.cur(s1, me, "_stack")
            sess.check("decreases", s1.pc, PR.progress_post(T1, T0), 0, label="tokens-strictly-consumed")
            sess.check("post", s1.pc, PR.pushes_one_node(S1, S0), 0, label="stack = [node] + stack at entry (nothing below the opening bracket is touched)")
        _check_exits(sess, outs, me, T0, S0, post, f"connection[{cls}]")
    return (f"{PR.MOD}:{qual}[{cls}]", PR.MOD, qual, run)


def target_parser_subcircuit():
    qual = "Parser.subcircuit"

    def run(sess: Session):
        ex = _parser_executor(sess, contracts=("main_loop", "connection"))
        st = State()
        me, T0, S0 = PR.new_parser(st, tokens_nonempty=True)
        st.pc.append(z3.Or(*[PR.kind(z3.Select(T0.arr, T0.lo)) == PR.K[k] for k in ("Identifier", "LBracket", "LParen")]))

        def inv1(ex_, s, e, ghost):
            S, T = PR.cur(s, me, "_stack"), PR.cur(s, me, "_tokens")
            return z3.And(PR.same_below(S, S0), S.lo <= S0.lo, PR.nodes_only(S, S.lo, S0.lo), PR.progress_post(T, T0, strict=False))

        def var1(ex_, s, ghost):
            return PR.cur(s, me, "_tokens").length()
        ex.loops[(qual, "type(self.peek(0)) not in [Comma, Colon, RCurly]")] = LoopSpec(invariant=inv1, variant=var1, modifies=["self._stack", "self._tokens:window"])

        def inv2(ex_, s, e, ghost):
            S = PR.cur(s, me, "_stack")
            el = s.deref(s.loc["elements"])
            return z3.And(PR.same_below(S, S0), S.lo <= S0.lo, PR.nodes_only(S, S.lo, S0.lo),
                          PR.nodes_only(el) if hasattr(el, "arr") else z3.BoolVal(True), el.lo <= el.hi if hasattr(el, "arr") else z3.BoolVal(True))

        def var2(ex_, s, ghost):
            return PR.cur(s, me, "_stack").length()

        def prep2(ex_, s):
            it = s.deref(s.loc["elements"])
            if isinstance(it, PyList) and not it.items:
                s.heap[s.loc["elements"].addr] = PR.ListV.empty(PR.I, wrap=PR.Tok)
        for hdr in ("not self.is_stack_empty()", "self.get_stack_length() > depth"):
            ex.loops[(qual, hdr)] = LoopSpec(invariant=inv2, variant=var2, modifies=["self._stack:window", "elements", "con"], prepare=prep2)
        outs = _pcall(ex, qual, st, me, args=[PR.Tok(fresh("keytok", PR.I))])

        def post(val, s1):
            T1, S1 = PR.cur(s1, me, "_tokens"), PR.cur(s1, me, "_stack")
            sess.check("decreases", s1.pc, PR.progress_post(T1, T0), 0, label="tokens-strictly-consumed")
            sess.check("frame", s1.pc, z3.And(S1.lo == S0.lo, PR.same_below(S1, S0)), 0, label="stack-is-exactly-the-stack-at-entry (a sub-circuit never takes elements from, or leaves elements in, the enclosing connection)")
            ok = isinstance(val, type(NONE)) or isinstance(val, PR.Tok)
            sess.check("post", s1.pc, z3.BoolVal(ok) if not isinstance(val, PR.Tok) else z3.Or(PR.kind(val.id) == PR.K["Series"], PR.kind(val.id) == PR.K["Parallel"]), 0, label="returns None or a connection")
            static = s1.ghost.get("static_nodes", [])
            if isinstance(val, PR.Tok):
                sess.check("frame", s1.pc, z3.BoolVal(not any(val.id.eq(n_) for n_ in static)), 0, label="the returned connection is a new object of this parse (not one shared between parses / with the class defaults)")
        _check_exits(sess, outs, me, T0, S0, post, "subcircuit")
    return (f"{PR.MOD}:{qual}", PR.MOD, qual, run)


def _tok_float(st, T0):
    """type invariant of number tokens: values are floats (possibly +-inf; nan cannot come out of float(text) of digits)"""
    from pyvc.values import NEG_INF, POS_INF, INF_AXIOMS
    j = fresh("j", PR.I)
    st.pc += INF_AXIOMS + [z3.ForAll([j], z3.And(PR.tnum(j) >= NEG_INF, PR.tnum(j) <= POS_INF))]


def target_parser_param_limit():
    qual = "Parser.param_limit"

    def run(sess: Session):
        from pyvc.values import NEG_INF, POS_INF
        for upper in (True, False):
            ex = _parser_executor(sess, contracts=())
            num = PR.install_token_values(ex)
            st = State()
            me, T0, S0 = PR.new_parser(st)
            _tok_float(st, T0)
            value = fresh("value", z3.RealSort())
            outs = _pcall(ex, qual, st, me, args=[value], kwargs={"upper": z3.BoolVal(upper)})

            def post(val, s1):
                T1, S1 = PR.cur(s1, me, "_tokens"), PR.cur(s1, me, "_stack")
                sess.check("decreases", s1.pc, PR.progress_post(T1, T0), 0, label=f"[upper={upper}]tokens-strictly-consumed")
                sess.check("frame", s1.pc, z3.And(S1.lo == S0.lo, PR.same_below(S1, S0)), 0, label=f"[upper={upper}]stack untouched")
                first = z3.Select(T0.arr, T0.lo)
                second = z3.Select(T0.arr, T0.lo + 1)
                r = num(val)
                spec = z3.If(PR.kind(first) == PR.K["Number"],
                             z3.If(z3.And(T0.length() >= 2, PR.kind(second) == PR.K["Percent"]), value * PR.tnum(first) / 100, PR.tnum(first)),
                             POS_INF if upper else NEG_INF)
                sess.check("post", s1.pc, r == spec, 0, label=f"[upper={upper}]limit = number | value*number/100 for a percentage | +-inf for 'inf'")
            _check_exits(sess, outs, me, T0, S0, post, f"param_limit[upper={upper}]")
    return (f"{PR.MOD}:{qual}", PR.MOD, qual, run)


def target_parser_param():
    qual = "Parser.param"

    def run(sess: Session):
        from pyvc.symex import Contract
        from pyvc.values import TupleV, POS_INF
        ex = _parser_executor(sess, contracts=())
        num = PR.install_token_values(ex)
        st = State()
        me, T0, S0 = PR.new_parser(st)
        _tok_float(st, T0)

        def limit_contract(ex_, s, recv, args, kwargs, line):
            PR.havoc_tokens(s, recv, strict=True)
            r = fresh("limit", z3.RealSort())
            from pyvc.values import NEG_INF
            s.pc += [r >= NEG_INF, r <= POS_INF]
            return [(Raised(PR.Exc("ParsingError|ValueError", line)), s.clone()), (r, s)]
        ex.contracts["param_limit"] = Contract("param_limit", limit_contract)
        outs = _pcall(ex, qual, st, me, args=[z3.IntVal(0), PR.Tok(fresh("key", PR.I))])

        def post(val, s1):
            T1, S1 = PR.cur(s1, me, "_tokens"), PR.cur(s1, me, "_stack")
            sess.check("decreases", s1.pc, PR.progress_post(T1, T0), 0, label="tokens-strictly-consumed")
            sess.check("frame", s1.pc, z3.And(S1.lo == S0.lo, PR.same_below(S1, S0)), 0, label="stack untouched")
            ok = isinstance(val, TupleV) and len(val.items) == 4
            sess.check("post", s1.pc, z3.BoolVal(ok), 0, label="returns (value, lower, upper, fixed)")
            if ok:
                first = z3.Select(T0.arr, T0.lo)
                v, lo, up, fx = val.items
                sess.check("post", s1.pc, z3.And(num(v) == PR.tnum(first), fx == (PR.kind(first) == PR.K["FixedNumber"])), 0, label="value = the number token, fixed iff it carries the F marker")
                sess.check("post", s1.pc, z3.Implies(z3.Not(z3.And(T0.length() >= 2, PR.kind(z3.Select(T0.arr, T0.lo + 1)) == PR.K["ForwardSlash"])), z3.And(ex.lift(num(lo)) > POS_INF, ex.lift(num(up)) > POS_INF)), 0,
                           label="omitted limits are NaN")
        _check_exits(sess, outs, me, T0, S0, post, "param")
    return (f"{PR.MOD}:{qual}", PR.MOD, qual, run)


def target_parser_migrate():
    qual = "Parser.migrate"

    def run(sess: Session):
        ex = _parser_executor(sess, contracts=())
        PR.install_token_values(ex)
        ex.consts["VERSION"] = z3.IntVal(1)
        ex.inline["_v1_migrator"] = (PR.MOD, "Parser._v1_migrator")
        orig_call = ex.call

        def call(f, args, kwargs, starkw, s, node):
            if isinstance(f, tuple) and f[0] == "boundmethod" and f[2] == "_v1_migrator" and not args:
                return ex.call_method(f[1], "_v1_migrator", [], {}, None, s, node)
            return orig_call(f, args, kwargs, starkw, s, node)
        ex.call = call
        st = State()
        me, T0, S0 = PR.new_parser(st)
        _tok_float(st, T0)
        outs = _pcall(ex, qual, st, me, kwargs={"version": z3.IntVal(-1)})       # what parse_cdc passes

        def post(val, s1):
            T1, S1 = PR.cur(s1, me, "_tokens"), PR.cur(s1, me, "_stack")
            sess.check("post", s1.pc, PR.progress_post(T1, T0, strict=False), 0, label="tokens: a suffix of the input")
            sess.check("frame", s1.pc, z3.And(S1.lo == S0.lo, PR.same_below(S1, S0)), 0, label="stack untouched")
        _check_exits(sess, outs, me, T0, S0, post, "migrate")
    return (f"{PR.MOD}:{qual}", PR.MOD, qual, run)


def target_parser_process_tail():
    """Parser.process from `if self.get_stack_length() > 1:` on: with a stack of nodes only (what the main loop leaves),
    the assembly never raises TypeError and builds a Series for Circuit(...)"""
    qual = "Parser.process"

    def run(sess: Session):
        from pyvc.core import strip_docstring
        from pyvc.symex import Contract
        fn = find_def(PR.MOD, qual)
        body = strip_docstring(fn.body)
        start = None
        for idx, s_ in enumerate(body):
            if isinstance(s_, ast.If) and "get_stack_length() > 1" in ast.unparse(s_.test):
                start = idx
        if start is None:
            sess.unsupported("assembly part of Parser.process not found", fn.lineno)
            return
        ex = _parser_executor(sess, contracts=())
        made = []

        def circuit_ctor(ex_, s, cls, args, kwargs, line):
            a = args[0]
            ex_.oblige("call-pre", s, PR.kind(a.id) == PR.K["Series"] if isinstance(a, PR.Tok) else z3.BoolVal(False), line, "Circuit(con): con is a Series")
            made.append(a)
            return [(PR.Tok(fresh("circuit", PR.I)), s)]
        ex.contracts["new:Circuit"] = Contract("new:Circuit", circuit_ctor)
        st = State()
        me, T0, S0 = PR.new_parser(st)
        st.pc.append(PR.nodes_only(S0))            # invariant of the top-level loop (each main_loop pushes one node onto nodes)

        def inv(ex_, s, e, ghost):
            S = PR.cur(s, me, "_stack")
            el = s.deref(s.loc["elements"])
            return z3.And(S.hi == S0.hi, S.lo >= S0.lo, S.lo <= S.hi, PR.same_below(S, S0, frm=S.lo) if False else z3.BoolVal(True), PR.nodes_only(S),
                          PR.nodes_only(el) if hasattr(el, "arr") else z3.BoolVal(True), el.lo <= el.hi if hasattr(el, "arr") else z3.BoolVal(True))

        def var(ex_, s, ghost):
            return PR.cur(s, me, "_stack").length()

        def prep(ex_, s):
            it = s.deref(s.loc["elements"])
            if isinstance(it, PyList) and not it.items:
                s.heap[s.loc["elements"].addr] = PR.ListV.empty(PR.I, wrap=PR.Tok)
        ex.loops[(qual, "not self.is_stack_empty()")] = LoopSpec(invariant=inv, variant=var, modifies=["self._stack:window", "elements", "elem"], prepare=prep)
        sub = ast.FunctionDef(name=fn.name, args=fn.args, body=body[start:], decorator_list=[], lineno=fn.lineno, col_offset=0)
        node = ast.parse("f()").body[0].value
        node.lineno = fn.lineno
        from pyvc.values import StrV
        outs = ex.call_funcv(FuncV(sub, PR.MOD, qualname=qual, bound_self=me), [StrV(note="string")], {}, None, st, node)
        n_ok = 0
        for val, s1 in outs:
            if isinstance(val, Raised):
                ok = all(x in PR.PARSING_ERRORS for x in val.exc.name.split("|"))
                sess.check("exc-class", s1.pc, z3.BoolVal(ok), val.exc.line, label=f"process-assembly:{val.exc.name}")
                continue
            n_ok += 1
            S1 = PR.cur(s1, me, "_stack")
            sess.check("post", s1.pc, S1.length() == 0, 0, label="stack empty on return")
        sess.check("cover", [], z3.BoolVal(n_ok >= 2 and len(made) >= 2), 0, label="single-item and multi-item assembly paths")
        sess.abstracted.append("Parser.process: the string prologue (strip / '[]' shortcuts) and the tokenizer call are not part of this target; the top-level `while self._tokens: self.main_loop()` keeps 'stack of nodes only' by main_loop's postcondition")
    return (f"{PR.MOD}:{qual}[assembly]", PR.MOD, qual, run)


def target_parser_process_loop():
    """Parser.process, the tokenise / migrate / `while self._tokens: self.main_loop()` part: from an empty stack it leaves a
    stack of nodes only, raising nothing but tokenizing/parsing errors and ValueError"""
    qual = "Parser.process"

    def run(sess: Session):
        from pyvc.core import strip_docstring
        from pyvc.symex import Contract
        from pyvc.values import Obj, StrV
        fn = find_def(PR.MOD, qual)
        body = strip_docstring(fn.body)
        part = None
        for s_ in body:
            if isinstance(s_, ast.If) and "string == ''" in ast.unparse(s_.test) and s_.orelse:
                part = s_.orelse
        if part is None:
            sess.unsupported("tokenise/parse branch of Parser.process not found", fn.lineno)
            return
        ex = _parser_executor(sess, contracts=("main_loop",))
        st = State()
        me, T0, S0 = PR.new_parser(st)
        st.pc.append(S0.length() == 0)             # Parser() starts with an empty stack

        def tokenizer_ctor(ex_, s, cls, args, kwargs, line):
            return [(s.alloc(Obj("TokenizerObj", {})), s)]
        ex.contracts["new:Tokenizer"] = Contract("new:Tokenizer", tokenizer_ctor)
        ex.classes["Tokenizer"] = ClassV("Tokenizer")

        def tok_process(ex_, s, recv, args, kwargs, line):
            # contract of Tokenizer.process (proved above): a list of tokens, or UnexpectedCharacter / ValueError
            L = PR.ListV(fresh("toks", z3.ArraySort(PR.I, PR.I)), z3.IntVal(0), fresh("ntoks", PR.I), wrap=PR.Tok)
            j = fresh("j", PR.I)
            s2 = s.clone()
            s.pc += [L.hi >= 0, z3.ForAll([j], z3.And(PR.kind(z3.Select(L.arr, j)) >= 1, PR.kind(z3.Select(L.arr, j)) <= len(PR.TK.TOKEN_CLASSES)))]
            return [(Raised(PR.Exc("UnexpectedCharacter|ValueError", line)), s2), (s.alloc(L), s)]
        ex.contracts["TokenizerObj.process"] = Contract("process", tok_process)

        def migrate_contract(ex_, s, recv, args, kwargs, line):
            s2 = s.clone()
            PR.havoc_tokens(s, recv, strict=False)
            return [(Raised(PR.Exc("ParsingError|ValueError", line)), s2), (NONE, s)]
        ex.contracts["migrate"] = Contract("migrate", migrate_contract)

        def inv(ex_, s, e, ghost):
            S, T = PR.cur(s, me, "_stack"), PR.cur(s, me, "_tokens")
            return z3.And(S.lo <= S.hi, T.lo <= T.hi, PR.nodes_only(S))

        def var(ex_, s, ghost):
            return PR.cur(s, me, "_tokens").length()
        ex.loops[(qual, "self._tokens")] = LoopSpec(invariant=inv, variant=var, modifies=["self._stack", "self._tokens:window"])
        sub = ast.FunctionDef(name=fn.name, args=fn.args, body=part, decorator_list=[], lineno=fn.lineno, col_offset=0)
        node = ast.parse("f()").body[0].value
        node.lineno = fn.lineno
        outs = ex.call_funcv(FuncV(sub, PR.MOD, qualname=qual, bound_self=me), [StrV(note="string")], {"version": z3.IntVal(-1)}, None, st, node)
        n_ok = 0
        for val, s1 in outs:
            if isinstance(val, Raised):
                ok = all(x in PR.PARSING_ERRORS for x in val.exc.name.split("|"))
                sess.check("exc-class", s1.pc, z3.BoolVal(ok), val.exc.line, label=f"process:{val.exc.name}")
                continue
            n_ok += 1
            sess.check("post", s1.pc, PR.nodes_only(PR.cur(s1, me, "_stack")), 0, label="the stack holds nodes only (precondition of the assembly part)")
        sess.check("cover", [], z3.BoolVal(n_ok >= 1), 0, label="normal-exit")
    return (f"{PR.MOD}:{qual}[tokenise+loop]", PR.MOD, qual, run)


def target_parser_process_prologue():
    """Parser.process, the string prologue: `string = string.strip()` and the test that short-cuts the empty circuit are total
    (no exception of any kind on any string).  String contents are opaque: every str method used must be one of the total
    primitives, every index into a list of parts must be provably in range."""
    qual = "Parser.process"

    def run(sess: Session):
        from pyvc.core import strip_docstring
        from pyvc.values import StrV
        fn = find_def(PR.MOD, qual)
        body = strip_docstring(fn.body)
        pro = []
        for s_ in body:
            if isinstance(s_, ast.If) and "Tokenizer" in ast.unparse(s_):
                pro.append(ast.Expr(value=s_.test))
                break
            pro.append(s_)
        else:
            sess.unsupported("prologue of Parser.process not found", fn.lineno)
            return
        for n in pro:
            ast.fix_missing_locations(n)
        ex = _parser_executor(sess, contracts=())
        st = State()
        me, T0, S0 = PR.new_parser(st)
        sub = ast.FunctionDef(name=fn.name, args=fn.args, body=pro, decorator_list=[], lineno=fn.lineno, col_offset=0)
        ast.fix_missing_locations(sub)
        node = ast.parse("f()").body[0].value
        node.lineno = fn.lineno
        outs = ex.call_funcv(FuncV(sub, PR.MOD, qualname=qual, bound_self=me), [StrV(note="string")], {"version": z3.IntVal(-1)}, None, st, node)
        n_ok = 0
        for val, s1 in outs:
            if isinstance(val, Raised):
                sess.check("exc-class", s1.pc, z3.BoolVal(False), val.exc.line, label=f"process-prologue:{val.exc.name}")
                continue
            n_ok += 1
        sess.check("cover", [], z3.BoolVal(n_ok >= 1), 0, label="prologue reaches the branch")
        sess.check("post", [], z3.BoolVal(len(pro) >= 2), 0, label="prologue = strip + empty-circuit test")
    return (f"{PR.MOD}:{qual}[prologue]", PR.MOD, qual, run)


def target_exception_constructors():
    """exceptions.py: constructing any of the library's parsing errors is total -- the constructor itself never raises, so the
    class of the exception that escapes parse_cdc is the one named at the `raise`.  Every `__init__` is executed with the
    argument shapes of its call sites in parser.py (tokens with a .value, element classes with get_symbol(), strings, lists of
    keys of ANY length including empty, finite or infinite floats), f-strings evaluated strictly."""
    EXC = "exceptions"

    def run(sess: Session):
        from pyvc.core import module_ast
        from pyvc.symex import Contract, Executor
        from pyvc.values import Obj, StrV
        tree = module_ast(EXC)
        n_ctor = 0
        for cls in tree.body:
            if not isinstance(cls, ast.ClassDef):
                continue
            init = next((m for m in cls.body if isinstance(m, ast.FunctionDef) and m.name == "__init__"), None)
            if init is None:
                continue
            n_ctor += 1
            ex = Executor(sess, EXC, cls.name)
            from pyvc import builtins as B_
            B_.install(ex)
            ex.strict_fstrings = True
            ex.exc_mode = "oblige"
            st = State()
            me = st.alloc(Obj(cls.name, {}))

            def super_(ex_, s, a, kw, node):
                return [(s.alloc(Obj("super", {})), s)]
            ex.consts["super"] = ("builtin", super_)
            ex.contracts["super.__init__"] = Contract("super.__init__", lambda ex_, s, recv, a, kw, line: [(NONE, s)])
            ex.contracts["get_symbol"] = Contract("get_symbol", lambda ex_, s, recv, a, kw, line: [(StrV(note="symbol"), s)])
            argv = []
            for p_ in init.args.args[1:]:
                nm = p_.arg
                if nm in ("token", "identifier"):
                    argv.append(st.alloc(Obj("Token", {"value": StrV(note="token text") if cls.name != "InvalidNumericValue" else fresh("tokval", z3.RealSort())})))
                elif nm == "Class":
                    argv.append(st.alloc(Obj("ElementClass", {})))
                elif nm.endswith("keys"):
                    L = ListV(fresh(nm, z3.ArraySort(z3.IntSort(), z3.IntSort())), z3.IntVal(0), fresh(nm + ".n", z3.IntSort()), wrap=lambda v: StrV(note="key"))
                    st.pc.append(L.hi >= 0)
                    argv.append(st.alloc(L))
                elif nm in ("value", "limit"):
                    argv.append(fresh(nm, z3.RealSort()))
                else:
                    argv.append(StrV(note=nm))
            node = ast.parse("f()").body[0].value
            node.lineno = init.lineno
            try:
                outs = ex.call_funcv(FuncV(init, EXC, qualname=f"{cls.name}.__init__", bound_self=me), argv, {}, None, st, node)
            except Unsupported as u:
                sess.unsupported(f"{cls.name}.__init__: {u}", init.lineno)
                continue
            ok = 0
            for val, s1 in outs:
                if isinstance(val, Raised):
                    sess.check("exc-class", s1.pc, z3.BoolVal(False), val.exc.line, label=f"{cls.name}(...) itself raises {val.exc.name}")
                else:
                    ok += 1
            sess.check("cover", [], z3.BoolVal(ok >= 1), init.lineno, label=f"{cls.name}: constructor returns")
        sess.check("cover", [], z3.BoolVal(n_ctor >= 15), 0, label=f"{n_ctor} constructors under contract")
    return (f"{EXC}:ParsingError subclasses.__init__", EXC, "ParsingError", run)


def targets():
    return [target_tokenizer_main_loop(), target_tokenizer_process(), target_parser_main_loop(), target_parser_process_loop(),
            target_parser_param_limit(), target_parser_param(), target_parser_migrate(), target_parser_process_tail(), target_parser_process_prologue(), target_exception_constructors(),
            target_parser_connection("LBracket", "RBracket", "Series"), target_parser_connection("LParen", "RParen", "Parallel"),
            target_parser_subcircuit()]


# ------------------------------------------------------------------------------------------------ Parser.parameters
def target_parser_parameters():
    """Parser.parameters(Class): the contract that Parser.element (C03) assumes -- keys are the class's keys, the four maps
    share one domain, given limits bracket the value -- plus frame (stack untouched), progress, exception classes."""
    qual = "Parser.parameters"

    def run(sess: Session):
        from pyvc.symex import Contract
        from pyvc.values import DictV, Key, Obj, PyDict, TupleV, POS_INF, NEG_INF, Ref
        R, Bo = z3.RealSort(), z3.BoolSort()
        ex = _parser_executor(sess, contracts=("subcircuit",))
        num = PR.install_token_values(ex)
        st = State()
        me, T0, S0 = PR.new_parser(st)
        _tok_float(st, T0)
        class_keys = fresh("class_keys", z3.ArraySort(Key, Bo))
        sub_keys = fresh("subcircuit_keys", z3.ArraySort(Key, Bo))
        is_container = fresh("is_container", Bo)
        kq = fresh("k", Key)
        st.pc.append(z3.ForAll([kq], z3.Not(z3.And(z3.Select(class_keys, kq), z3.Select(sub_keys, kq)))))

        class KeySet:
            def __init__(self, dom):
                self.dom = dom

        def keyval(v):
            return PR.tstr(v[1].id) if isinstance(v, tuple) and v and v[0] == "tokvalue" else v
        # Class.get_default_values().keys() / Class.get_default_subcircuits().keys()
        orig_ga = ex.getattr

        def ga(base, attr, s, node=None):
            if isinstance(base, ClassV) and base.name == "TheClass" and attr in ("get_default_values", "get_default_subcircuits"):
                return ("classkeys", attr)
            if isinstance(base, tuple) and base and base[0] == "keysof":
                return ("boundmethod", base, attr)
            if isinstance(base, Ref) and isinstance(s.deref(base), KeySet):
                return ("boundmethod", base, attr)
            return orig_ga(base, attr, s, node)
        ex.getattr = ga
        orig_call = ex.call

        def call(f, args, kwargs, starkw, s, node):
            line = getattr(node, "lineno", 0)
            if isinstance(f, tuple) and f[0] == "classkeys":
                return [(("keysof", class_keys if f[1] == "get_default_values" else sub_keys), s)]
            if isinstance(f, tuple) and f[0] == "boundmethod" and isinstance(f[1], tuple) and f[1][0] == "keysof" and f[2] == "keys":
                return [(f[1], s)]
            if isinstance(f, tuple) and f[0] == "boundmethod" and isinstance(f[1], Ref) and isinstance(s.deref(f[1]), KeySet):
                ks = s.deref(f[1])
                if f[2] == "remove":
                    k = keyval(args[0])
                    outs = []
                    s2 = s.clone()
                    s2.pc.append(z3.Not(z3.Select(ks.dom, k)))
                    if ex.feasible(s2):
                        outs.append((Raised(PR.Exc("ValueError", line)), s2))
                    s.pc.append(z3.Select(ks.dom, k))
                    s.heap[f[1].addr] = KeySet(z3.Store(ks.dom, k, z3.BoolVal(False)))
                    outs.append((NONE, s))
                    return outs
                if f[2] == "extend":
                    other = args[0]
                    kk = fresh("k", Key)
                    s.heap[f[1].addr] = KeySet(z3.Lambda([kk], z3.Or(z3.Select(ks.dom, kk), z3.Select(other[1], kk))))
                    return [(NONE, s)]
            return orig_call(f, args, kwargs, starkw, s, node)
        ex.call = call

        def b_list(ex_, s, a, kw, n):
            if not a:
                return [(s.alloc(KeySet(z3.K(Key, z3.BoolVal(False)))), s)]
            if isinstance(a[0], tuple) and a[0][0] == "keysof":
                return [(s.alloc(KeySet(a[0][1])), s)]
            raise Unsupported("list()")
        ex.consts["list"] = ("builtin", b_list)
        orig_evlist = ex.ev_List

        def ev_List(e, s):
            if not e.elts:
                return [(s.alloc(KeySet(z3.K(Key, z3.BoolVal(False)))), s)]
            return orig_evlist(e, s)
        ex.ev_List = ev_List
        ex.consts["issubclass"] = ("builtin", lambda ex_, s, a, kw, n: [(is_container, s)])
        orig_truthy = ex.truthy

        def truthy(v, s):
            vv = s.deref(v) if isinstance(v, Ref) else v
            if isinstance(vv, KeySet):
                kk = fresh("k", Key)
                return z3.Exists([kk], z3.Select(vv.dom, kk))
            return orig_truthy(v, s)
        ex.truthy = truthy
        orig_len = ex.consts["len"][1]

        def b_len(ex_, s, a, kw, n):
            vv = s.deref(a[0])
            if isinstance(vv, KeySet):
                m = fresh("card", PR.I)
                kk = fresh("k", Key)
                s.pc += [m >= 0, (m == 0) == z3.Not(z3.Exists([kk], z3.Select(vv.dom, kk)))]
                return [(m, s)]
            return orig_len(ex_, s, a, kw, n)
        ex.consts["len"] = ("builtin", b_len)
        orig_contains = ex.contains

        def contains(container, item, s, line):
            c = s.deref(container)
            item = keyval(item)
            if isinstance(c, KeySet):
                return z3.Select(c.dom, item)
            if isinstance(c, PyDict) and not c.items:
                return z3.BoolVal(False)
            return orig_contains(container, item, s, line)
        ex.contains = contains
        orig_store = ex.store

        def store(t, v, s, node):
            if isinstance(t, ast.Subscript):
                res = ex.ev_list([t.value, t.slice], s)
                base, idx = res[0][0]
                idx = keyval(idx)
                c = s.deref(base)
                val = num(v)
                if isinstance(val, PR.Tok):
                    val = val.id
                if isinstance(val, type(NONE)):
                    val = z3.IntVal(-1)             # subcircuits[key] = None (open)
                if isinstance(c, DictV):
                    s.heap[base.addr] = c.store(idx, ex.lift(val))
                    return None
            return orig_store(t, v, s, node)
        ex.store = store
        ex.getattr_label = None

        def param_contract(ex_, s, recv, args, kwargs, line):
            s2 = s.clone()
            PR.havoc_tokens(s, recv, strict=True)
            v, lo, up = (fresh(n_, R) for n_ in ("pvalue", "plower", "pupper"))
            fx = fresh("pfixed", Bo)
            NANV = POS_INF + 1
            s.pc += [v >= NEG_INF, v <= POS_INF, z3.Or(lo == NANV, z3.And(lo >= NEG_INF, lo <= POS_INF)), z3.Or(up == NANV, z3.And(up >= NEG_INF, up <= POS_INF))]
            return [(Raised(PR.Exc("ParsingError|ValueError", line)), s2), (TupleV([v, lo, up, fx]), s)]
        ex.contracts["param"] = Contract("param", param_contract)
        for n_ in ("ExpectedParameterIdentifier", "DuplicateParameterDefinition", "InvalidParameterDefinition", "TooManyParameterDefinitions",
                   "InvalidParameterLowerLimit", "InvalidParameterUpperLimit"):
            ex.classes[n_] = ClassV(n_)
        ex.classes["Container"] = ClassV("Container")
        NANV = POS_INF + 1

        def maps(s):
            loc = s.loc
            return tuple(s.deref(loc[n_]) for n_ in ("parameters", "lower_limits", "upper_limits", "fixed_parameters", "subcircuits"))

        def inv(ex_, s, e, ghost):
            P_, LO_, UP_, FX_, SC_ = maps(s)
            pk, sk = s.deref(s.loc["parameter_keys"]), s.deref(s.loc["subcircuit_keys"])
            S, T = PR.cur(s, me, "_stack"), PR.cur(s, me, "_tokens")
            k = fresh("k", Key)
            return z3.And(
                z3.ForAll([k], z3.And(LO_.has(k) == P_.has(k), UP_.has(k) == P_.has(k), FX_.has(k) == P_.has(k))),
                z3.ForAll([k], z3.And(z3.Implies(P_.has(k), z3.And(z3.Select(class_keys, k), z3.Not(z3.Select(pk.dom, k)))),
                                      z3.Implies(z3.Select(pk.dom, k), z3.Select(class_keys, k)),
                                      z3.Implies(z3.Select(class_keys, k), z3.Or(P_.has(k), z3.Select(pk.dom, k))))),
                z3.ForAll([k], z3.Implies(z3.Select(sk.dom, k), z3.And(is_container, z3.Select(sub_keys, k)))),
                z3.ForAll([k], z3.Implies(SC_.has(k), z3.And(is_container, z3.Select(sub_keys, k), z3.Not(z3.Select(sk.dom, k))))),
                z3.ForAll([k], z3.Implies(P_.has(k), z3.And(P_.get(k) >= NEG_INF, P_.get(k) <= POS_INF,
                                                           z3.Or(LO_.get(k) == NANV, z3.And(NEG_INF <= LO_.get(k), LO_.get(k) <= P_.get(k))),
                                                           z3.Or(UP_.get(k) == NANV, z3.And(P_.get(k) <= UP_.get(k), UP_.get(k) <= POS_INF))))),
                S.lo == S0.lo, PR.same_below(S, S0), PR.progress_post(T, T0, strict=True))

        def var(ex_, s, ghost):
            return PR.cur(s, me, "_tokens").length()

        def prep(ex_, s):
            for n_, vs in (("parameters", R), ("lower_limits", R), ("upper_limits", R), ("fixed_parameters", Bo), ("subcircuits", PR.I)):
                if isinstance(s.deref(s.loc[n_]), PyDict):
                    s.heap[s.loc[n_].addr] = DictV.empty(Key, vs)
        ex.loops[(qual, "parameter_keys or subcircuit_keys")] = LoopSpec(
            invariant=inv, variant=var, prepare=prep,
            modifies=["parameters", "lower_limits", "upper_limits", "fixed_parameters", "subcircuits", "parameter_keys", "subcircuit_keys", "self._tokens:window",
                      "key", "value", "lower", "upper", "fixed", "token"])
        orig_havoc_value = ex._havoc_value

        def hv(v, tag):
            if isinstance(v, KeySet):
                return KeySet(fresh(tag, z3.ArraySort(Key, Bo)))
            if isinstance(v, PR.Tok):
                return PR.Tok(fresh(tag, PR.I))
            return orig_havoc_value(v, tag)
        ex._havoc_value = hv
        outs = _pcall(ex, qual, st, me, args=[ClassV("TheClass")])

        def post(val, s1):
            T1, S1 = PR.cur(s1, me, "_tokens"), PR.cur(s1, me, "_stack")
            sess.check("post", s1.pc, PR.progress_post(T1, T0, strict=False), 0, label="tokens: a suffix of the input")
            sess.check("frame", s1.pc, z3.And(S1.lo == S0.lo, PR.same_below(S1, S0)), 0, label="stack untouched")
            ok = isinstance(val, TupleV) and len(val.items) == 6
            sess.check("post", s1.pc, z3.BoolVal(ok), 0, label="returns (label, parameters, lower_limits, upper_limits, fixed, subcircuits)")
            if not ok:
                return
            ms = [s1.deref(x) for x in val.items[1:]]
            if all(isinstance(m_, PyDict) and not m_.items for m_ in ms):
                return          # no '{' block: all maps empty -- trivially within the contract
            if not all(isinstance(m_, DictV) for m_ in ms):
                sess.check("post", s1.pc, z3.BoolVal(False), 0, label="maps are dictionaries")
                return
            P_, LO_, UP_, FX_, SC_ = ms
            k = fresh("k", Key)
            sess.check("post", s1.pc, z3.ForAll([k], z3.And(LO_.has(k) == P_.has(k), UP_.has(k) == P_.has(k), FX_.has(k) == P_.has(k))), 0, label="the four parameter maps share one domain")
            sess.check("post", s1.pc, z3.ForAll([k], z3.Implies(P_.has(k), z3.Select(class_keys, k))), 0, label="parameter keys are keys of the class (so Class(**parameters) cannot raise InvalidParameterKey)")
            sess.check("post", s1.pc, z3.ForAll([k], z3.Implies(SC_.has(k), z3.Select(sub_keys, k))), 0, label="sub-circuit keys are sub-circuit keys of the class")
            sess.check("post", s1.pc, z3.ForAll([k], z3.Implies(P_.has(k), z3.And(z3.Or(LO_.get(k) == NANV, LO_.get(k) <= P_.get(k)), z3.Or(UP_.get(k) == NANV, P_.get(k) <= UP_.get(k))))), 0,
                       label="given limits bracket the value (lower <= value <= upper)")
        _check_exits(sess, outs, me, T0, S0, post, "parameters")
    return (f"{PR.MOD}:{qual}", PR.MOD, qual, run)


_targets_without_parameters = targets


def targets():      # noqa: F811
    from . import c03_element
    return _targets_without_parameters() + [target_parser_parameters()] + c03_element.targets()
