"""C04 proof layer: parse_cdc is total.  Part 1: Tokenizer (every exit of main_loop consumes >= 1 character or raises an
allowed class; no TypeError/IndexError/KeyError at any primitive; scanning loops terminate).  Part 2: Parser (contracts/parser.py)."""
from __future__ import annotations

import ast

import z3

from pyvc.core import Session, find_def
from pyvc.symex import Raised, State, Unsupported
from pyvc.values import FuncV, ListV, fresh
from . import tokenizer as T


_REPRO = '''
import pyimpspec
from pyimpspec.exceptions import ParsingError, TokenizingError
tail = %r
for prefix in ("", "R", "R{", "R{R=", "R{R=1,", "R{:", "[R", "(RC"):
    try:
        pyimpspec.parse_cdc(prefix + tail)
    except (ParsingError, TokenizingError, ValueError):
        pass
    except Exception as ex:
        raise SystemExit(f"parse_cdc({prefix + tail!r}) raised {type(ex).__name__}: {ex}")
print("only parsing errors")
'''


def _call(ex, qual, st, me, args=()):
    fn = find_def(T.MOD, qual)
    node = ast.parse("f()").body[0].value
    node.lineno = fn.lineno
    return ex.call_funcv(FuncV(fn, T.MOD, qualname=qual, bound_self=me), list(args), {}, None, st, node)


def target_tokenizer_main_loop():
    qual = "Tokenizer.main_loop"

    def run(sess: Session):
        ex = T.make_executor(sess)
        st = State()
        me, chars, toks = T.new_tokenizer(st, nonempty=True)
        idx0 = st.deref(me).fields["_index"]
        outs = _call(ex, qual, st, me)
        n_norm = n_exc = 0
        for val, s1 in outs:
            if isinstance(val, Raised):
                n_exc += 1
                sess.check("exc-class", s1.pc, z3.BoolVal(val.exc.name in T.ALLOWED_EXC), val.exc.line, label=val.exc.name)
                continue
            n_norm += 1
            c1: ListV = s1.deref(s1.deref(me).fields["_chars"])
            sess.check("decreases", s1.pc, z3.And(c1.lo > chars.lo, c1.lo <= c1.hi, c1.hi == chars.hi), 0, label="|_chars|-strictly-decreases")
            sess.check("post", s1.pc, z3.BoolVal(c1.arr.eq(chars.arr)), 0, label="_chars-is-a-suffix-of-the-input")
            sess.check("post", s1.pc, s1.deref(me).fields["_index"] - c1.lo == idx0 - chars.lo, 0, label="_index-counts-consumed-characters")
            t1: ListV = s1.deref(s1.deref(me).fields["_tokens"])
            sess.check("post", s1.pc, z3.And(t1.lo == toks.lo, t1.hi >= toks.hi, t1.hi <= toks.hi + 1), 0, label="at-most-one-token-appended")
        sess.check("cover", [], z3.BoolVal(n_norm >= 5 and n_exc >= 1), 0, label=f"paths(normal={n_norm},exceptional={n_exc})")
        # counter-models -> candidate inputs (remaining characters of the initial window), replayed through parse_cdc
        for ob in sess.obligations:
            m = getattr(ob, "_z3model", None)
            if ob.status == "refuted" and m is not None and not ob.expect_refuted:
                try:
                    lo = m.eval(chars.lo, model_completion=True).as_long()
                    hi = m.eval(chars.hi, model_completion=True).as_long()
                    text = "".join(chr(m.eval(z3.Select(chars.arr, z3.IntVal(i)), model_completion=True).as_long()) for i in range(lo, min(hi, lo + 40)))
                except Exception:
                    continue
                ob.replay = {"input": text, "repro": _REPRO % (text,)}
        for val, s1 in outs:
            if not isinstance(val, Raised):
                sess.check("canary", s1.pc, z3.BoolVal(False), 0, label="ensures-False", expect_refuted=True)
                break
    return (f"{T.MOD}:{qual}", T.MOD, qual, run)


def target_tokenizer_process():
    """process(): the outer loop `while self._chars: self.main_loop()` with main_loop by its contract above: terminates, returns _tokens"""
    qual = "Tokenizer.process"

    def run(sess: Session):
        from pyvc.symex import Contract, LoopSpec
        from pyvc.values import NONE, Char, StrV
        ex = T.make_executor(sess)
        del ex.inline["main_loop"]

        def main_loop_contract(ex_, st, recv, args, kwargs, line):
            o = st.deref(recv)
            c: ListV = st.deref(o.fields["_chars"])
            ex_.oblige("call-pre", st, c.length() > 0, line, "main_loop:requires-nonempty-_chars")
            outs = []
            sr = st.clone()
            outs.append((Raised(T.Exc("UnexpectedCharacter|ValueError", line)), sr))
            nlo = fresh("lo", T.I)
            st.heap[o.fields["_chars"].addr] = ListV(c.arr, nlo, c.hi, c.wrap)
            st.pc += [nlo > c.lo, nlo <= c.hi]
            t: ListV = st.deref(o.fields["_tokens"])
            st.heap[o.fields["_tokens"].addr] = ListV(fresh("tok", t.arr.sort()), t.lo, fresh("thi", T.I), t.wrap)
            o.fields["_index"] = fresh("idx", T.I)
            o.fields["_start"] = fresh("start", T.I)
            o.fields["_end"] = fresh("end", T.I)
            o.fields["_value"] = StrV(note="value")
            outs.append((NONE, st))
            return outs
        ex.contracts["main_loop"] = Contract("main_loop", main_loop_contract)
        ex.ev_ListComp = lambda e, st: [(st.alloc(ListV(fresh("orig", z3.ArraySort(T.I, T.I)), z3.IntVal(0), st.ghost["len"], wrap=Char)), st)]

        def inv(ex_, st, entry, ghost):
            c: ListV = st.deref(st.deref(st.loc["self"]).fields["_chars"])
            return z3.And(c.lo <= c.hi)
        ex.loops[(qual, "self._chars")] = LoopSpec(invariant=inv, variant=T.scan_variant,
                                                   modifies=["self._chars", "self._tokens", "self._index", "self._start", "self._end", "self._value"])
        st = State()
        me, chars, toks = T.new_tokenizer(st, nonempty=False)
        n = fresh("len", T.I)
        st.pc.append(n >= 0)
        st.ghost["len"] = n
        outs = _call(ex, qual, st, me, args=[StrV(note="input")])
        nn = 0
        for val, s1 in outs:
            if isinstance(val, Raised):
                sess.check("exc-class", s1.pc, z3.BoolVal(all(x in T.ALLOWED_EXC for x in val.exc.name.split("|"))), val.exc.line, label=val.exc.name)
                continue
            nn += 1
            c1: ListV = s1.deref(s1.deref(me).fields["_chars"])
            sess.check("post", s1.pc, c1.length() == 0, 0, label="whole-input-consumed")
            sess.check("post", s1.pc, z3.BoolVal(val == s1.deref(me).fields["_tokens"]), 0, label="returns-_tokens")
        sess.check("cover", [], z3.BoolVal(nn >= 1), 0, label="normal-exit")
    return (f"{T.MOD}:{qual}", T.MOD, qual, run)


# ------------------------------------------------------------------------------------------------ parser
from . import parser as PR          # noqa: E402
from pyvc.symex import Contract, LoopSpec   # noqa: E402
from pyvc.values import NONE, ClassV, PyList     # noqa: E402


def _pcall(ex, qual, st, me, args=(), kwargs=None):
    fn = find_def(PR.MOD, qual)
    node = ast.parse("f()").body[0].value
    node.lineno = fn.lineno
    return ex.call_funcv(FuncV(fn, PR.MOD, qualname=qual, bound_self=me), list(args), kwargs or {}, None, st, node)


def _parser_executor(sess, contracts=("main_loop", "connection", "element", "subcircuit")):
    from pyvc.symex import Executor
    ex = Executor(sess, PR.MOD, "Parser")
    PR.install_common(ex)
    for n in contracts:
        if n == "subcircuit":
            ex.contracts[n] = Contract(n, PR.subcircuit_contract)
        else:
            ex.contracts[n] = Contract(n, PR.push_node_contract(n))
    ex.contracts["new:Series"] = Contract("new:Series", PR.node_ctor("Series"))
    ex.contracts["new:Parallel"] = Contract("new:Parallel", PR.node_ctor("Parallel"))
    return ex


def _check_exits(sess, outs, me, T0, S0, post, label):
    n_norm = n_exc = 0
    for val, s1 in outs:
        if isinstance(val, Raised):
            n_exc += 1
            ok = all(x in PR.PARSING_ERRORS for x in val.exc.name.split("|"))
            sess.check("exc-class", s1.pc, z3.BoolVal(ok), val.exc.line, label=f"{label}:{val.exc.name}")
            continue
        n_norm += 1
        post(val, s1)
    sess.check("cover", [], z3.BoolVal(n_norm >= 1), 0, label=f"{label}:normal-exit-reachable(normal={n_norm},exceptional={n_exc})")
    for val, s1 in outs:
        if not isinstance(val, Raised):
            sess.check("canary", s1.pc, z3.BoolVal(False), 0, label="ensures-False", expect_refuted=True)
            break


def target_parser_main_loop():
    qual = "Parser.main_loop"

    def run(sess: Session):
        ex = _parser_executor(sess, contracts=("connection", "element"))
        st = State()
        me, T0, S0 = PR.new_parser(st)
        outs = _pcall(ex, qual, st, me)

        def post(val, s1):
            T1, S1 = PR.cur(s1, me, "_tokens"), PR.cur(s1, me, "_stack")
            sess.check("decreases", s1.pc, PR.progress_post(T1, T0), 0, label="tokens-strictly-consumed")
            sess.check("post", s1.pc, PR.pushes_one_node(S1, S0), 0, label="stack = [node] + old stack")
            sess.check("post", s1.pc, PR.stack_inv(S1), 0, label="StackInv")
        _check_exits(sess, outs, me, T0, S0, post, "main_loop")
    return (f"{PR.MOD}:{qual}", PR.MOD, qual, run)


def target_parser_connection(opening: str, closing: str, cls: str):
    qual = "Parser.connection"

    def run(sess: Session):
        ex = _parser_executor(sess, contracts=("main_loop",))
        st = State()
        me, T0, S0 = PR.new_parser(st, tokens_nonempty=True)
        st.pc.append(PR.kind(z3.Select(T0.arr, T0.lo)) == PR.K[opening])
        entry = {"S0": S0}

        def inv1(ex_, s, e, ghost):
            S, T = PR.cur(s, me, "_stack"), PR.cur(s, me, "_tokens")
            return z3.And(PR.same_below(S, S0), S.lo <= S0.lo - 1, z3.Select(S.arr, S0.lo - 1) == z3.Select(T0.arr, T0.lo),
                          PR.nodes_only(S, S.lo, S0.lo - 1), PR.progress_post(T, T0, strict=True))

        def var1(ex_, s, ghost):
            return PR.cur(s, me, "_tokens").length()
        ex.loops[(qual, "not self.accept(Closing)")] = LoopSpec(invariant=inv1, variant=var1, modifies=["self._stack", "self._tokens:window"])

        def inv2(ex_, s, e, ghost):
            S = PR.cur(s, me, "_stack")
            items = s.deref(s.loc["items"])
            base = [PR.same_below(S, S0, frm=None), ]
            # still above (or at) the opening token: everything above it is a node; collected items are nodes
            return z3.And(S.hi == S0.hi, S.lo <= S0.lo - 1, PR.same_below(S, S0),
                          z3.Select(S.arr, S0.lo - 1) == z3.Select(T0.arr, T0.lo), PR.nodes_only(S, S.lo, S0.lo - 1),
                          PR.nodes_only(items) if hasattr(items, "arr") else z3.BoolVal(True), items.lo <= items.hi if hasattr(items, "arr") else z3.BoolVal(True))

        def var2(ex_, s, ghost):
            return PR.cur(s, me, "_stack").length()

        def prep2(ex_, s):
            it = s.deref(s.loc["items"])
            if isinstance(it, PyList) and not it.items:
                s.heap[s.loc["items"].addr] = PR.ListV.empty(PR.I, wrap=PR.Tok)
        ex.loops[(qual, "self._stack")] = LoopSpec(invariant=inv2, variant=var2, modifies=["self._stack:window", "items", "item"], prepare=prep2)
        outs = _pcall(ex, qual, st, me, args=[PR.TK.TokClass(PR.K[opening]), PR.TK.TokClass(PR.K[closing]), ClassV(cls)])

        def post(val, s1):
            T1, S1 = PR.cur(s1, me, "_tokens"), PR.cur(s1, me, "_stack")
            sess.check("decreases", s1.pc, PR.progress_post(T1, T0), 0, label="tokens-strictly-consumed")
            sess.check("post", s1.pc, PR.pushes_one_node(S1, S0), 0, label="stack = [node] + stack at entry (nothing below the opening bracket is touched)")
        _check_exits(sess, outs, me, T0, S0, post, f"connection[{cls}]")
    return (f"{PR.MOD}:{qual}[{cls}]", PR.MOD, qual, run)


def target_parser_subcircuit():
    qual = "Parser.subcircuit"

    def run(sess: Session):
        ex = _parser_executor(sess, contracts=("main_loop", "connection"))
        st = State()
        me, T0, S0 = PR.new_parser(st, tokens_nonempty=True)
        st.pc.append(z3.Or(*[PR.kind(z3.Select(T0.arr, T0.lo)) == PR.K[k] for k in ("Identifier", "LBracket", "LParen")]))

        def inv1(ex_, s, e, ghost):
            S, T = PR.cur(s, me, "_stack"), PR.cur(s, me, "_tokens")
            return z3.And(PR.same_below(S, S0), S.lo <= S0.lo, PR.nodes_only(S, S.lo, S0.lo), PR.progress_post(T, T0, strict=False))

        def var1(ex_, s, ghost):
            return PR.cur(s, me, "_tokens").length()
        ex.loops[(qual, "type(self.peek(0)) not in [Comma, Colon, RCurly]")] = LoopSpec(invariant=inv1, variant=var1, modifies=["self._stack", "self._tokens:window"])

        def inv2(ex_, s, e, ghost):
            S = PR.cur(s, me, "_stack")
            el = s.deref(s.loc["elements"])
            return z3.And(PR.same_below(S, S0), S.lo <= S0.lo, PR.nodes_only(S, S.lo, S0.lo),
                          PR.nodes_only(el) if hasattr(el, "arr") else z3.BoolVal(True), el.lo <= el.hi if hasattr(el, "arr") else z3.BoolVal(True))

        def var2(ex_, s, ghost):
            return PR.cur(s, me, "_stack").length()

        def prep2(ex_, s):
            it = s.deref(s.loc["elements"])
            if isinstance(it, PyList) and not it.items:
                s.heap[s.loc["elements"].addr] = PR.ListV.empty(PR.I, wrap=PR.Tok)
        for hdr in ("not self.is_stack_empty()", "self.get_stack_length() > depth"):
            ex.loops[(qual, hdr)] = LoopSpec(invariant=inv2, variant=var2, modifies=["self._stack:window", "elements", "con"], prepare=prep2)
        outs = _pcall(ex, qual, st, me, args=[PR.Tok(fresh("keytok", PR.I))])

        def post(val, s1):
            T1, S1 = PR.cur(s1, me, "_tokens"), PR.cur(s1, me, "_stack")
            sess.check("decreases", s1.pc, PR.progress_post(T1, T0), 0, label="tokens-strictly-consumed")
            sess.check("frame", s1.pc, z3.And(S1.lo == S0.lo, PR.same_below(S1, S0)), 0, label="stack-is-exactly-the-stack-at-entry (a sub-circuit never takes elements from, or leaves elements in, the enclosing connection)")
            ok = isinstance(val, type(NONE)) or isinstance(val, PR.Tok)
            sess.check("post", s1.pc, z3.BoolVal(ok) if not isinstance(val, PR.Tok) else z3.Or(PR.kind(val.id) == PR.K["Series"], PR.kind(val.id) == PR.K["Parallel"]), 0, label="returns None or a connection")
        _check_exits(sess, outs, me, T0, S0, post, "subcircuit")
    return (f"{PR.MOD}:{qual}", PR.MOD, qual, run)


def targets():
    return [target_tokenizer_main_loop(), target_tokenizer_process(), target_parser_main_loop(),
            target_parser_connection("LBracket", "RBracket", "Series"), target_parser_connection("LParen", "RParen", "Parallel"),
            target_parser_subcircuit()]
