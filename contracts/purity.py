"""Purity obligations: the data-flow (EUF) contracts assume that the numerical callees are pure and deterministic.  This
checks the part of that assumption that is visible in the source: a function under this obligation does not write
module-level state (no `global`, no store into / mutation of a module-level name, no mutable default argument it mutates),
so its result cannot depend on earlier calls through the module's own variables."""
from __future__ import annotations

import ast

import z3

from pyvc import core
from pyvc.core import Session

MUTATORS = {"append", "extend", "insert", "pop", "remove", "clear", "update", "setdefault", "add", "discard", "popitem", "sort", "reverse", "__setitem__"}


def module_level_names(module: str):
    names = set()
    for n in core.module_ast(module).body:
        if isinstance(n, ast.Assign):
            for t in n.targets:
                for x in ast.walk(t):
                    if isinstance(x, ast.Name):
                        names.add(x.id)
        elif isinstance(n, ast.AnnAssign) and isinstance(n.target, ast.Name):
            names.add(n.target.id)
    return names


def writes_of(fn: ast.FunctionDef, mod_names):
    """list of (line, description) where fn writes module-level state"""
    out = []
    local = {a.arg for a in fn.args.args + fn.args.kwonlyargs}
    declared_global = set()
    for n in ast.walk(fn):
        if isinstance(n, ast.Global):
            declared_global.update(n.names)
    for n in ast.walk(fn):
        if isinstance(n, (ast.Assign, ast.AnnAssign, ast.AugAssign)):
            targets = n.targets if isinstance(n, ast.Assign) else [n.target]
            for t in targets:
                if isinstance(t, ast.Name):
                    if t.id in declared_global:
                        out.append((n.lineno, f"assigns global {t.id}"))
                    else:
                        local.add(t.id)
    for n in ast.walk(fn):
        if isinstance(n, (ast.Assign, ast.AugAssign, ast.Delete)):
            targets = n.targets if isinstance(n, (ast.Assign, ast.Delete)) else [n.target]
            for t in targets:
                if isinstance(t, (ast.Subscript, ast.Attribute)):
                    root = t.value
                    while isinstance(root, (ast.Subscript, ast.Attribute)):
                        root = root.value
                    if isinstance(root, ast.Name) and root.id in mod_names and (root.id not in local or root.id in declared_global):
                        out.append((n.lineno, f"stores into module-level {root.id}"))
        if isinstance(n, ast.Call) and isinstance(n.func, ast.Attribute) and n.func.attr in MUTATORS:
            root = n.func.value
            while isinstance(root, (ast.Subscript, ast.Attribute)):
                root = root.value
            if isinstance(root, ast.Name) and root.id in mod_names and (root.id not in local or root.id in declared_global):
                out.append((n.lineno, f"mutates module-level {root.id} via .{n.func.attr}()"))
    # mutable default arguments that are mutated
    for a, d in zip(reversed(fn.args.args), reversed(fn.args.defaults)):
        if isinstance(d, (ast.Dict, ast.List, ast.Set)):
            for n in ast.walk(fn):
                if isinstance(n, ast.Call) and isinstance(n.func, ast.Attribute) and n.func.attr in MUTATORS and isinstance(n.func.value, ast.Name) and n.func.value.id == a.arg:
                    out.append((n.lineno, f"mutates mutable default argument {a.arg}"))
    return out


def check(sess: Session, module: str, functions, allowed=()):
    mod_names = module_level_names(module)
    for name in functions:
        try:
            fn = core.find_def(module, name)
        except LookupError as ex:
            sess.unsupported(str(ex))
            continue
        w = [x for x in writes_of(fn, mod_names) if not any(a in x[1] for a in allowed)]
        ob = sess.check("frame", [], z3.BoolVal(not w), 0, label=f"{module}:{name} writes no module-level state")
        if w:
            ob.detail = "; ".join(f"{d} at L{ln}" for ln, d in w[:4])
            ob.formula = ob.detail


def target(prop_modules, title="purity"):
    """prop_modules: list of (module, [function names], allowed-substrings)"""
    def run(sess: Session):
        for module, fns, allowed in prop_modules:
            check(sess, module, fns, allowed)
        sess.assumptions.append("purity beyond module-level state (numpy/scipy/lmfit internals, RNG) is assumed")
    m0, f0, _ = prop_modules[0]
    return (f"{m0}:{title}", m0, f0[0], run)
