"""Purity obligations: the data-flow (EUF) contracts assume that the numerical callees are pure and deterministic.  This
checks the part of that assumption that is visible in the source: a function under this obligation does not write
module-level state (no `global`, no store into / mutation of a module-level name, no mutable default argument it mutates),
so its result cannot depend on earlier calls through the module's own variables."""
from __future__ import annotations

import ast
from typing import Dict, List

import z3

from pyvc import core
from pyvc.core import Session

MUTATORS = {"append", "extend", "insert", "pop", "remove", "clear", "update", "setdefault", "add", "discard", "popitem", "sort", "reverse", "__setitem__"}


def module_level_names(module: str):
    names = set()
    for n in core.module_ast(module).body:
        if isinstance(n, ast.Assign):
            for t in n.targets:
                for x in ast.walk(t):
                    if isinstance(x, ast.Name):
                        names.add(x.id)
        elif isinstance(n, ast.AnnAssign) and isinstance(n.target, ast.Name):
            names.add(n.target.id)
    return names


def writes_of(fn: ast.FunctionDef, mod_names):
    """list of (line, description) where fn writes module-level state"""
    out = []
    local = {a.arg for a in fn.args.args + fn.args.kwonlyargs}
    declared_global = set()
    for n in ast.walk(fn):
        if isinstance(n, ast.Global):
            declared_global.update(n.names)
    for n in ast.walk(fn):
        if isinstance(n, (ast.Assign, ast.AnnAssign, ast.AugAssign)):
            targets = n.targets if isinstance(n, ast.Assign) else [n.target]
            for t in targets:
                if isinstance(t, ast.Name):
                    if t.id in declared_global:
                        out.append((n.lineno, f"assigns global {t.id}"))
                    else:
                        local.add(t.id)
    for n in ast.walk(fn):
        if isinstance(n, (ast.Assign, ast.AugAssign, ast.Delete)):
            targets = n.targets if isinstance(n, (ast.Assign, ast.Delete)) else [n.target]
            for t in targets:
                if isinstance(t, (ast.Subscript, ast.Attribute)):
                    root = t.value
                    while isinstance(root, (ast.Subscript, ast.Attribute)):
                        root = root.value
                    if isinstance(root, ast.Name) and root.id in mod_names and (root.id not in local or root.id in declared_global):
                        out.append((n.lineno, f"stores into module-level {root.id}"))
        if isinstance(n, ast.Call) and isinstance(n.func, ast.Attribute) and n.func.attr in MUTATORS:
            root = n.func.value
            while isinstance(root, (ast.Subscript, ast.Attribute)):
                root = root.value
            if isinstance(root, ast.Name) and root.id in mod_names and (root.id not in local or root.id in declared_global):
                out.append((n.lineno, f"mutates module-level {root.id} via .{n.func.attr}()"))
    # memoising decorators: every caller gets the SAME result object back
    for d in fn.decorator_list:
        dn = d.func if isinstance(d, ast.Call) else d
        name = dn.id if isinstance(dn, ast.Name) else (dn.attr if isinstance(dn, ast.Attribute) else "")
        if name.endswith("cache") or name.endswith("cached_property"):
            out.append((fn.lineno, f"is memoised by @{name} (callers share one result object)"))
    # mutable default arguments that are mutated
    for a, d in zip(reversed(fn.args.args), reversed(fn.args.defaults)):
        if isinstance(d, (ast.Dict, ast.List, ast.Set)):
            for n in ast.walk(fn):
                if isinstance(n, ast.Call) and isinstance(n.func, ast.Attribute) and n.func.attr in MUTATORS and isinstance(n.func.value, ast.Name) and n.func.value.id == a.arg:
                    out.append((n.lineno, f"mutates mutable default argument {a.arg}"))
    return out


TOTAL_ENCODERS = {"tuple", "bytes", "frozenset", "repr", "str", "float", "int", "bool", "complex"}
TOTAL_METHODS = {"tobytes", "tostring", "tolist", "items", "serialize"}


def _in_full(param: str, key: ast.AST) -> bool:
    """does the key contain the WHOLE value of the parameter (not its length, an end point or another projection)?"""
    if isinstance(key, ast.Name):
        return key.id == param
    if isinstance(key, ast.Tuple):
        return any(_in_full(param, e) for e in key.elts)
    if isinstance(key, ast.Call):
        f = key.func
        if isinstance(f, ast.Name) and f.id in TOTAL_ENCODERS and len(key.args) == 1 and not key.keywords:
            return _in_full(param, key.args[0])
        if isinstance(f, ast.Name) and f.id == "tuple" and key.args and isinstance(key.args[0], ast.Call) and isinstance(key.args[0].func, ast.Name) and key.args[0].func.id == "map" and len(key.args[0].args) == 2:
            return _in_full(param, key.args[0].args[1])
        if isinstance(f, ast.Attribute) and f.attr in TOTAL_METHODS and not key.args:
            return _in_full(param, f.value)
    return False


def memo_is_complete(module: str, fn: ast.FunctionDef, cache: str, self_attr: bool = False):
    """Is every write of fn to the cache `cache` (a module-level dict, or `self.<cache>` if self_attr) a memoisation under a key
    that determines the result?  Returns (True, note) / (False, why) / (None, why-not-a-memo-pattern)."""
    me = fn.args.args[0].arg if (self_attr and fn.args.args) else None

    def is_cache(node: ast.AST) -> bool:
        if self_attr:
            return isinstance(node, ast.Attribute) and node.attr == cache and isinstance(node.value, ast.Name) and node.value.id == me
        return isinstance(node, ast.Name) and node.id == cache
    keys: List[ast.AST] = []
    for n in ast.walk(fn):
        if isinstance(n, ast.Global) and cache in n.names and not self_attr:
            return None, f"rebinds the global {cache}"
        if isinstance(n, (ast.Assign, ast.AnnAssign, ast.AugAssign)):
            for t in (n.targets if isinstance(n, ast.Assign) else [n.target]):
                if is_cache(t) and not (self_attr and isinstance(getattr(n, "value", None), (ast.Dict,)) and not n.value.keys):
                    return None, f"rebinds {cache} itself"
                if isinstance(t, ast.Subscript) and is_cache(t.value):
                    if isinstance(n, ast.AugAssign):
                        return None, "updates a cache entry in place"
                    keys.append(t.slice)
        if isinstance(n, ast.Call) and isinstance(n.func, ast.Attribute) and is_cache(n.func.value) and n.func.attr in MUTATORS and n.func.attr != "clear":
            return None, f"mutates {cache} via .{n.func.attr}()"
    if not keys:
        return None, f"no entry of {cache} is stored"
    params = [a.arg for a in fn.args.posonlyargs + fn.args.args + fn.args.kwonlyargs if a.arg not in ("self", "cls")]
    assigned: Dict[str, List[ast.AST]] = {}
    for n in ast.walk(fn):
        if isinstance(n, (ast.Assign, ast.AnnAssign)) and getattr(n, "value", None) is not None:
            for t in (n.targets if isinstance(n, ast.Assign) else [n.target]):
                if isinstance(t, ast.Name):
                    assigned.setdefault(t.id, []).append(n.value)
    used = {x.id for x in ast.walk(fn) if isinstance(x, ast.Name) and isinstance(x.ctx, ast.Load)}
    rebound = {x.id for x in ast.walk(fn) if isinstance(x, ast.Name) and isinstance(x.ctx, (ast.Store, ast.Del))} & set(params)
    if rebound:
        return False, f"parameter(s) {sorted(rebound)} are reassigned inside the function, so their names in the key need not denote the arguments"
    for k in keys:
        k_res = k
        if isinstance(k, ast.Name) and len(assigned.get(k.id, [])) == 1 and k.id not in params:
            k_res = assigned[k.id][0]
        for p_ in params:
            if p_ in used and not _in_full(p_, k_res):
                return False, f"the cache key `{ast.unparse(k_res)[:80]}` does not contain the whole of parameter `{p_}`"
    if not self_attr:
        mod_names = module_level_names(module)
        tree = core.module_ast(module)
        mutable_globals = set()
        for n in tree.body:
            if isinstance(n, (ast.Assign, ast.AnnAssign)) and isinstance(getattr(n, "value", None), (ast.Dict, ast.List, ast.Set, ast.Call, ast.ListComp, ast.DictComp)):
                for t in (n.targets if isinstance(n, ast.Assign) else [n.target]):
                    if isinstance(t, ast.Name):
                        mutable_globals.add(t.id)
        for g in sorted((used & mod_names & mutable_globals) - {cache}):
            return False, f"the result also depends on the module-level table `{g}`, which is not part of the cache key"
    return True, f"memoised under a key that contains every parameter in full"


def check(sess: Session, module: str, functions, allowed=()):
    mod_names = module_level_names(module)
    for name in functions:
        try:
            fn = core.find_def(module, name)
        except LookupError as ex:
            sess.unsupported(str(ex))
            continue
        w = [x for x in writes_of(fn, mod_names) if not any(a in x[1] for a in allowed)]
        notes = []
        if w:
            # a memo cache under a key that determines the result is not hidden state in the sense of the contracts that lean on this
            caches = {d.split("module-level ")[1].split(" ")[0] for _, d in w if "module-level " in d}
            if caches and all("module-level " in d for _, d in w):
                verdicts = {c: memo_is_complete(module, fn, c) for c in caches}
                if all(v[0] is True for v in verdicts.values()):
                    notes = [f"{c}: {v[1]}" for c, v in verdicts.items()]
                    w = []
                else:
                    w = w + [(fn.lineno, f"{c}: {v[1]}") for c, v in verdicts.items() if v[0] is not True]
        ob = sess.check("frame", [], z3.BoolVal(not w), 0, label=f"{module}:{name} writes no module-level state")
        if notes:
            sess.assumptions.append(f"{module}:{name} memoises its result ({'; '.join(notes)}); cached results are assumed not to be modified in place by their users")
        if w:
            ob.detail = "; ".join(f"{d} at L{ln}" for ln, d in w[:4])
            ob.formula = ob.detail


def target(prop_modules, title="purity"):
    """prop_modules: list of (module, [function names], allowed-substrings)"""
    def run(sess: Session):
        for module, fns, allowed in prop_modules:
            check(sess, module, fns, allowed)
        sess.assumptions.append("purity beyond module-level state (numpy/scipy/lmfit internals, RNG) is assumed")
    m0, f0, _ = prop_modules[0]
    return (f"{m0}:{title}", m0, f0[0], run)


def target_modules(modules, title, allowed=()):
    """every module-level function of the given modules writes no module-level state (no result can come from an earlier call)"""
    def run(sess: Session):
        n = 0
        for module in modules:
            try:
                tree = core.module_ast(module)
            except (FileNotFoundError, OSError) as ex:
                sess.unsupported(f"{module}: {ex}")
                continue
            names = [f.name for f in tree.body if isinstance(f, ast.FunctionDef)]
            n += len(names)
            before = len(sess.obligations)
            check(sess, module, names, allowed)
            # the same statement for the module as a whole (a function added later is covered under this name)
            bad = [o for o in sess.obligations[before:] if o.status != "discharged"]
            ob = sess.check("frame", [], z3.BoolVal(not bad), 0, label=f"{module}: no module-level function keeps state between calls")
            if bad:
                ob.detail = "; ".join(f"{o.name.split('frame[')[-1].split(' writes')[0]}: {o.detail[:160]}" for o in bad[:3])
                ob.formula = ob.detail
        sess.check("cover", [], z3.BoolVal(n >= 1), 0, label=f"functions scanned: {n}")
        sess.assumptions.append("purity beyond module-level state (numpy/scipy/lmfit internals, RNG) is assumed")
    return (f"{modules[0]}:{title}", modules[0], "_generate_time_constants" if "utility" in modules[0] else "", run)


OBSERVER = r"^(get_|to_|are_|is_|generate_|_get_|contains$|serialize$|__repr__|__str__|__len__|__iter__|__contains__|__eq__|__hash__|_to_string|_impedance$|_sympy$|to_string$)"
SELF_MUTATORS = {"append", "extend", "insert", "pop", "remove", "clear", "update", "setdefault", "popitem", "sort", "reverse", "add", "discard"}


def observer_writes(fn: ast.FunctionDef):
    """stores through `self` in a method: attribute / item assignment or deletion, and mutating calls on attributes of self"""
    if not fn.args.args:
        return []
    me = fn.args.args[0].arg
    out = []
    for x in ast.walk(fn):
        if isinstance(x, (ast.Attribute, ast.Subscript)) and isinstance(x.ctx, (ast.Store, ast.Del)):
            r = x
            while isinstance(r, (ast.Attribute, ast.Subscript)):
                r = r.value
            if isinstance(r, ast.Name) and r.id == me:
                out.append((x.lineno, f"stores into {ast.unparse(x)[:60]}"))
        if isinstance(x, ast.Call) and isinstance(x.func, ast.Attribute) and x.func.attr in SELF_MUTATORS and not isinstance(x.func.value, ast.Name):
            r = x.func.value
            while isinstance(r, (ast.Attribute, ast.Subscript)):
                r = r.value
            if isinstance(r, ast.Name) and r.id == me:
                out.append((x.lineno, f"mutates {ast.unparse(x.func.value)[:60]} via .{x.func.attr}()"))
    return out


def instance_cache_verdict(module: str, cls: ast.ClassDef, method: ast.FunctionDef, writes):
    """an observer stores through self: is it a cache that cannot go stale?  (True, note) / (False, why)"""
    me = method.args.args[0].arg
    attrs = set()
    for x in ast.walk(method):
        tgt = None
        if isinstance(x, (ast.Attribute, ast.Subscript)) and isinstance(x.ctx, (ast.Store, ast.Del)):
            tgt = x
        elif isinstance(x, ast.Call) and isinstance(x.func, ast.Attribute) and x.func.attr in SELF_MUTATORS:
            tgt = x.func.value
        if tgt is None:
            continue
        r = tgt
        chain = []
        while isinstance(r, (ast.Attribute, ast.Subscript)):
            chain.append(r)
            r = r.value
        if isinstance(r, ast.Name) and r.id == me and chain:
            first = chain[-1]
            if isinstance(first, ast.Attribute):
                attrs.add(first.attr)
    if not attrs:
        return False, "stores through self in a way that is not an attribute cache"
    for a in sorted(attrs):
        # (a) the key determines the cached value
        whole = any(isinstance(x, (ast.Assign, ast.AnnAssign)) and any(isinstance(t, ast.Attribute) and t.attr == a and isinstance(t.value, ast.Name) and t.value.id == me
                                                                        for t in (x.targets if isinstance(x, ast.Assign) else [x.target])) for x in ast.walk(method))
        params = [p_.arg for p_ in method.args.posonlyargs[0:] + method.args.args[1:] + method.args.kwonlyargs]
        if whole:
            used = {x.id for x in ast.walk(method) if isinstance(x, ast.Name) and isinstance(x.ctx, ast.Load)}
            if any(p_ in used for p_ in params):
                return False, f"self.{a} holds one cached value although the result depends on the arguments {params}"
        else:
            ok, why = memo_is_complete(module, method, a, self_attr=True)
            if ok is not True:
                return False, f"self.{a}: {why}"
        # (c) the cached value depends on this object only: no method of a live sub-object (a child found through self) is called,
        #     neither here nor in the methods of self this one calls
        from .frames import _Kinds, PART, COPYING
        methods = {f.name: f for f in cls.body if isinstance(f, ast.FunctionDef)}
        todo, seen_m = [method], set()
        reads = set()
        while todo:
            mth = todo.pop()
            if mth.name in seen_m or not mth.args.args:
                continue
            seen_m.add(mth.name)
            sname = mth.args.args[0].arg
            K = _Kinds(mth, sname, PART)
            for x in ast.walk(mth):
                if isinstance(x, ast.Attribute) and isinstance(x.value, ast.Name) and x.value.id == sname and isinstance(x.ctx, ast.Load) and x.attr != a:
                    reads.add(x.attr)
                if isinstance(x, ast.Call) and isinstance(x.func, ast.Attribute):
                    base = x.func.value
                    if isinstance(base, ast.Name) and base.id == sname:
                        if x.func.attr in methods and len(seen_m) < 6:
                            todo.append(methods[x.func.attr])
                        continue
                    if isinstance(base, ast.Attribute) and isinstance(base.value, ast.Name) and base.value.id == sname:
                        continue                      # a method of one of self's own containers / arrays (self._mask.get, self._elements.index, ...)
                    if K.of(base).split(":")[-1] == PART and x.func.attr not in SELF_MUTATORS and x.func.attr not in ("get", "keys", "values", "items", "copy", "index", "count"):
                        return False, f"the cached value is computed from other objects' state ({ast.unparse(x.func)[:50]} in {mth.name}), whose changes do not invalidate self.{a}"
        # (b) every mutator of the class invalidates the cache on every exit
        for m in [f for f in cls.body if isinstance(f, ast.FunctionDef) and f is not method and f.name != "__init__"]:
            if not m.args.args:
                continue
            mm = m.args.args[0].arg
            mutates_other = False
            for x in ast.walk(m):
                tgt = None
                if isinstance(x, (ast.Attribute, ast.Subscript)) and isinstance(x.ctx, (ast.Store, ast.Del)):
                    tgt = x
                elif isinstance(x, ast.Call) and isinstance(x.func, ast.Attribute) and x.func.attr in SELF_MUTATORS:
                    tgt = x.func.value
                if tgt is None:
                    continue
                r, first = tgt, None
                while isinstance(r, (ast.Attribute, ast.Subscript)):
                    first = r
                    r = r.value
                if isinstance(r, ast.Name) and r.id == mm and isinstance(first, ast.Attribute) and first.attr != a and first.attr in reads:
                    mutates_other = True          # changes something the cached computation reads
            if not mutates_other:
                continue
            inval = None
            for st_ in m.body:
                for x in ast.walk(st_):
                    hit = (isinstance(x, ast.Call) and isinstance(x.func, ast.Attribute) and x.func.attr == "clear" and isinstance(x.func.value, ast.Attribute) and x.func.value.attr == a) or \
                          (isinstance(x, ast.Attribute) and x.attr == a and isinstance(x.ctx, (ast.Store, ast.Del)) and isinstance(x.value, ast.Name) and x.value.id == mm)
                    if hit and (st_ is x or isinstance(st_, (ast.Expr, ast.Assign, ast.AnnAssign, ast.Delete))):
                        inval = st_.lineno if inval is None else min(inval, st_.lineno)
            if inval is None:
                return False, f"{m.name}() changes the object but does not invalidate self.{a}"
            early = [x.lineno for x in ast.walk(m) if isinstance(x, ast.Return) and x.lineno < inval]
            if early:
                return False, f"{m.name}() can return (line {early[0]}) before it invalidates self.{a} (line {inval})"
    return True, f"caches in self.{{{', '.join(sorted(attrs))}}} under a complete key, invalidated by every mutator"


def target_observers(modules, title):
    """observer methods (get_*, to_*, are_*, is_*, generate_*, __repr__/__str__/__len__/__iter__/__contains__, to_string,
    serialize, _impedance, _sympy) of every class in the given modules store nothing through `self`: what they return is a
    function of the object's current state, never of an earlier call.  The one exception that is accepted is a cache that cannot
    go stale: keyed by the whole of every argument, computed from this object's own state only, and invalidated -- before any
    early return -- by every method of the class that changes the object."""
    import re
    pat = re.compile(OBSERVER)

    def run(sess: Session):
        n = 0
        for module in modules:
            try:
                tree = core.module_ast(module)
            except (FileNotFoundError, OSError):
                continue
            for cls in [c for c in tree.body if isinstance(c, ast.ClassDef)]:
                bad = []
                k = 0
                for fn in [f for f in cls.body if isinstance(f, ast.FunctionDef) and (pat.search(f.name) or f.name.startswith("_get"))]:
                    k += 1
                    ws = observer_writes(fn)
                    if not ws:
                        continue
                    ok, why = instance_cache_verdict(module, cls, fn, ws)
                    if ok:
                        sess.assumptions.append(f"{module}:{cls.name}.{fn.name} {why}")
                    else:
                        bad.append(f"{fn.name}: {ws[0][1]} at L{ws[0][0]} -- {why}")
                if k:
                    n += k
                    ob = sess.check("frame", [], z3.BoolVal(not bad), 0, label=f"{module}:{cls.name}: observer methods store nothing through self")
                    if bad:
                        ob.detail = "; ".join(bad[:4])
                        ob.formula = ob.detail
        sess.check("cover", [], z3.BoolVal(n >= 5), 0, label=f"observer methods scanned: {n}")
    return (f"{modules[0]}:{title}", modules[0], "", run)


PICKLE_HOOKS = ("__reduce__", "__reduce_ex__", "__getstate__", "__setstate__", "__getnewargs__", "__getnewargs_ex__")


def target_default_pickling(modules, title="objects cross process boundaries by the default pickle protocol"):
    """What a worker process receives (multi-process fits, Kramers-Kronig and DRT pools, `timeout`) and what it sends back is a
    pickle of the circuit / data set / result.  The classes under contract define no pickling hook of their own and nothing is
    registered with `copyreg`, so the copy is attribute for attribute -- bit-identical floats, same fixed flags, limits and labels --
    and the single-process and multi-process paths see the same objects.  (A hook that, say, goes through the printed description
    code rounds values to the printed precision.)  Decided on the class bodies, re-read on every run."""
    def run(sess: Session):
        n = 0
        for module in modules:
            try:
                tree = core.module_ast(module)
            except (FileNotFoundError, OSError) as ex:
                sess.unsupported(str(ex))
                continue
            hooks = []
            for cls in [c for c in ast.walk(tree) if isinstance(c, ast.ClassDef)]:
                n += 1
                for f in cls.body:
                    if isinstance(f, (ast.FunctionDef, ast.AsyncFunctionDef)) and f.name in PICKLE_HOOKS:
                        hooks.append(f"{cls.name}.{f.name} (L{f.lineno})")
                    if isinstance(f, (ast.Assign, ast.AnnAssign)):
                        for t in (f.targets if isinstance(f, ast.Assign) else [f.target]):
                            if isinstance(t, ast.Name) and t.id in PICKLE_HOOKS:
                                hooks.append(f"{cls.name}.{t.id} (L{f.lineno})")
            uses_copyreg = [f"L{x.lineno}" for x in ast.walk(tree) if (isinstance(x, ast.Import) and any(a.name == "copyreg" for a in x.names)) or (isinstance(x, ast.ImportFrom) and x.module == "copyreg")]
            ob = sess.check("frame", [], z3.BoolVal(not hooks and not uses_copyreg), 0, label=f"{module}: no class defines a pickling hook and nothing is registered with copyreg")
            ob.soft = True          # a design rule: a hook that copies exactly would be harmless -- a violation needs the bounded layer's pickle round trip as witness
            if hooks or uses_copyreg:
                ob.detail = "; ".join(hooks + [f"copyreg used at {u}" for u in uses_copyreg])
                ob.formula = ob.detail
        sess.check("cover", [], z3.BoolVal(n >= 3), 0, label=f"classes examined: {n}")
        sess.assumptions.append("pickle's default protocol copies instance attributes exactly (CPython)")
    return (f"{modules[0]}:{title}", modules[0], "", run)
