"""Purity obligations: the data-flow (EUF) contracts assume that the numerical callees are pure and deterministic.  This
checks the part of that assumption that is visible in the source: a function under this obligation does not write
module-level state (no `global`, no store into / mutation of a module-level name, no mutable default argument it mutates),
so its result cannot depend on earlier calls through the module's own variables."""
from __future__ import annotations

import ast

import z3

from pyvc import core
from pyvc.core import Session

MUTATORS = {"append", "extend", "insert", "pop", "remove", "clear", "update", "setdefault", "add", "discard", "popitem", "sort", "reverse", "__setitem__"}


def module_level_names(module: str):
    names = set()
    for n in core.module_ast(module).body:
        if isinstance(n, ast.Assign):
            for t in n.targets:
                for x in ast.walk(t):
                    if isinstance(x, ast.Name):
                        names.add(x.id)
        elif isinstance(n, ast.AnnAssign) and isinstance(n.target, ast.Name):
            names.add(n.target.id)
    return names


def writes_of(fn: ast.FunctionDef, mod_names):
    """list of (line, description) where fn writes module-level state"""
    out = []
    local = {a.arg for a in fn.args.args + fn.args.kwonlyargs}
    declared_global = set()
    for n in ast.walk(fn):
        if isinstance(n, ast.Global):
            declared_global.update(n.names)
    for n in ast.walk(fn):
        if isinstance(n, (ast.Assign, ast.AnnAssign, ast.AugAssign)):
            targets = n.targets if isinstance(n, ast.Assign) else [n.target]
            for t in targets:
                if isinstance(t, ast.Name):
                    if t.id in declared_global:
                        out.append((n.lineno, f"assigns global {t.id}"))
                    else:
                        local.add(t.id)
    for n in ast.walk(fn):
        if isinstance(n, (ast.Assign, ast.AugAssign, ast.Delete)):
            targets = n.targets if isinstance(n, (ast.Assign, ast.Delete)) else [n.target]
            for t in targets:
                if isinstance(t, (ast.Subscript, ast.Attribute)):
                    root = t.value
                    while isinstance(root, (ast.Subscript, ast.Attribute)):
                        root = root.value
                    if isinstance(root, ast.Name) and root.id in mod_names and (root.id not in local or root.id in declared_global):
                        out.append((n.lineno, f"stores into module-level {root.id}"))
        if isinstance(n, ast.Call) and isinstance(n.func, ast.Attribute) and n.func.attr in MUTATORS:
            root = n.func.value
            while isinstance(root, (ast.Subscript, ast.Attribute)):
                root = root.value
            if isinstance(root, ast.Name) and root.id in mod_names and (root.id not in local or root.id in declared_global):
                out.append((n.lineno, f"mutates module-level {root.id} via .{n.func.attr}()"))
    # mutable default arguments that are mutated
    for a, d in zip(reversed(fn.args.args), reversed(fn.args.defaults)):
        if isinstance(d, (ast.Dict, ast.List, ast.Set)):
            for n in ast.walk(fn):
                if isinstance(n, ast.Call) and isinstance(n.func, ast.Attribute) and n.func.attr in MUTATORS and isinstance(n.func.value, ast.Name) and n.func.value.id == a.arg:
                    out.append((n.lineno, f"mutates mutable default argument {a.arg}"))
    return out


def check(sess: Session, module: str, functions, allowed=()):
    mod_names = module_level_names(module)
    for name in functions:
        try:
            fn = core.find_def(module, name)
        except LookupError as ex:
            sess.unsupported(str(ex))
            continue
        w = [x for x in writes_of(fn, mod_names) if not any(a in x[1] for a in allowed)]
        ob = sess.check("frame", [], z3.BoolVal(not w), 0, label=f"{module}:{name} writes no module-level state")
        if w:
            ob.detail = "; ".join(f"{d} at L{ln}" for ln, d in w[:4])
            ob.formula = ob.detail


def target(prop_modules, title="purity"):
    """prop_modules: list of (module, [function names], allowed-substrings)"""
    def run(sess: Session):
        for module, fns, allowed in prop_modules:
            check(sess, module, fns, allowed)
        sess.assumptions.append("purity beyond module-level state (numpy/scipy/lmfit internals, RNG) is assumed")
    m0, f0, _ = prop_modules[0]
    return (f"{m0}:{title}", m0, f0[0], run)


def target_modules(modules, title, allowed=()):
    """every module-level function of the given modules writes no module-level state (no result can come from an earlier call)"""
    def run(sess: Session):
        n = 0
        for module in modules:
            try:
                tree = core.module_ast(module)
            except (FileNotFoundError, OSError) as ex:
                sess.unsupported(f"{module}: {ex}")
                continue
            names = [f.name for f in tree.body if isinstance(f, ast.FunctionDef)]
            n += len(names)
            check(sess, module, names, allowed)
        sess.check("cover", [], z3.BoolVal(n >= 1), 0, label=f"functions scanned: {n}")
        sess.assumptions.append("purity beyond module-level state (numpy/scipy/lmfit internals, RNG) is assumed")
    return (f"{modules[0]}:{title}", modules[0], "_generate_time_constants" if "utility" in modules[0] else "", run)


OBSERVER = r"^(get_|to_|are_|is_|generate_|_get_|contains$|serialize$|__repr__|__str__|__len__|__iter__|__contains__|__eq__|__hash__|_to_string|_impedance$|_sympy$|to_string$)"
SELF_MUTATORS = {"append", "extend", "insert", "pop", "remove", "clear", "update", "setdefault", "popitem", "sort", "reverse", "add", "discard"}


def observer_writes(fn: ast.FunctionDef):
    """stores through `self` in a method: attribute / item assignment or deletion, and mutating calls on attributes of self"""
    if not fn.args.args:
        return []
    me = fn.args.args[0].arg
    out = []
    for x in ast.walk(fn):
        if isinstance(x, (ast.Attribute, ast.Subscript)) and isinstance(x.ctx, (ast.Store, ast.Del)):
            r = x
            while isinstance(r, (ast.Attribute, ast.Subscript)):
                r = r.value
            if isinstance(r, ast.Name) and r.id == me:
                out.append((x.lineno, f"stores into {ast.unparse(x)[:60]}"))
        if isinstance(x, ast.Call) and isinstance(x.func, ast.Attribute) and x.func.attr in SELF_MUTATORS and not isinstance(x.func.value, ast.Name):
            r = x.func.value
            while isinstance(r, (ast.Attribute, ast.Subscript)):
                r = r.value
            if isinstance(r, ast.Name) and r.id == me:
                out.append((x.lineno, f"mutates {ast.unparse(x.func.value)[:60]} via .{x.func.attr}()"))
    return out


def target_observers(modules, title):
    """observer methods (get_*, to_*, are_*, is_*, generate_*, __repr__/__str__/__len__/__iter__/__contains__, to_string,
    serialize, _impedance, _sympy) of every class in the given modules store nothing through `self`: what they return is a
    function of the object's current state, never of an earlier call (no memoised identifiers, subsets or strings that a later
    mutation leaves stale)"""
    import re
    pat = re.compile(OBSERVER)

    def run(sess: Session):
        n = 0
        for module in modules:
            try:
                tree = core.module_ast(module)
            except (FileNotFoundError, OSError):
                continue
            for cls in [c for c in tree.body if isinstance(c, ast.ClassDef)]:
                bad = []
                k = 0
                for fn in [f for f in cls.body if isinstance(f, ast.FunctionDef) and pat.search(f.name)]:
                    k += 1
                    for ln, d in observer_writes(fn):
                        bad.append(f"{fn.name}: {d} at L{ln}")
                if k:
                    n += k
                    ob = sess.check("frame", [], z3.BoolVal(not bad), 0, label=f"{module}:{cls.name}: its {k} observer methods store nothing through self" if False else f"{module}:{cls.name}: observer methods store nothing through self")
                    if bad:
                        ob.detail = "; ".join(bad[:4])
                        ob.formula = ob.detail
        sess.check("cover", [], z3.BoolVal(n >= 5), 0, label=f"observer methods scanned: {n}")
    return (f"{modules[0]}:{title}", modules[0], "", run)
