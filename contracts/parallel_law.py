"""C01: `Parallel._impedance` for ANY number of branches and any number of frequencies (pyvc.hoare, E5).

The contracts of contracts/c01.py run the real method on classified arrays for up to three branches.  Here the same method is
verified for an arbitrary number of children, at an arbitrary frequency index `k0` of an array of arbitrary length:

    result[k0] = 0                                   if some non-open branch seen is 0 at k0 (a short wins),
               = inf                                 if every branch is open (infinite at all frequencies) and there is a branch,
               = 1 / sum over the non-open branches of 1 / Z_branch[k0]      otherwise,
    0 for an empty connection;

`open` meaning infinite at ALL frequencies; a branch that is infinite at some but not all frequencies is refused
(InfiniteImpedance), which the contract allows.  numpy is modelled at the generic index: an array is its value at k0 plus the
aggregate questions the code asks of it (`where(isinf(Z))[0].size == f.size`, `.size > 0`, `shorted.all()`, `.any()`), linked to
the value at k0 by the obvious facts (all => at k0 => any); `shorted`, `path_impedances` and `results` are ghost state with
those aggregates; both loops (over the children, and over the kept branch impedances) are cut at sidecar invariants stated with
recursively defined partial folds (number of open branches, "some kept branch is 0 at k0", sum of reciprocals)."""
from __future__ import annotations

from typing import Any, Dict, List

import z3

from pyvc import core
from pyvc import hoare as H
from pyvc.core import Session
from pyvc.hoare import NodeS, Rv, child, ctx, is_conn, kind, nchild
from .diagrams import _isinstance, make_no_raise

I, R, B = z3.IntSort(), z3.RealSort(), z3.BoolSort()
val = z3.Function("Z_at_k0", NodeS, R)             # finite value of the branch at the generic index (meaningful when not infinite)
inf_k = z3.Function("isinf_at_k0", NodeS, B)
all_inf = z3.Function("isinf_everywhere", NodeS, B)
any_inf = z3.Function("isinf_somewhere", NodeS, B)
all_zero = z3.Function("zero_everywhere", NodeS, B)
any_zero = z3.Function("zero_somewhere", NodeS, B)
NO = z3.Function("open_branches_among_first", NodeS, I, I)
KZ = z3.Function("some_kept_branch_is_zero_at_k0_among_first", NodeS, I, B)
KS = z3.Function("sum_of_reciprocals_of_kept_branches_among_first", NodeS, I, R)
PSf = z3.Function("sum_of_reciprocals_of_first_entries", z3.ArraySort(I, NodeS), I, R)


def zero_k(c):
    return z3.And(z3.Not(inf_k(c)), val(c) == 0)


def branch_facts(c):
    """how the aggregate questions about a branch array relate to its value at the generic index (the array is not empty)"""
    return [z3.Implies(all_inf(c), inf_k(c)), z3.Implies(inf_k(c), any_inf(c)), z3.Implies(all_inf(c), any_inf(c)),
            z3.Implies(all_zero(c), zero_k(c)), z3.Implies(zero_k(c), any_zero(c)), z3.Implies(all_zero(c), any_zero(c)),
            z3.Implies(all_zero(c), z3.Not(any_inf(c))), z3.Implies(all_inf(c), z3.Not(any_zero(c)))]


def step_facts(n, i):
    c = child(n, i)
    kept = z3.Not(all_inf(c))
    return [NO(n, i + 1) == NO(n, i) + z3.If(all_inf(c), 1, 0),
            KZ(n, i + 1) == z3.Or(KZ(n, i), z3.And(kept, zero_k(c))),
            KS(n, i + 1) == KS(n, i) + z3.If(kept, 1 / val(c), 0)]


class Freq:
    shape = ("shape of f",)
    size = "size of f"

    def __rmul__(self, o):
        return Const(0) if o == 0 else NotImplemented


class Const:
    """an array holding the same value everywhere"""

    def __init__(self, v):
        self.v = v


class ZArr:
    def __init__(self, c):
        self.c = c
        ctx().assume(*branch_facts(c))

    def __eq__(self, o):
        if o == 0:
            return Mask("zero", self.c)
        raise H.Unsupported("comparison of a branch impedance with something other than 0")

    __hash__ = None  # type: ignore

    def __getitem__(self, idx):
        if isinstance(idx, IdxSet) and idx.mask.what == "not shorted":
            return ZArr.__new__(ZArr)._init_restricted(self.c)
        raise H.Unsupported("this subscript of a branch impedance")

    def _init_restricted(self, c):
        self.c = c
        self.restricted = True
        return self

    def __rtruediv__(self, o):
        if o == 1:
            return Rec(self.c, getattr(self, "restricted", False))
        return NotImplemented


class Rec:
    """1 / Z (possibly restricted to the non-shorted indices)"""

    def __init__(self, c, restricted):
        self.c, self.restricted = c, restricted


class Mask:
    def __init__(self, what, c=None, sh=None):
        self.what, self.c, self.sh = what, c, sh


class Size:
    def __init__(self, mask):
        self.mask = mask

    def __eq__(self, o):
        if o != Freq.size:
            raise H.Unsupported("size compared with something other than f.size")
        m = self.mask
        return ctx().decide({"inf": all_inf, "zero": all_zero}[m.what](m.c), f"{m.what} at all frequencies")

    def __gt__(self, o):
        if o != 0:
            raise H.Unsupported("size compared with something other than 0")
        m = self.mask
        return ctx().decide({"inf": any_inf, "zero": any_zero}[m.what](m.c), f"{m.what} at some frequency")

    __hash__ = None  # type: ignore


class IdxSet:
    def __init__(self, mask):
        self.mask = mask

    @property
    def size(self):
        return Size(self.mask)


class Shorted:
    """the boolean array `shorted`: its value at k0 and the two aggregates"""

    def __init__(self):
        c = ctx()
        self.sh = z3.BoolVal(False)
        self.all_, self.any_ = z3.BoolVal(False), z3.BoolVal(False)
        c.state["shorted"] = self

    def __setitem__(self, idx, v):
        if not (isinstance(idx, IdxSet) and idx.mask.what == "zero" and v is True):
            raise H.Unsupported("this update of `shorted`")
        c = ctx()
        n = next(c.fresh)
        cnode = idx.mask.c
        new_sh = z3.Or(self.sh, zero_k(cnode))
        a, y = z3.Bool(f"shorted.all!{n}"), z3.Bool(f"shorted.any!{n}")
        c.assume(z3.Implies(a, new_sh), z3.Implies(new_sh, y), z3.Implies(self.any_, y), z3.Implies(any_zero(cnode), y), z3.Implies(y, z3.Or(self.any_, any_zero(cnode))),
                 z3.Implies(self.all_, a))
        self.sh, self.all_, self.any_ = new_sh, a, y

    def all(self):
        return ctx().decide(self.all_, "shorted at all frequencies")

    def any(self):
        return ctx().decide(self.any_, "shorted at some frequency")

    def __invert__(self):
        return Mask("not shorted", sh=self)

    def snapshot(self):
        return (self.sh, self.all_, self.any_)

    def havoc(self):
        c = ctx()
        n = next(c.fresh)
        self.sh, self.all_, self.any_ = z3.Bool(f"shorted.k0!{n}"), z3.Bool(f"shorted.all!{n}"), z3.Bool(f"shorted.any!{n}")
        c.assume(z3.Implies(self.all_, self.sh), z3.Implies(self.sh, self.any_))


class PathList(H.IndexedSeq):
    """`path_impedances`: the kept branch impedances, in order; ghost `psum` = sum of their reciprocals at k0"""

    def __init__(self, items=()):
        c = ctx()
        self.L = z3.IntVal(0)
        self.ent = z3.K(I, z3.Const("no_branch", NodeS))
        self.psum = z3.RealVal(0)
        c.state["path_impedances"] = self

    def append(self, z):
        if not isinstance(z, ZArr):
            raise H.Unsupported("something that is not a branch impedance is kept")
        self.ent = z3.Store(self.ent, self.L, z.c)
        self.L = z3.simplify(self.L + 1)
        self.psum = self.psum + 1 / val(z.c)

    def length(self):
        return Rv(self.L)

    def item(self, i):
        return ZArr(z3.Select(self.ent, H._z(i)))

    def snapshot(self):
        return (self.L, self.ent, self.psum)

    def havoc(self):
        c = ctx()
        n = next(c.fresh)
        self.L, self.ent, self.psum = z3.Int(f"paths.len!{n}"), z3.Const(f"paths.ent!{n}", z3.ArraySort(I, NodeS)), z3.Real(f"paths.sum!{n}")
        c.assume(self.L >= 0)


class Results:
    """`results`: its value at k0"""

    def __init__(self, v=None):
        self.v = z3.RealVal(0) if v is None else v
        ctx().state["results"] = self

    def _idx_ok(self, idx):
        return isinstance(idx, IdxSet) and idx.mask.what == "not shorted"

    def __getitem__(self, idx):
        if self._idx_ok(idx):
            return Part(self, idx.mask.sh)
        raise H.Unsupported("this subscript of `results`")

    def __setitem__(self, idx, v):
        if not (self._idx_ok(idx) and isinstance(v, Part) and v.owner is self):
            raise H.Unsupported("this update of `results`")
        self.v = z3.If(z3.Not(idx.mask.sh.sh), v.v, self.v)

    def __iadd__(self, o):
        if isinstance(o, Rec) and not o.restricted:
            self.v = self.v + 1 / val(o.c)
            return self
        if isinstance(o, ZArr) and not getattr(o, "restricted", False):
            self.v = self.v + val(o.c)
            return self
        raise H.Unsupported("this in-place sum into `results`")

    def __rtruediv__(self, o):
        if o == 1:
            r = Results.__new__(Results)
            r.v = 1 / self.v
            return r
        return NotImplemented

    def snapshot(self):
        return self.v

    def havoc(self):
        self.v = z3.Real(f"results.k0!{next(ctx().fresh)}")


class Part:
    """results[non_shorted_indices]: the value at k0 if k0 is not shorted"""

    def __init__(self, owner, sh, v=None):
        self.owner, self.sh, self.v = owner, sh, owner.v if v is None else v

    def __iadd__(self, o):
        if isinstance(o, Rec) and o.restricted:
            return Part(self.owner, self.sh, self.v + 1 / val(o.c))
        if isinstance(o, ZArr) and getattr(o, "restricted", False):
            return Part(self.owner, self.sh, self.v + val(o.c))
        raise H.Unsupported("this in-place sum into a part of `results`")

    def __rtruediv__(self, o):
        if o == 1:
            return Part(self.owner, self.sh, 1 / self.v)
        return NotImplemented


def target_parallel_any_number():
    def run(sess: Session):
        sess.assumptions.append("numpy at a generic index: an array is its value at k0 and the answers to the aggregate questions the code asks (size of where(...), all(), any()), "
                                "linked by all => at k0 => any; arithmetic on finite non-zero values is real arithmetic; `path_impedances` keeps the sum of reciprocals of its entries by construction")
        space = H.NodeSpace(["Container"], generic_element="PlainElement")
        Container = space.element_classes["Container"]
        ns = H.base_namespace(space)
        ns["isinstance"] = _isinstance(space)
        ns["Container"] = Container
        st: Dict[str, Any] = {}
        counts = {"paths": 0, "returns": {}}

        def impedance(self, f, **kw):
            ctx().check("Parallel._impedance: every branch is evaluated at the caller's frequencies", z3.BoolVal(f is st["f"]), "call-pre")
            if isinstance(self, space.Element):
                is_cont = space.class_of(self) is Container
                want_kw = {"values of": self.t.sexpr(), **({"subcircuits of": self.t.sexpr()} if is_cont else {})}
                ctx().check("Parallel._impedance: an element is evaluated with its own values (a container also with its own sub-circuits)", z3.BoolVal(kw == want_kw), "call-pre")
            st["last"] = self.t
            return ZArr(self.t)
        space.Connection._impedance = impedance
        space.Element._impedance = impedance
        space.Element.get_values = lambda self: {"values of": self.t.sexpr()}
        space.Element.get_subcircuits = lambda self: {"subcircuits of": self.t.sexpr()}

        class InfiniteImpedance(Exception):
            pass

        def full(shape, fill, dtype=None):
            if fill is False:
                return Shorted()
            return Const("inf") if isinstance(fill, complex) and fill.real == float("inf") else Const(fill)
        ns.update({"full": full, "zeros": lambda *a, **k: Results(), "isinf": lambda z: Mask("inf", z.c), "where": lambda m: (IdxSet(m),), "bool_": "bool_",
                   "ComplexImpedance": "ComplexImpedance", "InfiniteImpedance": InfiniteImpedance, "complex": complex, "float": float})
        specs = H.LoopSpecs()
        vc = H.VC(specs, space)
        vc.factories = {"path_impedances": lambda items: PathList(items)}
        label = "Parallel._impedance"

        @specs.add(label, 1)
        def _(env):
            n = st["n"]
            S, P = ctx().state["shorted"], ctx().state["path_impedances"]
            no = H._z(env.loc["num_open_paths"])
            return [("the count of open branches is that of the visited branches", no == NO(n, env.i)),
                    ("`shorted` at k0: some kept branch visited is 0 there", S.sh == KZ(n, env.i)),
                    ("not yet shorted everywhere (else the method has returned)", z3.Not(S.all_)),
                    ("the kept impedances sum (reciprocally) to the partial fold", P.psum == KS(n, env.i)),
                    ("one kept impedance per non-open branch visited", z3.And(P.L >= 0, P.L == env.i - NO(n, env.i))),
                    ("no branch visited is infinite at some frequencies only (it would have been refused)",
                     z3.Implies(z3.And(0 <= st["j0"], st["j0"] < env.i), z3.Implies(any_inf(child(n, st["j0"])), all_inf(child(n, st["j0"])))))]

        def loop2(restricted):
            def inv(env):
                P, Rs, S = ctx().state["path_impedances"], ctx().state["results"], ctx().state["shorted"]
                L, ent, psum = st["P_final"]
                part = PSf(ent, env.i)
                if restricted:
                    ok = z3.If(z3.Not(S.sh), env.loc["results"].v == part, env.loc["results"].v == 0)
                else:
                    ok = env.loc["results"].v == part
                return [("`results` at k0 is the sum of the reciprocals of the kept impedances visited (0 where shorted)", ok),
                        ("the kept impedances and `shorted` are only read", z3.And(P.L == L, P.ent == ent, S.sh == st["S_final"][0], S.any_ == st["S_final"][2]))]
            return inv
        specs.inv[(label, 2)] = loop2(True)
        specs.inv[(label, 3)] = loop2(False)
        # entering the second phase: remember the final list, and state what the list's ghost sum is
        orig_enter = vc.loop_enter

        def enter(lid, seq, loc):
            if lid in ((label, 2), (label, 3)):
                c = ctx()
                P, S = c.state["path_impedances"], c.state["shorted"]
                st["P_final"], st["S_final"] = P.snapshot(), S.snapshot()
                j = z3.Int("j")
                c.assume(PSf(P.ent, 0) == 0, PSf(P.ent, P.L) == P.psum,
                         z3.ForAll([j], z3.Implies(z3.And(0 <= j, j < P.L), PSf(P.ent, j + 1) == PSf(P.ent, j) + 1 / val(z3.Select(P.ent, j))), patterns=[PSf(P.ent, j + 1)]))
            return orig_enter(lid, seq, loc)
        vc.loop_enter = enter
        real = H.build_function(core.find_def("circuit/parallel", label), ns, vc, label=label, module="circuit/parallel")
        no_raise = make_no_raise("circuit/parallel")

        def go(c):
            counts["paths"] += 1
            t = z3.Const("node", NodeS)
            i0 = z3.Int("i0")
            c.assume(kind(t) == H.K_PARALLEL, z3.Not(H.is_wire(t)), nchild(t) >= 0, NO(t, 0) == 0, z3.Not(KZ(t, 0)), KS(t, 0) == 0)
            c.assume(z3.ForAll([i0], z3.Implies(z3.And(0 <= i0, i0 < nchild(t)), z3.And(*step_facts(t, i0))), patterns=[child(t, i0)]))
            c.assume(z3.ForAll([i0], z3.Implies(z3.And(0 <= i0, i0 < nchild(t)), z3.Or(is_conn(child(t, i0)), space.elem_range(child(t, i0)))), patterns=[child(t, i0)]))
            j0 = z3.Int("j0")
            # (what the partial folds say about the whole: monotone)
            c.assume(z3.ForAll([i0], z3.Implies(z3.And(0 <= i0, i0 <= nchild(t), KZ(t, i0)), KZ(t, nchild(t))), patterns=[KZ(t, i0)]))
            n = space.node_of(t)
            f = Freq()
            st.update(n=t, f=f, j0=j0)
            st["last"] = None

            def call():
                try:
                    return ("returned", real(n, f))
                except InfiniteImpedance:
                    return ("refused", None)
            ok, res = no_raise(label, call)
            if ok and res[0] == "refused":
                last = st["last"]
                c.check(f"{label}: InfiniteImpedance is raised only for a branch that is infinite at some frequencies but not at all of them",
                        z3.BoolVal(False) if last is None else z3.And(any_inf(last), z3.Not(all_inf(last))), "post")
                counts["returns"]["refused"] = counts["returns"].get("refused", 0) + 1
                return
            out = res[1] if ok else None
            if not ok:
                return
            c.canary(f"{label}, at return")
            N = nchild(t)
            law_zero, law_open = KZ(t, N), z3.And(z3.Not(KZ(t, N)), NO(t, N) == N, N >= 1)
            if isinstance(out, Const) and out.v == 0:
                counts["returns"]["zero"] = counts["returns"].get("zero", 0) + 1
                c.check(f"{label}: 0 everywhere is returned only for an empty connection or when a kept branch is 0 at the generic index (a short wins)", z3.Or(N == 0, law_zero), "post")
            elif isinstance(out, Const) and out.v == "inf":
                counts["returns"]["open"] = counts["returns"].get("open", 0) + 1
                c.check(f"{label}: infinity everywhere is returned exactly when every branch is open, and there is one", z3.And(NO(t, N) == N, N >= 1), "post")
                c.check(f"{label}: a result for all branches means no branch was infinite at some frequencies only", z3.Implies(z3.And(0 <= j0, j0 < N), z3.Implies(any_inf(child(t, j0)), all_inf(child(t, j0)))), "post")
            elif isinstance(out, Results):
                counts["returns"]["finite"] = counts["returns"].get("finite", 0) + 1
                c.check(f"{label}: at the generic index the result is 0 where a kept branch is 0, else the reciprocal of the sum of the reciprocals of the non-open branches",
                        z3.And(z3.Not(law_open), out.v == z3.If(law_zero, 0, 1 / KS(t, N))), "post")
                c.check(f"{label}: a result for all branches means no branch was infinite at some frequencies only", z3.Implies(z3.And(0 <= j0, j0 < N), z3.Implies(any_inf(child(t, j0)), all_inf(child(t, j0)))), "post")
            else:
                c.check(f"{label} returns an array", z3.BoolVal(False), "post")
        H.explore(sess, H.tree_axioms(), go)
        r = counts["returns"]
        sess.check("cover", [], z3.BoolVal(counts["paths"] >= 20 and all(r.get(k, 0) >= 1 for k in ("zero", "open", "finite", "refused"))), 0, label=f"paths executed: {counts['paths']}, kinds of result reached: {sorted(r)}")
    return ("circuit/parallel:Parallel._impedance for any number of branches", "circuit/parallel", "Parallel._impedance", run)


def targets():
    return [target_parallel_any_number()]
