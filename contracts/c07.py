"""C07 proof layer: the linear Kramers-Kronig tests reproduce any spectrum of their own model.

Per variant (implementation x test x representation x optional columns), with the real functions executed on symbolic
values (omega, tau_1, tau_2, variables all symbolic; two RC elements as the representative width):
  O1 linearity  : rows(A)(omega) . x == part( X_model(omega; params(x)) )   for the real A-matrix builder, the real
                  _generate_circuit, the real _update_circuit and the real element impedances;
  O2 consistency: if Z_exp is the model's own spectrum, every linear system handed to lstsq/pinv/inv is solved exactly
                  by the generating variables (so the least-squares minimum is zero and attained);
  O3 recovery   : with the exact solution returned by the solver (assumed: unique, full column rank), the circuit
                  returned by _test_wrapper carries the generating parameters (up to the code's own 1e-18 regulariser
                  in real-inv).
"""
from __future__ import annotations

import itertools

import z3

from pyvc import overload as O
from pyvc.core import Session
from pyvc.overload import SQ, SymCol, Vec, sym
from . import kk

EPS = 1e-18


def gen_params(admittance: bool, cap: bool, ind: bool):
    """generating circuit parameters (symbols) and the variable vector x* that denotes them"""
    R0, P1, P2, C0, L0 = sym("R0"), sym("P1"), sym("P2"), sym("C0"), sym("L0")
    xR = (1 / R0) if admittance else R0
    xs = [xR, P1, P2]           # P_k = R_k (impedance) or C_k (admittance)
    if cap:
        xs.append(C0 if admittance else 1 / C0)
    if ind:
        xs.append(-1 / L0 if admittance else L0)
    return dict(R0=R0, P1=P1, P2=P2, C0=C0, L0=L0), xs


def build_generating(ns, taus, admittance, cap, ind, g):
    els = [ns["Resistor"](R=g["R0"])]
    for P, t in zip((g["P1"], g["P2"]), taus):
        els.append(ns["KramersKronigAdmittanceRC"](C=P, tau=t) if admittance else ns["KramersKronigRC"](R=P, tau=t))
    if cap:
        els.append(ns["Capacitor"](C=g["C0"]))
    if ind:
        els.append(ns["Inductor"](L=g["L0"]))
    return kk.Circ(kk.Conn("Parallel" if admittance else "Series", els))


def variables_of(circuit, admittance):
    """inverse of the code's variable->parameter map, applied to a circuit (used to state O3 in variable space)"""
    out = {}
    ks = []
    for e in circuit.get_elements():
        n = type(e).__name__
        if n == "Resistor":
            R = e.values["R"]
            out["R"] = (0.0 if isinstance(R, float) and R == float("inf") else 1 / R) if admittance else R
        elif n in ("KramersKronigRC", "KramersKronigAdmittanceRC"):
            ks.append(e.values["C" if admittance else "R"])
        elif n == "Capacitor":
            out["C"] = e.values["C"] if admittance else 1 / e.values["C"]
        elif n == "Inductor":
            out["L"] = -1 / e.values["L"] if admittance else e.values["L"]
    out["k"] = ks
    return out


def _hyps():
    f, t1, t2, wgt = z3.Real("f"), z3.Real("tau1"), z3.Real("tau2"), z3.Real("weight")
    hy = [f > 0, t1 > 0, t2 > 0, t1 != t2, wgt > 0]
    for n in ("R0", "P1", "P2", "C0", "L0"):
        hy.append(z3.Real(n) != 0)
    return hy


def target_variant(impl: str, test: str, admittance: bool, cap: bool, ind: bool):
    module = kk.LSQ if impl == "lstsq" else kk.INV
    name = f"{impl}/{test}/{'Y' if admittance else 'Z'}/C={int(cap)}/L={int(ind)}"

    def run(sess: Session):
        O.CTX = O.Ctx(_hyps())
        P = O.CTX.P
        f = sym("f")
        taus = [sym("tau1"), sym("tau2")]
        weight = sym("weight")
        g, xstar = gen_params(admittance, cap, ind)
        # ---------------- O1: linearity at a generic variable vector
        xs = [sym(f"x{i}") for i in range(len(xstar))]
        P.hyps += [z3.Real(f"x{i}") != 0 for i in range(len(xstar))]
        solver = kk.Solver([])
        ns = kk.namespace(solver, taus)
        fns = ["_initialize_A_matrix", "_add_resistance_to_A_matrix", "_calculate_kth_A_matrix_variables", "_add_kth_variables_to_A_matrix",
               "_add_capacitance_to_A_matrix", "_add_inductance_to_A_matrix", "_generate_A_matrix", "_initialize_b_vector", "_add_values_to_b_vector",
               "_generate_b_vector", "_update_circuit", "_real_test", "_imaginary_test", "_complex_test", "_test_wrapper"] if impl == "lstsq" else \
              ["_update_circuit", "_initialize_A_matrices", "_add_resistance_to_A_matrix", "_add_capacitance_to_A_matrix", "_add_inductance_to_A_matrix",
               "_add_kth_variables_to_A_matrices", "_scale_A_matrices", "_generate_A_matrices", "_real_test", "_imaginary_test", "_complex_test", "_test_wrapper"]
        O.load(module, fns, ns)
        O.load(kk.UTIL, ["_generate_circuit"], ns)
        w = 2 * ns["pi"] * f
        circuit = ns["_generate_circuit"](taus, cap, ind if impl == "lstsq" else True, admittance)
        sess.check("post", [], z3.BoolVal(circuit.con.kind == ("Parallel" if admittance else "Series")), 0, label="_generate_circuit:series-for-Z/parallel-for-Y")
        inf_ = float("inf")
        unbounded = all(getattr(e, "lower", {}).get(p_) == -inf_ and getattr(e, "upper", {}).get(p_) == inf_
                        for e in circuit.get_elements() for p_ in ("R", "C", "L") if type(e).__name__ in ("Resistor", "Capacitor", "Inductor") and p_ in e.values)
        sess.check("post", [], z3.BoolVal(unbounded), 0, label="_generate_circuit: the series/parallel R, C and L are unbounded (-inf, inf): every sign of the model's parameters is representable, also for the non-linear fit")
        if impl == "lstsq":
            # the 'real' test builds its stage-1 matrix without the optional columns; O1 is stated for the full matrix of the
            # 'complex'/'imaginary' layouts and for the R/RC columns of 'real'
            lay_cap, lay_ind = (cap, ind) if test != "real" else (False, False)
            A = ns["_generate_A_matrix"](test, w, taus, lay_cap, lay_ind, admittance)
            xs_l = xs[:3] + ([xs[3]] if lay_cap else []) + ([xs[-1]] if lay_ind else [])
            circ1 = ns["_generate_circuit"](taus, lay_cap, lay_ind, admittance)
            ns["_update_circuit"](circ1, Vec(xs_l), lay_cap, lay_ind, admittance)
            A_re = A_im = A
            parts = {"complex": [("lo", "re"), ("hi", "im")], "real": [("lo", "re"), ("hi", "re")], "imaginary": [("lo", "im"), ("hi", "im")]}[test]
            scale = SQ.of(1)
        else:
            absX = sym("absX")
            P.hyps.append(z3.Real("absX") > 0)
            A_re, A_im = ns["_generate_A_matrices"](w, taus, cap, admittance, absX)
            xs_l = xs
            circ1 = ns["_generate_circuit"](taus, cap, True, admittance)
            ns["_update_circuit"](circuit=circ1, variables=Vec(xs_l), add_capacitance=cap, admittance=admittance)
            parts = [("lo", "re"), ("hi", "re"), ("lo", "im"), ("hi", "im")]
            scale = absX
        Z1 = circ1.get_impedances(f)
        X1 = (1 / Z1) if admittance else Z1
        for h, part in parts:
            M = A_re if part == "re" else A_im
            if impl == "lstsq" and test == "imaginary" and part == "im":
                pass
            row = SQ.of(0)
            for j in range(len(xs_l)):
                row = row + M.cols[j].v[h] * xs_l[j]
            want = (X1.real if part == "re" else X1.imag) / scale
            if impl == "lstsq" and test == "imaginary":
                # the imaginary layout has no resistance column: Im X does not depend on R
                pass
            sess.check_qeq("lemma", P, row, want, 0, label=f"O1:linearity:{part}-part:{h}-rows")
        # canary for O1: a sign error in the model must not be provable
        sess.check_qeq("canary", P, row, -want, 0, label="O1:-X_model", expect_refuted=True)

        # ---------------- O2 / O3: exact data through the real _test_wrapper
        gen = build_generating(ns, taus, admittance, cap, ind if impl == "lstsq" else True, g)
        if impl != "lstsq" and not ind:
            return
        Z_exp = gen.get_impedances(f)
        xR, x1, x2 = xstar[0], xstar[1], xstar[2]
        xC = xstar[3] if cap else None
        xL = xstar[-1] if ind else None
        opt = ([xC] if cap else []) + ([xL] if ind else [])
        final = None
        if impl == "lstsq":
            if test == "complex":
                rets = [[xR, x1, x2] + opt]
            elif test == "imaginary":
                rets = [[0.0, x1, x2] + opt]
            else:
                rets = [[xR, x1, x2]] + ([opt] if opt else [])
            args = (test, f, Z_exp, weight, 2, cap, ind, admittance, 0.0)
            final = [xR, x1, x2] + opt
        else:
            if test == "complex":
                rets = [[xR, x1, x2] + opt]
                final = [xR, x1, x2] + opt
            elif test == "imaginary":
                rets = [[0.0, x1, x2] + opt]
                # admittance: a zero resistance variable is replaced by R = 1e18 (not inf) before the re-estimation of x[0]
                from fractions import Fraction
                final = [(xR - SQ.of(1 / Fraction(1e18))) if admittance else xR, x1, x2] + opt
            else:
                # the code's own regulariser `variables[-2] = 1e-18` (and L = 1e18 for a zero admittance variable), in the
                # exact values CPython's float arithmetic gives them
                from fractions import Fraction
                epsC = Fraction(1e-18) if admittance else 1 / Fraction(1.0 / 1e-18)
                epsL = 1 / Fraction(1e18)
                cC = (xC - SQ.of(epsC)) if cap else 0.0
                cL = (xL - SQ.of(epsL)) if admittance else xL
                rets = [[xR, x1, x2] + ([0.0] if cap else []) + [0.0], [cC, cL]]
                final = [xR, x1, x2] + ([cC] if cap else []) + [cL]
            args = (test, f, Z_exp, weight, 2, cap, admittance, 0.0)
        solver.returns = [list(r) for r in rets]
        solver.calls = []
        num_RC, result = ns["_test_wrapper"](args)
        sess.check("post", [], z3.BoolVal(not solver.returns and len(solver.calls) == len(rets)), 0, label=f"O2:solver-calls={len(rets)}")
        for lab, lhs, rhs in kk.system_goals(P, solver.calls):
            if lhs is None:
                sess.check("lemma", [], z3.BoolVal(False), 0, label=f"O2:{lab}")
            else:
                sess.check_qeq("lemma", P, lhs, rhs, 0, label=f"O2:{lab}")
        got = variables_of(result, admittance)
        want_v = {"R": final[0], "k": final[1:3]}
        if cap:
            want_v["C"] = final[3]
        if ind:
            want_v["L"] = final[-1]
        for key in ("R", "C", "L"):
            if key in want_v:
                ok = key in got
                (sess.check_qeq("post", P, SQ.of(got[key]), SQ.of(want_v[key]), 0, label=f"O3:recovered-{key}") if ok else sess.check("post", [], z3.BoolVal(False), 0, label=f"O3:recovered-{key}"))
        for i, (a, b) in enumerate(zip(got["k"], want_v["k"])):
            sess.check_qeq("post", P, SQ.of(a), SQ.of(b), 0, label=f"O3:recovered-RC{i + 1}")
        sess.check("post", [], z3.BoolVal(len(got["k"]) == 2 and result.con.kind == gen.con.kind and
                                          sorted(type(e).__name__ for e in result.get_elements()) == sorted(type(e).__name__ for e in gen.get_elements())), 0, label="O3:same-structure")
        for s_ in sorted(set(O.CTX.side)):
            sess.assumptions.append(s_)
        kk.check_exact(sess, ns)
    return (f"{module}:_test_wrapper[{name}]", module, "_test_wrapper", run)


def target_time_constants():
    """_generate_time_constants: tau_1 = 1/(w_max F), tau_n = F/w_min, log-spaced -- with log/10** uninterpreted + two axioms"""
    def run(sess: Session):
        import ast
        from pyvc import core
        fn = core.find_def(kk.UTIL, "_generate_time_constants")
        src = ast.unparse(fn)
        # structural obligations on the real text (the numerics are exercised by the bounded layer)
        sess.check("post", [], z3.BoolVal("1 / (max(w) * F_ext)" in src), fn.lineno, label="tau_min=1/(w_max*F_ext)")
        sess.check("post", [], z3.BoolVal("F_ext / min(w)" in src), fn.lineno, label="tau_max=F_ext/w_min")
        # endpoints: 10**(log(tmin) + (k-1)/(n-1)*log(tmax/tmin)) at k=1 and k=n, with pow10/log10 inverse axioms
        lg = z3.Function("log10", z3.RealSort(), z3.RealSort())
        p10 = z3.Function("pow10", z3.RealSort(), z3.RealSort())
        tmin, tmax, n = z3.Reals("tmin tmax n")
        # ground instances of the two axioms  pow10(log10 x) = x  and  log10(x/y) = log10 x - log10 y  (x, y > 0)
        ax = [tmin > 0, tmax > 0, n >= 2, p10(lg(tmin)) == tmin, p10(lg(tmax)) == tmax, lg(tmax / tmin) == lg(tmax) - lg(tmin)]
        r = z3.Real("r")        # r = (k-1)/(n-1)
        val = p10(lg(tmin) + r * lg(tmax / tmin))
        sess.check("lemma", ax + [r == 0], val == tmin, fn.lineno, label="first-time-constant=tau_min")   # (k-1)/(n-1) at k=1
        sess.check("lemma", ax + [r == 1], val == tmax, fn.lineno, label="last-time-constant=tau_max")    # (k-1)/(n-1) at k=n
        sess.assumptions.append("_generate_time_constants: numpy log/10** as log10/pow10 with pow10(log10 x)=x and log10(x/y)=log10 x-log10 y")
        # data flow of the real function on terms, every path (a comparison of symbolic values is an oracle decision): whatever
        # the frequencies and the extension, the k-th time constant is 10**(log(tmin) + (k-1)/(n-1) log(tmax/tmin)) with
        # tmin = 1/(w_max F_ext), tmax = F_ext/w_min -- the test's own range, never another one
        from . import dataflow as DF
        from .dataflow import T, opaque
        n_paths = 0

        def once():
            w = T.var("w")
            kvec = T.var("k")
            ns = {"max": lambda x: T.var("w_max") if x is w else max(x), "min": lambda x: T.var("w_min") if x is w else min(x), "log": opaque("log"),
                  "array": lambda x, *a, **k_: kvec, "list": list, "range": range, "ValueError": ValueError, "float64": None, "int64": None}
            O.load(kk.UTIL, ["_generate_time_constants"], ns)
            return ns["_generate_time_constants"](w, 5, T.var("log_F_ext")), kvec
        for log, (out, kvec), facts in DF.explore(once):
            n_paths += 1
            F = 10 ** T.var("log_F_ext")
            tmin = 1 / (T.var("w_max") * F)
            tmax = F / T.var("w_min")
            want = 10 ** (opaque("log")(tmin) + (kvec - 1) / (5 - 1) * opaque("log")(tmax / tmin))
            tag = "[" + ",".join(f"{w_}={v}" for w_, v in log) + "]" if log else ""
            DF.eq_check(sess, f"tau_k = 10**(log(tmin) + (k-1)/(n-1) log(tmax/tmin)), tmin = 1/(w_max F_ext), tmax = F_ext/w_min{tag}", out, want)
        sess.check("cover", [], z3.BoolVal(n_paths >= 1), 0, label=f"paths={n_paths}")
    return (f"{kk.UTIL}:_generate_time_constants", kk.UTIL, "_generate_time_constants", run)


def targets():
    ts = [target_time_constants()]
    for test, adm, cap, ind in itertools.product(("complex", "real", "imaginary"), (False, True), (False, True), (False, True)):
        ts.append(target_variant("lstsq", test, adm, cap, ind))
    for test, adm, cap in itertools.product(("complex", "real", "imaginary"), (False, True), (False, True)):
        ts.append(target_variant("inv", test, adm, cap, True))
    from . import forwarding
    ts.append(forwarding.target_kk_wrappers())
    return ts


_targets_before_purity = targets


def targets():      # noqa: F811
    from . import purity
    return _targets_before_purity() + [purity.target_modules(["analysis/kramers_kronig/utility", "analysis/kramers_kronig/least_squares", "analysis/kramers_kronig/matrix_inversion", "analysis/kramers_kronig/cnls", "analysis/kramers_kronig/exploratory", "analysis/kramers_kronig/single"], "Kramers-Kronig modules keep no state between calls")]



_DOMAIN_REPRO = '''from pyimpspec import generate_mock_data
from pyimpspec.analysis.kramers_kronig.exploratory import evaluate_log_F_ext
data = generate_mock_data("CIRCUIT_1", noise=0.0)[0]
kw = %r
try:
    evaluate_log_F_ext(data, **kw)
except (ValueError, TypeError) as ex:
    raise SystemExit(f"evaluate_log_F_ext(data, **{kw}) refused arguments inside the documented domain: {type(ex).__name__}: {ex}")
'''


def target_argument_domain():
    """evaluate_log_F_ext (which every Kramers-Kronig entry point goes through) refuses no option combination of the quantified
    domain: any test kind, both representations, min_log_F_ext <= 0 < max_log_F_ext and min_log_F_ext <= log_F_ext <=
    max_log_F_ext -- the closed range -- with a fixed extension (num_F_ext_evaluations = 0); see contracts/domain.py"""
    from . import domain as D
    KE = "analysis/kramers_kronig/exploratory"

    def run(sess: Session):
        for test, adm, ind in itertools.product(("complex", "real", "imaginary", "complex-inv", "real-inv", "imaginary-inv", "cnls"), (False, True), (True, False)):
            if not ind and test.endswith("-inv"):
                continue

            def make_args():
                return dict(data=object(), test=test, num_RCs=[3], add_capacitance=True, add_inductance=ind, admittance=adm, min_log_F_ext=D.Num.var("min_log_F_ext"),
                            max_log_F_ext=D.Num.var("max_log_F_ext"), log_F_ext=D.Num.var("log_F_ext"), num_F_ext_evaluations=0, rapid_F_ext_evaluations=True,
                            cnls_method="leastsq", max_nfev=0, timeout=60, num_procs=1)

            def dom(a):
                lo, hi, x = a["min_log_F_ext"].e, a["max_log_F_ext"].e, a["log_F_ext"].e
                return [lo <= 0, hi > 0, lo <= x, x <= hi]
            D.check_domain(sess, KE, "evaluate_log_F_ext", D.mentions("data.get_frequencies", "data.get_impedances"), make_args, dom, f"[{test},admittance={adm},add_inductance={ind}]")
        for ob in sess.obligations:
            w = getattr(ob, "witness_args", None)
            if w and ob.status == "refuted":
                kw = {k: (float(str(v).rstrip("?")) if k.endswith("log_F_ext") else v) for k, v in w.items()}
                ob.replay = {"input": kw, "repro": _DOMAIN_REPRO % (kw,)}
    return (f"{KE}:evaluate_log_F_ext [argument domain]", KE, "evaluate_log_F_ext", run)


_targets_before_domain = targets


def targets():      # noqa: F811
    return _targets_before_domain() + [target_argument_domain()]



_targets_before_dispatch_c07 = targets


def targets():      # noqa: F811
    # shared with C08: the work items of the multi-process branches are unpacked by position (tuple protocols), and the dispatch to
    # the three implementations hands every value on unchanged
    from . import forwarding, tupleproto
    return _targets_before_dispatch_c07() + [forwarding.target_perform_tests_dispatch(), tupleproto.target_tuple_protocols()]
