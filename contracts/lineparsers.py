"""C06: contracts on the line-oriented instrument parsers (`parse_mpt`, `parse_i2b`, `parse_p00`, `parse_dfr`), discharged by
pyvc.hoare (E5) for files of ANY number of data rows.

The file is modelled as an immutable sequence of cleaned lines (`L[0..N)`: stripped, lower-cased, non-empty -- exactly what the
parsers' common prologue `list(filter(lambda _: _ != "", map(str.lower, map(str.strip, fp.readlines()))))` produces; the prologue
is recognised by what it does: the two `str` methods and a filter that drops "" and nothing else).  A line is an uninterpreted
object with the questions the parsers ask: `startswith(<prefix>)`, `split(<sep>)` (a number of cells and the cells), `isnumeric()`,
`int(line)`, and the number `_parse_string_as_float` reads from a cell or a whole line.  The loops that consume the lines are cut
at sidecar invariants.  For a WELL-FORMED file of the format (stated per parser) the parser does not raise and hands
`dataframe_to_data_sets` a table with exactly one row per data line, in file order, frequency / real / imaginary taken from the
documented columns with the documented sign, together with the path it was given, and returns its result.  Not modelled: what a
cell's text looks like (decimal comma: `_parse_string_as_float`, checked natively by the bounded layer); `parse_dta` and `parse_z`
(bounded only)."""
from __future__ import annotations

import builtins
from typing import Any, Dict, List

import z3

from pyvc import core
from pyvc import hoare as H
from pyvc.core import Session
from pyvc.hoare import Rv, ctx
from .diagrams import make_no_raise

LineS = z3.DeclareSort("Line")
CellS = z3.DeclareSort("Cell")
I, R, B = z3.IntSort(), z3.RealSort(), z3.BoolSort()
numf = z3.Function("number_in_cell", CellS, R)
numl = z3.Function("number_in_line", LineS, R)
intval = z3.Function("int_of_line", LineS, I)
isnum = z3.Function("line_isnumeric", LineS, B)


def _sep_name(sep):
    return {None: "ws", " ": "space", "\t": "tab"}.get(sep, repr(sep))


def ncols(sep):
    return z3.Function(f"ncols_{_sep_name(sep)}", LineS, I)


def col(sep):
    return z3.Function(f"cell_{_sep_name(sep)}", LineS, I, CellS)


def sw(prefix):
    return z3.Function(f"startswith_{prefix}", LineS, B)


class CellObj:
    def __init__(self, t):
        self.t = t


class Cols:
    def __init__(self, line, sep, limit=None):
        self.line, self.sep, self.limit = line, sep, limit

    def n(self):
        full = ncols(self.sep)(self.line.t)
        return full if self.limit is None else z3.If(full < self.limit, full, z3.IntVal(self.limit))

    def length(self):
        return Rv(self.n())

    def item(self, k):
        kz = H._z(k)
        if not ctx().decide(z3.And(kz >= 0, kz < self.n()), "column exists"):
            raise H.SymIndexError("list index out of range")
        return CellObj(col(self.sep)(self.line.t, kz))

    def __getitem__(self, k):
        if isinstance(k, slice):
            if k.start in (None, 0) and k.step is None and isinstance(k.stop, int) and k.stop >= 0 and self.limit is None:
                return Cols(self.line, self.sep, limit=k.stop)          # the first cells
            raise H.Unsupported("this slice of the cells of a line")
        return self.item(k)

    def __iter__(self):
        raise H.Unsupported("iteration over the cells of a line outside map()")


numeric_row = z3.Function("every_cell_is_a_number", LineS, B)


class Values(H.IndexedSeq):
    """list(map(_parse_string_as_float, line.split())): the numbers of a row whose cells are all numeric"""

    def __init__(self, cols):
        self.cols = cols

    def length(self):
        return self.cols.length()

    def item(self, k):
        kz = H._z(k)
        if not ctx().decide(z3.And(kz >= 0, kz < self.cols.n()), "value exists"):
            raise H.SymIndexError("list index out of range")
        return Rv(numf(col(self.cols.sep)(self.cols.line.t, kz)))

    __getitem__ = item

    def all_truthy(self):
        """all(values): every number is non-zero (only for a known number of values)"""
        if self.cols.limit is None:
            raise H.Unsupported("all() over a row of unknown length")
        c = ctx()
        for k in range(self.cols.limit):
            if not c.decide(self.cols.n() > k, f"the row has more than {k} values"):
                return True
            if not c.decide(numf(col(self.cols.sep)(self.cols.line.t, z3.IntVal(k))) != 0, f"value {k} is not zero"):
                return False
        return True


class MappedCols:
    """tuple(map(f, line.split(sep))): unpacked by the real code; yields cells as long as the line has them"""

    def __init__(self, f, cols):
        self.f, self.cols = f, cols

    def __iter__(self):
        k = 0
        n = self.cols.n()
        while True:
            if k > 16:
                raise H.Unsupported("a line unpacked into more than 16 values")
            if not ctx().decide(n > k, f"the line has more than {k} cells"):
                return
            yield self.f(CellObj(col(self.cols.sep)(self.cols.line.t, z3.IntVal(k))))
            k += 1


class LineObj:
    def __init__(self, t):
        self.t = t

    def startswith(self, prefix):
        if not isinstance(prefix, str):
            raise H.Unsupported("startswith of a non-literal")
        return ctx().decide(sw(prefix)(self.t), f"line starts with {prefix!r}")

    def split(self, sep=None):
        return Cols(self, sep)

    def isnumeric(self):
        return ctx().decide(isnum(self.t), "line is numeric")

    def __contains__(self, text):
        if not isinstance(text, str):
            raise H.Unsupported("`in` with a non-literal")
        return ctx().decide(z3.Function(f"contains_{text}", LineS, B)(self.t), f"line contains {text!r}")

    def replace(self, a, b):
        if (a, b) != (",", "."):
            raise H.Unsupported("replace other than decimal comma -> point")
        return self             # (which number a cell denotes is numf's business)

    def lower(self):
        return self

    def strip(self):
        return self


class _Marker:
    def __init__(self):
        self.ops: List[str] = []
        self.filtered = False


class _FakeFile:
    def __enter__(self):
        return self

    def __exit__(self, *a):
        return False

    def readlines(self):
        return _Marker()


def namespace(space, calls: List[Any], st: Dict[str, Any]) -> Dict[str, Any]:
    ns = H.base_namespace(space)
    base_list, base_map, base_filter = ns["list"], ns["map"], ns["filter"]

    def s_map(f, x):
        if isinstance(x, _Marker):
            if f is str.strip or f is str.lower:
                x.ops.append(f.__name__)
                return x
            raise H.Unsupported("the lines of the file are transformed by something other than str.strip / str.lower")
        if isinstance(x, Cols):
            return MappedCols(f, x)
        return base_map(f, x)

    def s_filter(f, x):
        if isinstance(x, _Marker):
            try:
                ok = f("") is False and f("a") is True and f(" ") is True and f("0") is True
            except Exception:       # noqa: BLE001
                ok = False
            if not ok:
                raise H.Unsupported("the lines of the file are filtered by something other than `line != \"\"`")
            x.filtered = True
            return x
        return base_filter(f, x)

    class s_list(metaclass=type(base_list)):
        def __new__(cls, x=()):
            if isinstance(x, MappedCols):
                # every cell is converted: a cell that is not a number makes _parse_string_as_float raise ValueError
                if not ctx().decide(numeric_row(x.cols.line.t), "every cell of the line is a number"):
                    raise ValueError("could not convert string to float")
                return Values(x.cols)
            if isinstance(x, _Marker):
                if sorted(x.ops) != ["lower", "strip"] or not x.filtered:
                    raise H.Unsupported(f"unexpected cleaning of the lines: {x.ops}, filtered={x.filtered}")
                return H.SymSeq("lines", st["L"], 0, st["N"], LineObj)
            return base_list(x)

    def s_all(x):
        if isinstance(x, Values):
            return x.all_truthy()
        return builtins.all(x)

    def s_tuple(x=()):
        if isinstance(x, MappedCols):
            return x
        return builtins.tuple(x)

    def s_int(x=0, *a):
        if isinstance(x, LineObj):
            return Rv(intval(x.t))
        return builtins.int(x, *a)

    def parse_float(x):
        if isinstance(x, CellObj):
            return Rv(numf(x.t))
        if isinstance(x, LineObj):
            return Rv(numl(x.t))
        raise H.Unsupported("_parse_string_as_float of something that is neither a cell nor a line")

    class DataFrame:
        @staticmethod
        def from_dict(d):
            return ("frame", d)

    def d2ds(df, path=None, **kw):
        calls.append((df, path, kw))
        return st["result"]

    class UnsupportedFileFormat(Exception):
        pass
    ns.update({"all": s_all, "map": s_map, "filter": s_filter, "list": s_list, "tuple": s_tuple, "int": s_int, "open": lambda *a, **k: _FakeFile(), "_parse_string_as_float": parse_float,
               "_validate_path": lambda p: None, "DataFrame": DataFrame, "dataframe_to_data_sets": d2ds, "UnsupportedFileFormat": UnsupportedFileFormat, "str": str})
    return ns


def _lists(env_or_loc):
    loc = env_or_loc.loc if hasattr(env_or_loc, "loc") else env_or_loc
    return loc["freq"], loc["real"], loc["imag"]


def rows_inv(env, base, st, row):
    """rows read so far: three lists of equal length start - base, entry j0 is `row(line base + j0)`"""
    lines = env.unique(H.SymSeq, "lines")
    f, r, im = _lists(env)
    n = lines.start - base
    j0 = st["j0"]
    wf, wr, wi = row(z3.Select(st["L"], base + j0))
    return [("the lines are consumed from the first data row on", z3.And(lines.start >= base, lines.start <= st["N"], lines.end == st["N"])),
            ("one entry per row read, in all three columns", z3.And(f.len == n, r.len == n, im.len == n)),
            ("row j of the table is data line j of the file: frequency, real, imaginary from the documented cells with the documented sign",
             z3.Implies(z3.And(0 <= j0, j0 < n), z3.And(z3.Select(f.arr, j0) == wf, z3.Select(r.arr, j0) == wr, z3.Select(im.arr, j0) == wi)))]


def check_table(c, sess_label, calls, st, base, row, path):
    ok = len(calls) == 1 and isinstance(calls[0][0], tuple) and calls[0][0][0] == "frame" and isinstance(calls[0][0][1], dict) and sorted(calls[0][0][1]) == ["frequency", "imaginary", "real"]
    c.check(f"{sess_label}: dataframe_to_data_sets is called once with a table of frequency / real / imaginary", z3.BoolVal(ok), "post")
    if not ok:
        return
    d = calls[0][0][1]
    f, r, im = d["frequency"], d["real"], d["imaginary"]
    allsym = all(isinstance(x, H.SymList) for x in (f, r, im))
    c.check(f"{sess_label}: the three columns are the lists the parser filled", z3.BoolVal(allsym), "post")
    if not allsym:
        return
    n = st["N"] - base
    j0 = st["j0"]
    wf, wr, wi = row(z3.Select(st["L"], base + j0))
    c.check(f"{sess_label}: one row per data line of the file", z3.And(f.len == n, r.len == n, im.len == n), "post")
    c.check(f"{sess_label}: row j of the table is data line j of the file (frequency, real, imaginary from the documented cells, documented sign)",
            z3.Implies(z3.And(0 <= j0, j0 < n), z3.And(z3.Select(f.arr, j0) == wf, z3.Select(r.arr, j0) == wr, z3.Select(im.arr, j0) == wi)), "post")
    c.check(f"{sess_label}: the path is handed on", z3.BoolVal(calls[0][1] == path and not calls[0][2]), "post")


def target_line_parsers():
    def run(sess: Session):
        space = H.NodeSpace([])
        st: Dict[str, Any] = {}
        calls: List[Any] = []
        ns = namespace(space, calls, st)
        counts = {"paths": 0}
        k = z3.Int("k")

        def fresh_file(c):
            N = z3.Int("N")
            L = z3.Const("L", z3.ArraySort(I, LineS))
            c.assume(N >= 0)
            st.update(N=N, L=L, j0=z3.Int("j0"), result=["the data sets"])
            del calls[:]
            return N, L

        def line(L, i):
            return z3.Select(L, i)

        # ------------------------------------------------------------------ parse_mpt
        specs = H.LoopSpecs()
        vc = H.VC(specs, space)
        tab = "\t"
        mpt_row = lambda ln: (numf(col(tab)(ln, 0)), numf(col(tab)(ln, 1)), -numf(col(tab)(ln, 2)))       # noqa: E731

        @specs.add("parse_mpt", "w1")
        def _(env):
            lines = env.unique(H.SymSeq, "lines")
            return [("the header line has not been passed", z3.And(lines.start >= 0, lines.start <= st["h"], lines.end == st["N"]))]

        @specs.add("parse_mpt", "w2")
        def _(env):
            return rows_inv(env, st["h"] + 1, st, mpt_row)
        real_mpt = H.build_function(core.find_def("data/formats/mpt", "parse_mpt"), ns, vc)
        no_raise = make_no_raise("data/formats/mpt")

        def go_mpt(c):
            counts["paths"] += 1
            N, L = fresh_file(c)
            h = z3.Int("h")
            st["h"] = h
            c.assume(0 <= h, h + 1 < N, sw("freq/hz")(line(L, h)),
                     z3.ForAll([k], z3.Implies(z3.And(0 <= k, k < h), z3.Not(sw("freq/hz")(line(L, k)))), patterns=[sw("freq/hz")(line(L, k))]),
                     z3.ForAll([k], z3.Implies(z3.And(h < k, k < N), z3.And(ncols(tab)(line(L, k)) >= 3, numeric_row(line(L, k)))), patterns=[ncols(tab)(line(L, k))]))
            ok, out = no_raise("parse_mpt (well-formed file: a 'freq/Hz' header line, then rows of at least three tab-separated cells)", lambda: real_mpt("file.mpt"))
            if not ok:
                return
            c.canary("parse_mpt, at return")
            check_table(c, "parse_mpt", calls, st, h + 1, mpt_row, "file.mpt")
            c.check("parse_mpt returns what dataframe_to_data_sets returns", z3.BoolVal(out is st["result"]), "post")
        H.explore(sess, [], go_mpt)

        # ------------------------------------------------------------------ parse_i2b
        specs = H.LoopSpecs()
        vc = H.VC(specs, space)
        sp = " "
        i2b_row = lambda ln: (numf(col(sp)(ln, 0)), numf(col(sp)(ln, 1)), numf(col(sp)(ln, 2)))       # noqa: E731

        @specs.add("parse_i2b", "w1")
        def _(env):
            return rows_inv(env, z3.IntVal(5), st, i2b_row)
        real_i2b = H.build_function(core.find_def("data/formats/i2b", "parse_i2b"), ns, vc)
        no_raise_i = make_no_raise("data/formats/i2b")

        def go_i2b(c):
            counts["paths"] += 1
            N, L = fresh_file(c)
            c.assume(N >= 6, z3.ForAll([k], z3.Implies(z3.And(5 <= k, k < N), ncols(sp)(line(L, k)) == 3), patterns=[ncols(sp)(line(L, k))]))
            ok, out = no_raise_i("parse_i2b (well-formed file: five non-empty metadata lines, then rows of three space-separated cells)", lambda: real_i2b("file.i2b"))
            if not ok:
                return
            c.canary("parse_i2b, at return")
            check_table(c, "parse_i2b", calls, st, z3.IntVal(5), i2b_row, "file.i2b")
            c.check("parse_i2b returns what dataframe_to_data_sets returns", z3.BoolVal(out is st["result"]), "post")
        H.explore(sess, [], go_i2b)

        # ------------------------------------------------------------------ parse_p00
        specs = H.LoopSpecs()
        vc = H.VC(specs, space)
        p00_row = mpt_row

        @specs.add("parse_p00", "w1")
        def _(env):
            lines = env.unique(H.SymSeq, "lines")
            return [("the header line has not been passed", z3.And(lines.start >= 0, lines.start <= st["h"], lines.end == st["N"])),
                    ("the number of points is not read before the header", H._z(env.loc["num_points"]) == 0)]

        @specs.add("parse_p00", "w2")
        def _(env):
            return rows_inv(env, st["h"] + 2, st, p00_row) + [("the announced number of points is the one read after the header", H._z(env.loc["num_points"]) == intval(line(st["L"], st["h"] + 1)))]
        real_p00 = H.build_function(core.find_def("data/formats/p00", "parse_p00"), ns, vc)
        no_raise_p = make_no_raise("data/formats/p00")

        def go_p00(c):
            counts["paths"] += 1
            N, L = fresh_file(c)
            h = z3.Int("h")
            st["h"] = h
            c.assume(0 <= h, h + 2 < N, sw("f/hz")(line(L, h)), intval(line(L, h + 1)) == N - (h + 2),
                     z3.ForAll([k], z3.Implies(z3.And(0 <= k, k < h), z3.Not(sw("f/hz")(line(L, k)))), patterns=[sw("f/hz")(line(L, k))]),
                     z3.ForAll([k], z3.Implies(z3.And(h + 1 < k, k < N), ncols(tab)(line(L, k)) == 6), patterns=[ncols(tab)(line(L, k))]))
            ok, out = no_raise_p("parse_p00 (well-formed file: an 'f/Hz' header line, the number of rows, then that many rows of six tab-separated cells)", lambda: real_p00("file.P00"))
            if not ok:
                return
            c.canary("parse_p00, at return")
            check_table(c, "parse_p00", calls, st, h + 2, p00_row, "file.P00")
            c.check("parse_p00 returns what dataframe_to_data_sets returns", z3.BoolVal(out is st["result"]), "post")
        H.explore(sess, [], go_p00)

        # ------------------------------------------------------------------ parse_dfr
        specs = H.LoopSpecs()
        vc = H.VC(specs, space)

        @specs.add("parse_dfr", 1)
        def _(env):
            lines = env.unique(H.SymSeq, "lines")
            f, r, im = _lists(env)
            j0, L = st["j0"], st["L"]
            b = 3 + 9 * j0
            return [("nine lines are consumed per point", z3.And(lines.start == 3 + 9 * env.i, lines.end == st["N"])),
                    ("one entry per point read", z3.And(f.len == env.i, r.len == env.i, im.len == env.i)),
                    ("point j is read from lines 3+9j .. 3+9j+2: frequency, real, minus imaginary",
                     z3.Implies(z3.And(0 <= j0, j0 < env.i), z3.And(z3.Select(f.arr, j0) == numl(line(L, b)), z3.Select(r.arr, j0) == numl(line(L, b + 1)), z3.Select(im.arr, j0) == -numl(line(L, b + 2)))))]
        real_dfr = H.build_function(core.find_def("data/formats/dfr", "parse_dfr"), ns, vc)
        no_raise_d = make_no_raise("data/formats/dfr")

        def go_dfr(c):
            counts["paths"] += 1
            N, L = fresh_file(c)
            P = intval(line(L, 1))
            c.assume(N >= 3, sw("version")(line(L, 0)), isnum(line(L, 1)), P >= 1, N >= 3 + 9 * P)
            ok, out = no_raise_d("parse_dfr (well-formed file: a VERSION line, the number of points, one more line, then nine lines per point)", lambda: real_dfr("file.dfr"))
            if not ok:
                return
            c.canary("parse_dfr, at return")
            okc = len(calls) == 1 and isinstance(calls[0][0], tuple) and isinstance(calls[0][0][1], dict) and sorted(calls[0][0][1]) == ["frequency", "imaginary", "real"]
            c.check("parse_dfr: dataframe_to_data_sets is called once with a table of frequency / real / imaginary", z3.BoolVal(okc), "post")
            if okc:
                d = calls[0][0][1]
                f, r, im = d["frequency"], d["real"], d["imaginary"]
                j0 = st["j0"]
                b = 3 + 9 * j0
                c.check("parse_dfr: one row per announced point", z3.And(f.len == P, r.len == P, im.len == P), "post")
                c.check("parse_dfr: point j is read from lines 3+9j .. 3+9j+2 (frequency, real, minus imaginary)",
                        z3.Implies(z3.And(0 <= j0, j0 < P), z3.And(z3.Select(f.arr, j0) == numl(line(L, b)), z3.Select(r.arr, j0) == numl(line(L, b + 1)), z3.Select(im.arr, j0) == -numl(line(L, b + 2)))), "post")
                c.check("parse_dfr: the path is handed on", z3.BoolVal(calls[0][1] == "file.dfr" and not calls[0][2]), "post")
            c.check("parse_dfr returns what dataframe_to_data_sets returns", z3.BoolVal(out is st["result"]), "post")
        H.explore(sess, [], go_dfr)

        # ------------------------------------------------------------------ parse_dta
        from os.path import basename, splitext
        specs = H.LoopSpecs()
        vc = H.VC(specs, space)
        vc.factories = {"data_sets": lambda items: list(items)}
        ws = None
        DC = z3.Function("drift_correction_announced_before_line", z3.ArraySort(I, LineS), I, B)
        has1 = z3.Function("contains_1", LineS, B)
        has_dr = z3.Function("contains_zrealdrcor", LineS, B)
        cell = lambda ln, kk: numf(col(ws)(ln, kk))       # noqa: E731
        plain_row = lambda ln: (cell(ln, 2), cell(ln, 3), cell(ln, 4))       # noqa: E731

        @specs.add("parse_dta", "w1")
        def _(env):
            lines = env.unique(H.SymSeq, "lines")
            dc = env.loc["drift_corrected"]
            return [("the ZCURVE line has not been passed", z3.And(lines.start >= 0, lines.start <= st["z"], lines.end == st["N"])),
                    ("drift correction is on exactly if a DRIFTCOR line containing 1 was seen", DC(st["L"], lines.start) == z3.BoolVal(bool(dc)))]

        @specs.add("parse_dta", "w2")
        def _(env):
            b = st["z"] + 3
            lines = env.unique(H.SymSeq, "lines")
            dc = bool(env.loc["drift_corrected"])
            out = rows_inv(env, b, st, plain_row)
            dr, di = env.loc["drift_corrected_real"], env.loc["drift_corrected_imag"]
            n = lines.start - b
            j0 = st["j0"]
            ln = z3.Select(st["L"], b + j0)
            out += [("the numeric block has not been passed", lines.start <= st["e"]),
                    ("the flag is the one found in the header", z3.BoolVal(dc) == DC(st["L"], st["z"])),
                    ("drift corrected columns: one entry per row read when drift correction is on, none otherwise", z3.And(dr.len == (n if dc else 0), di.len == (n if dc else 0))),
                    ("drift corrected row j is cells 8 and 9 of data line j", z3.Implies(z3.And(z3.BoolVal(dc), 0 <= j0, j0 < n), z3.And(z3.Select(dr.arr, j0) == cell(ln, 8), z3.Select(di.arr, j0) == cell(ln, 9))))]
            return out
        real_dta = H.build_function(core.find_def("data/formats/dta", "parse_dta"), dict(ns, basename=basename, splitext=splitext), vc)
        no_raise_t = make_no_raise("data/formats/dta")

        def go_dta(c):
            counts["paths"] += 1
            N, L = fresh_file(c)
            z, e = z3.Int("z"), z3.Int("e")
            st.update(z=z, e=e, result=["one data set"])
            b = z + 3
            drift = DC(L, z)
            any_line = z3.Const("any_line", LineS)
            c.assume(0 <= z, b < e, e <= N, sw("zcurve")(line(L, z)), sw("pt")(line(L, z + 1)), sw("#")(line(L, z + 2)), z3.Implies(drift, has_dr(line(L, z + 1))),
                     z3.Not(DC(L, 0)),
                     z3.ForAll([k], z3.Implies(z3.And(0 <= k, k < N), DC(L, k + 1) == z3.Or(DC(L, k), z3.And(sw("driftcor")(line(L, k)), has1(line(L, k))))), patterns=[DC(L, k + 1)]),
                     z3.ForAll([any_line], z3.Not(z3.And(sw("driftcor")(any_line), sw("zcurve")(any_line))), patterns=[sw("zcurve")(any_line)]),
                     z3.ForAll([k], z3.Implies(z3.And(0 <= k, k < z), z3.Not(sw("zcurve")(line(L, k)))), patterns=[sw("zcurve")(line(L, k))]),
                     z3.ForAll([k], z3.Implies(z3.And(b <= k, k < e), z3.And(numeric_row(line(L, k)), ncols(ws)(line(L, k)) >= z3.If(drift, 10, 5))), patterns=[numeric_row(line(L, k))]),
                     z3.Or(e == N, z3.Not(numeric_row(line(L, e)))))
            ok, out = no_raise_t("parse_dta (well-formed file: DRIFTCOR / ZCURVE header, a 'Pt' and a '#' line, then rows of numbers until the first line that is not one)", lambda: real_dta("dir/sample.dta"))
            if not ok:
                return
            c.canary("parse_dta, at return")
            dc = any("drift_corrected" in w and v for w, v in c.log) or any("drift correction" in w and v for w, v in c.log)
            n_rows = e - b
            j0 = st["j0"]
            ln = z3.Select(L, b + j0)

            def table_ok(call, rf, rr, ri, what):
                okc = isinstance(call[0], tuple) and call[0][0] == "frame" and isinstance(call[0][1], dict) and sorted(call[0][1]) == ["frequency", "imaginary", "real"]
                c.check(f"parse_dta: the {what} table has frequency / real / imaginary", z3.BoolVal(okc), "post")
                if not okc:
                    return
                d = call[0][1]
                f, r, im = d["frequency"], d["real"], d["imaginary"]
                if not all(isinstance(x, H.SymList) for x in (f, r, im)):
                    c.check(f"parse_dta: the {what} table holds the lists the parser filled", z3.BoolVal(False), "post")
                    return
                c.check(f"parse_dta: the {what} table has one row per numeric line after the header", z3.And(f.len == n_rows, r.len == n_rows, im.len == n_rows), "post")
                c.check(f"parse_dta: row j of the {what} table is data line j: frequency = cell 2, real / imaginary = cells {rr} / {ri}",
                        z3.Implies(z3.And(0 <= j0, j0 < n_rows), z3.And(z3.Select(f.arr, j0) == cell(ln, rf), z3.Select(r.arr, j0) == cell(ln, rr), z3.Select(im.arr, j0) == cell(ln, ri))), "post")
            drift_now = c.decide(drift, "drift correction announced")
            want_calls = 2 if drift_now else 1
            c.check("parse_dta: one table per spectrum (two when drift correction is on: corrected first, then uncorrected)", z3.BoolVal(len(calls) == want_calls), "post")
            if len(calls) != want_calls:
                return
            if drift_now:
                table_ok(calls[0], 2, 8, 9, "drift corrected")
                table_ok(calls[1], 2, 3, 4, "uncorrected")
                labels = [calls[0][2].get("label"), calls[1][2].get("label")]
                c.check("parse_dta: labels '<file> (drift corrected)' and '<file> (uncorrected)', the path handed on", z3.BoolVal(labels == ["sample (drift corrected)", "sample (uncorrected)"] and all(cl[1] == "dir/sample.dta" for cl in calls)), "post")
            else:
                table_ok(calls[0], 2, 3, 4, "only")
                c.check("parse_dta: label '<file>', the path handed on", z3.BoolVal(calls[0][2].get("label") == "sample" and calls[0][1] == "dir/sample.dta"), "post")
            c.check("parse_dta returns the data sets of its tables, in order", z3.BoolVal(out == ["one data set"] * want_calls), "post")
        H.explore(sess, [], go_dta)

        sess.check("cover", [], z3.BoolVal(counts["paths"] >= 8 and len(sess.obligations) >= 60), 0, label=f"paths executed: {counts['paths']}")
        sess.assumptions.append("a file is a finite sequence of lines; str.strip / str.lower / the non-empty filter behave as in CPython; what number a cell's text denotes is _parse_string_as_float's business (checked natively)")
    return ("data/formats/mpt:parse_mpt / parse_i2b / parse_p00 / parse_dfr / parse_dta", "data/formats/mpt", "parse_mpt", run)


def targets():
    return [target_line_parsers()]
