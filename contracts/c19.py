"""C19 proof layer: the CLI commands report what the API computes -- data-flow (EUF) contracts.  The real command
functions (cli/parse.py, cli/fit.py, cli/circuit.py:simulate_spectra, cli/utility.py:apply_filters/get_mock_data) are run
by CPython with uninterpreted terms for option values, recording stand-ins for the API, and marker strings for formatted
tables, so that what reaches print_func / fit_circuit / simulate_spectrum can be compared argument by argument."""
from __future__ import annotations

import itertools
from types import SimpleNamespace

import z3

from pyvc import overload as O
from pyvc.core import Session
from . import dataflow as DF
from .dataflow import T, opaque, tv

UTIL = "cli/utility"
PARSE = "cli/parse"
FITM = "cli/fit"
CIRC = "cli/circuit"


class FakeData:
    def __init__(self, name):
        self.name, self.calls = name, []
        self.term = T.var(name)

    def low_pass(self, c):
        self.calls.append(("low_pass", c))

    def high_pass(self, c):
        self.calls.append(("high_pass", c))

    def set_mask(self, m):
        self.calls.append(("set_mask", m))

    def get_num_points(self):
        return 5

    def get_label(self):
        return self.name

    def get_path(self):
        return "path"

    def to_dataframe(self, *a, **k):
        self.calls.append(("to_dataframe", a, k))
        return ("dataframe", self.name, len(self.calls))


def target_apply_filters():
    qual = "apply_filters"

    def run(sess: Session):
        n = 0
        seen = set()
        for excl in ([], [0, 2]):
            def once():
                d = FakeData("d")
                args = SimpleNamespace(low_pass_cutoff=T.var("low"), high_pass_cutoff=T.var("high"), exclude_indices=excl)
                ns = {"len": len}
                O.load(UTIL, [qual], ns)
                ns[qual](d, args)
                return d, args
            for log, (d, args), facts in DF.explore(once):
                n += 1
                asked = {w.key: v for w, v in log}
                got = [c[0] for c in d.calls]
                # the specification is stated over the two conditions themselves, not over the decisions the code happens to take:
                # a condition the path never asked about may hold or not, and the calls must be right for both
                for lo, hi in itertools.product((False, True), repeat=2):
                    if asked.get("gt(low, lit:0.0)", lo) != lo or asked.get("gt(high, lit:0.0)", hi) != hi:
                        continue
                    want = (["low_pass"] if lo else []) + (["high_pass"] if hi else []) + (["set_mask"] if excl else [])
                    tag = f"[low>0={lo},high>0={hi},exclude={excl}]"
                    sess.check("post", [], z3.BoolVal(got == want), 0, label=f"filters applied in order low_pass, high_pass, set_mask exactly when requested{tag}")
                    seen.add((lo, hi, bool(excl)))
                tag = f"[{','.join(f'{w}={v}' for w, v in log)},exclude={excl}]"
                for c in d.calls:
                    if c[0] == "low_pass":
                        DF.eq_check(sess, f"low_pass(args.low_pass_cutoff){tag}", c[1], args.low_pass_cutoff)
                    if c[0] == "high_pass":
                        DF.eq_check(sess, f"high_pass(args.high_pass_cutoff){tag}", c[1], args.high_pass_cutoff)
                    if c[0] == "set_mask":
                        sess.check("post", [], z3.BoolVal(c[1] == {i: True for i in excl}), 0, label=f"set_mask({{i: True for excluded i}}){tag}")
        sess.check("cover", [], z3.BoolVal(len(seen) == 8), 0, label=f"all 8 combinations of the three conditions covered (paths={n})")
    return (f"{UTIL}:{qual}", UTIL, qual, run)


def target_get_mock_data():
    qual = "get_mock_data"

    def run(sess: Session):
        rec = []
        ns = {"_parse_identity": lambda s: (("ID-of", s), {"noise": ("noise-of", s), "seed": ("seed-of", s)}),
              "generate_mock_data": lambda ident, **kw: rec.append((ident, kw)) or "DATA"}
        O.load(UTIL, [qual], ns)
        out = ns[qual]("spec")
        sess.check("post", [], z3.BoolVal(out == "DATA" and rec == [(("ID-of", "spec"), {"noise": ("noise-of", "spec"), "seed": ("seed-of", "spec")})]), 0,
                   label="get_mock_data(s) == generate_mock_data(ID, **kwargs) with (ID, kwargs) = _parse_identity(s)")
    return (f"{UTIL}:{qual}", UTIL, qual, run)


def target_get_mock_circuits():
    qual = "get_mock_circuits"

    def run(sess: Session):
        rec = []
        ns = {"_parse_identity": lambda s: (("ID-of", s), {"drift": ("drift-of", s), "seed": ("seed-of", s)}),
              "generate_mock_circuits": lambda ident, **kw: rec.append((ident, kw)) or "CIRCUITS"}
        O.load(UTIL, [qual], ns)
        out = ns[qual]("spec")
        sess.check("post", [], z3.BoolVal(out == "CIRCUITS" and rec == [(("ID-of", "spec"), {"drift": ("drift-of", "spec"), "seed": ("seed-of", "spec")})]), 0,
                   label="get_mock_circuits(s) == generate_mock_circuits(ID, **kwargs) with (ID, kwargs) = _parse_identity(s)")
    return (f"{UTIL}:{qual}", UTIL, qual, run)


def target_parse_identity():
    """_parse_identity('<ID:key=value,...>' without the brackets): the identifier is what precedes the last ':' (when that colon is
    not inside a circuit description code), every documented key is converted with its documented type, an unknown key is refused"""
    qual = "_parse_identity"

    def run(sess: Session):
        ns = {"map": map, "max": max, "str": str, "int": int, "float": float, "KeyError": KeyError}
        O.load(UTIL, [qual], ns)
        fn = ns[qual]
        cases = {
            "CIRCUIT_1": ("CIRCUIT_1", {}),
            "CIRCUIT_2:noise=5": ("CIRCUIT_2", {"noise": 5.0}),
            "CIRCUIT_2:noise=0.5,seed=7": ("CIRCUIT_2", {"noise": 0.5, "seed": 7}),
            "CIRCUIT_3 : num_per_decade=3 , log_max_f=4, log_min_f=-1.5, drift=4.0": ("CIRCUIT_3 ", {"num_per_decade": 3, "log_max_f": 4.0, "log_min_f": -1.5, "drift": 4.0}),
            "R{R=1:lbl}": ("R{R=1:lbl}", {}),
            "R{R=1:lbl}(RC):seed=3": ("R{R=1:lbl}(RC)", {"seed": 3}),
        }
        for spec, want in cases.items():
            try:
                got = fn(spec)
            except Exception as ex:  # noqa
                got = ("raised", type(ex).__name__)
            ok = got == want and all(type(got[1][k]) is type(want[1][k]) for k in want[1]) if isinstance(got, tuple) and len(got) == 2 and isinstance(got[1], dict) else False
            sess.check("post", [], z3.BoolVal(bool(ok)), 0, label=f"_parse_identity({spec!r}) == {want!r} (values converted to their documented types)")
        refused = False
        try:
            fn("CIRCUIT_1:colour=3")
        except KeyError:
            refused = True
        sess.check("post", [], z3.BoolVal(refused), 0, label="an unknown keyword is refused (KeyError)")
    return (f"{UTIL}:{qual}", UTIL, qual, run)


def target_parse_command():
    qual = "command"

    def run(sess: Session):
        for n_data in (1, 2):
            d = [FakeData(f"d{i}") for i in range(n_data)]
            printed, filt, fmt = [], [], []
            args = SimpleNamespace(average_data_sets=False, output=False)

            def format_text(df, a):
                fmt.append((df, a))
                return f"<<table{len(fmt)}>>  \n"
            ns = {"parse_inputs": lambda a: {"path": list(d)}, "apply_filters": lambda x, a: filt.append((x, a, [c[0] for c in x.calls])), "format_text": format_text,
                  "get_output_path": None, "len": len, "list": list, "map": map, "enumerate": enumerate, "open": None, "DataSet": None}
            O.load(PARSE, [qual], ns)
            ns[qual](None, args, print_func=printed.append)
            tables = [p for p in printed if p.startswith("<<table")]
            sess.check("post", [], z3.BoolVal([f[0] for f in filt] == d and all(f[1] is args and "to_dataframe" not in f[2] for f in filt)), 0, label=f"[{n_data} data sets]apply_filters(data, args) on every data set, before its table is made")
            sess.check("post", [], z3.BoolVal(len(fmt) == n_data and all(f[0][1] == d[i].name and f[1] is args for i, f in enumerate(fmt))), 0, label=f"[{n_data} data sets]one format_text(data.to_dataframe(), args) per data set, in order")
            sess.check("post", [], z3.BoolVal(tables == [f"<<table{i + 1}>>" for i in range(n_data)]), 0, label=f"[{n_data} data sets]exactly those tables are printed (rstripped), in order")
            sess.check("post", [], z3.BoolVal(all(c[0] == "to_dataframe" and c[1] == () and c[2] == {} for x in d for c in x.calls)), 0, label=f"[{n_data} data sets]to_dataframe() with its defaults (unmasked points only)")
    return (f"{PARSE}:{qual}", PARSE, qual, run)


def target_fit_command():
    qual = "command"

    def run(sess: Session):
        for refinements, n_data in ((0, 1), (2, 1), (1, 2)):
            ds = [FakeData(f"d{i}") for i in range(n_data)]
            d = ds[0]
            printed, calls, fmt = [], [], []
            A = {k: T.var("args." + k) for k in ("circuit", "method", "weight", "max_nfev", "num_procs", "timeout", "running_count")}
            args = SimpleNamespace(num_refinements=refinements, plot_type="fit", plot_title=False, output=False, plot_no_legend=False, plot_colored_axes=False,
                                   plot_admittance=False, plot_width="1", plot_height="1", plot_dpi=100, **A)

            class Fit:
                def __init__(self, k):
                    self.k = k
                    self.circuit = ("circuit-of-fit", k)

                def to_parameters_dataframe(self, **kw):
                    return ("params", self.k, kw)

                def to_statistics_dataframe(self):
                    return ("stats", self.k)

                def get_label(self):
                    return "fit"

            def fit_circuit(c, **kw):
                calls.append((c, kw))
                return Fit(len(calls))

            def format_text(df, a):
                fmt.append((df, a))
                return f"<<table{len(fmt)}>>"

            class Fig:
                def tight_layout(self):
                    pass

                def suptitle(self, t):
                    pass
            plot = lambda *a, **k: (Fig(), None)
            mpl = SimpleNamespace(**{n: plot for n in ("plot_bode", "plot_fit", "plot_imaginary", "plot_magnitude", "plot_nyquist", "plot_phase", "plot_real", "plot_real_imaginary")})

            class Cir:
                def to_string(self):
                    return "CDC*"
            cir = Cir()
            parsed = []
            ns = {"parse_cdc": lambda s: parsed.append(s) or cir, "parse_inputs": lambda a: {"path": list(ds)}, "apply_filters": lambda x, a: None, "fit_circuit": fit_circuit,
                  "format_text": format_text, "mpl": mpl, "get_backend": lambda: "agg", "set_figure_size": lambda *a: None, "clear_default_handler_output": lambda: None,
                  "plt": SimpleNamespace(close=lambda: None, show=lambda: None), "COLOR_BLACK": "k", "get_output_path": None, "len": len, "list": list, "map": map,
                  "enumerate": enumerate, "range": range, "open": None}
            O.load(FITM, [qual], ns)
            ns[qual](None, args, print_func=printed.append)
            sess.check("post", [], z3.BoolVal(len(parsed) == 1 and parsed[0] is A["circuit"]), 0, label=f"[refinements={refinements}]circuit = parse_cdc(args.circuit)")
            tag = f"[refinements={refinements},data sets={n_data}]"
            per = 1 + refinements
            sess.check("post", [], z3.BoolVal(len(calls) == per * n_data), 0, label=f"{tag}1 + num_refinements calls of fit_circuit per data set")
            for i, (c, kw) in enumerate(calls):
                di, j = divmod(i, per)
                # the first fit of EVERY data set starts from the circuit given on the command line; refinements continue from the previous fit
                okc = (c is cir) if j == 0 else (c == ("circuit-of-fit", i))
                sess.check("post", [], z3.BoolVal(bool(okc) and di < len(ds) and kw.get("data") is ds[di] and sorted(kw) == ["data", "max_nfev", "method", "num_procs", "timeout", "weight"]), 0, label=f"{tag}call {i}: circuit/data/keyword set")
                for key in ("method", "weight", "max_nfev", "num_procs", "timeout"):
                    sess.check("post", [], z3.BoolVal(kw.get(key) is A[key]), 0, label=f"{tag}call {i}: {key}=args.{key} (argument-for-argument forwarding)")
            want_fmt = []
            for di in range(n_data):
                last = per * (di + 1)
                want_fmt += [("params", last, {"running": A["running_count"]}), ("stats", last)]
            sess.check("post", [], z3.BoolVal([f[0] for f in fmt] == want_fmt and all(f[1] is args for f in fmt)), 0,
                       label=f"{tag}report tables = parameters (running=args.running_count) and statistics of the LAST fit of each data set")
            reports = [p for p in printed if isinstance(p, str) and p.startswith("CDC: ")]
            sess.check("post", [], z3.BoolVal(reports == [f"CDC: CDC*\n\n<<table{2 * k + 1}>>\n\n<<table{2 * k + 2}>>" for k in range(n_data)]), 0, label=f"{tag}printed report = CDC, parameter table, statistics table")
    return (f"{FITM}:{qual}", FITM, qual, run)


def target_simulate():
    qual = "simulate_spectra"

    def run(sess: Session):
        sims, interp = [], []
        A = {k: T.var("args." + k) for k in ("max_frequency", "min_frequency", "num_per_decade")}
        args = SimpleNamespace(input=["R", "RC"], mark_frequency=[], plot_overlay=False, plot_type="nyquist", **A)

        class Cir:
            def __init__(self, n):
                self.n = n

            def to_string(self):
                return "cdc:" + self.n
        circuits = [Cir("a"), Cir("b")]
        shown = []
        ns = {"parse_circuits": lambda a: list(circuits), "simulate_spectrum": lambda c, f, label="": sims.append((c, f, label)) or ("spectrum", c.n),
              "_interpolate": lambda fr, n: interp.append((fr, n)) or ("grid", len(interp)), "isinf": lambda x: False, "print_circuit_limits": lambda *a: None,
              "mpl": SimpleNamespace(**{n: n for n in ("plot_imaginary", "plot_magnitude", "plot_nyquist", "plot_phase", "plot_real", "plot_bode", "plot_real_imaginary")}),
              "overlay_plot": None, "individual_plots": lambda ds, marked, plot, a, pf: shown.append((list(ds), list(marked), plot)), "len": len, "enumerate": enumerate}
        # `args.min_frequency == 0.0` is a term comparison: take the non-limit path
        def once():
            sims.clear(); interp.clear(); shown.clear()
            O.load(CIRC, [qual], ns)
            ns[qual](args, print)
            return None
        for log, _, facts in DF.explore(once):
            if log and log[0][1]:
                continue            # limits mode (min_frequency == 0): prints limits, not spectra
            sess.check("post", [], z3.BoolVal([s[0] for s in sims] == circuits and [s[2] for s in sims] == ["cdc:a", "cdc:b"]), 0, label="one simulate_spectrum per parsed circuit, labelled with its CDC")
            ok = len(interp) == 2 and all(fr[0] is A["max_frequency"] and fr[1] is A["min_frequency"] and n is A["num_per_decade"] for fr, n in interp) and [s[1] for s in sims] == [("grid", 1), ("grid", 2)]
            sess.check("post", [], z3.BoolVal(ok), 0, label="frequencies = _interpolate([args.max_frequency, args.min_frequency], args.num_per_decade)")
            sess.check("post", [], z3.BoolVal(len(shown) == 1 and shown[0][0] == [("spectrum", "a"), ("spectrum", "b")] and shown[0][2] == "plot_nyquist"), 0, label="exactly the simulated spectra are handed to the output routine")
    return (f"{CIRC}:{qual}", CIRC, qual, run)


DRTM = "cli/drt"
DRT_FORWARDED = ("method", "mode", "lambda_value", "cross_validation", "rbf_type", "derivative_order", "rbf_shape", "shape_coeff", "inductance", "credible_intervals",
                 "timeout", "num_samples", "num_attempts", "maximum_symmetry", "gaussian_width", "num_per_decade", "max_nfev", "max_iter", "model_order",
                 "model_order_method", "num_procs")


def target_drt_command(which: str):
    """cli/drt.py individual_plots / overlay_plot: calculate_drt is called once per data set with the (filtered) data set and,
    argument for argument, the command-line options; the report is made of the tables of exactly that result."""
    qual = which

    def run(sess: Session):
        for n_data, method, threshold, analyze, answer in itertools.product((1, 2), ("tr-nnls", "bht"), (-1.0, 0.5), (False, True), (True, False)):
            if which == "overlay_plot" and analyze:
                continue
            ds = [FakeData(f"d{i}") for i in range(n_data)]
            printed, calls, fmt, filtered, peaks_calls = [], [], [], [], []
            A = {k: T.var("args." + k) for k in DRT_FORWARDED if k != "method"}
            A["circuit"] = T.var("args.circuit")
            for k in ("num_peaks", "disallow_skew", "plot_frequency"):
                A[k] = T.var("args." + k)
            args = SimpleNamespace(method=method, peak_threshold=threshold, analyze_peaks=analyze, peak_positions=[], plot_type="drt", plot_title=False, output=False,
                                   output_name=[""], plot_no_legend=True, plot_colored_axes=False, plot_admittance=False, plot_color=None, plot_dpi=100, **A)

            class Peaks:
                def __init__(self, k):
                    self.k = k

                def to_peaks_dataframe(self):
                    return ("analysed-peaks", self.k)

            class Drt:
                def __init__(self, k):
                    self.k = k

                def to_statistics_dataframe(self):
                    return ("stats", self.k)

                def to_peaks_dataframe(self, **kw):
                    return ("peaks", self.k, kw)

                def to_scores_dataframe(self):
                    return ("scores", self.k)

                def analyze_peaks(self, **kw):
                    peaks_calls.append((self.k, kw))
                    return Peaks(self.k)

                def get_label(self):
                    return "drt"

            def calculate_drt(d, **kw):
                calls.append((d, kw))
                return Drt(len(calls))

            def format_text(df, a):
                fmt.append((df, a))
                return f"<<table{len(fmt)}>>"

            class Fig:
                def tight_layout(self):
                    pass

                def savefig(self, *a, **k):
                    pass

            class Axis:
                def legend(self):
                    pass
            plot = lambda *a, **k: (Fig(), [Axis(), Axis()])
            mpl = SimpleNamespace(**{n: plot for n in ("plot_bode", "plot_drt", "plot_gamma", "plot_imaginary", "plot_magnitude", "plot_nyquist", "plot_phase", "plot_real", "plot_real_imaginary")})
            mpl.plot_drt = lambda *a, **k: (Fig(), [Axis(), Axis()])
            mpl.plot_gamma = lambda *a, **k: (Fig(), [Axis(), Axis()])
            parsed = []
            ns = {"parse_cdc": lambda s_: parsed.append(s_) or ("circuit", len(parsed)), "apply_filters": lambda x, a: filtered.append(x), "calculate_drt": calculate_drt,
                  "format_text": format_text, "mpl": mpl, "get_backend": lambda: "agg", "clear_default_handler_output": lambda: None, "get_color": lambda c: "k",
                  "plt": SimpleNamespace(close=lambda: None, show=lambda: None), "COLOR_BLACK": "k", "get_output_path": None, "len": len, "list": list, "map": map,
                  "enumerate": enumerate, "hasattr": hasattr, "isinstance": lambda a, b: False, "LMResult": object, "open": None, "_color_axis": lambda *a, **k: None,
                  "DataFrame": None, "DRTPeaks": None, "DRTResult": None, "DataSet": None}
            O.load(DRTM, [qual], ns)
            # a decision the command takes on an option VALUE (e.g. normalising --lambda-value) is answered both ways, one run each
            DF.reset_fallback(answer)
            ns[qual]({"path": list(ds)}, args, printed.append)
            tag = f"[data sets={n_data},method={method},peak_threshold={threshold},analyze_peaks={analyze}]"
            sess.check("post", [], z3.BoolVal(filtered == ds), 0, label=f"{tag}apply_filters on every data set, once, before it is analysed")
            sess.check("post", [], z3.BoolVal(len(calls) == n_data and all(c[0] is d for c, d in zip(calls, ds))), 0, label=f"{tag}one calculate_drt call per data set, on that data set")
            for i, (d, kw) in enumerate(calls):
                sess.check("post", [], z3.BoolVal(sorted(kw) == sorted(DRT_FORWARDED + ("circuit",))), 0, label=f"{tag}call {i}: keyword set")
                sess.check("post", [], z3.BoolVal(kw.get("method") == method and kw.get("circuit") == ("circuit", i + 1) and parsed[i] is A["circuit"]), 0, label=f"{tag}call {i}: method, circuit=parse_cdc(args.circuit)")
                for key in DRT_FORWARDED:
                    if key != "method":
                        sess.check("post", [], z3.BoolVal(kw.get(key) is A[key]), 0, label=f"{tag}call {i}: {key}=args.{key}")
            want = []
            for i in range(n_data):
                want.append(("stats", i + 1))
                if threshold >= 0.0:
                    want.append(("peaks", i + 1, {"threshold": threshold}))
                if method == "bht":
                    want.append(("scores", i + 1))
                if analyze:
                    want.append(("analysed-peaks", i + 1))
            sess.check("post", [], z3.BoolVal([f[0] for f in fmt] == want and all(f[1] is args for f in fmt)), 0, label=f"{tag}report tables = statistics[, peaks][, scores][, analysed peaks] of the result of that data set, in order")
            if analyze:
                sess.check("post", [], z3.BoolVal([c[0] for c in peaks_calls] == list(range(1, n_data + 1)) and all(c[1].get("num_peaks") is A["num_peaks"] and c[1].get("disallow_skew") is A["disallow_skew"] and c[1].get("peak_positions") is None for c in peaks_calls)), 0,
                           label=f"{tag}analyze_peaks(num_peaks=args.num_peaks, peak_positions=None for an empty list, disallow_skew=args.disallow_skew) on every result")
            text = "\n".join(p for p in printed if isinstance(p, str))
            sess.check("post", [], z3.BoolVal(all(f"<<table{k + 1}>>" in text for k in range(len(fmt))) and text.count("<<table") == len(fmt)), 0, label=f"{tag}every table is printed exactly once")
    return (f"{DRTM}:{qual}", DRTM, qual, run)


def target_cli_purity():
    from . import purity
    return purity.target([("cli/utility", ["get_mock_data", "apply_filters", "_parse_identity", "format_text", "parse_inputs"], ())],
                         title="CLI helpers keep no state between calls (no module-level writes)")


def targets():
    from . import forwarding
    return [forwarding.target_cli_wrappers(), target_cli_purity(), target_apply_filters(), target_get_mock_data(), target_get_mock_circuits(), target_parse_identity(), target_parse_command(), target_fit_command(), target_simulate(), target_drt_command("individual_plots"), target_drt_command("overlay_plot")]


_targets_before_format = targets


def target_format_text():
    """format_text(df, args): the table is rendered by the pandas writer of the requested format and by nothing else -- csv and json
    with pandas' own number formatting (shortest round-trip repr: the numbers ARE what the API returned; a precision option would
    round them), markdown with `floatfmt=".<significant digits>g"` (the documented rounding of that format), LaTeX through the
    styler (index hidden unless asked for); the index is written iff --output-indices; an unknown format is refused.  The real
    function runs on a recording data frame (E3)."""
    from pyvc import overload as O

    def run(sess: Session):
        class Styler:
            def __init__(self, log, hidden=False):
                self.log, self.hidden = log, hidden

            def hide(self, **kw):
                self.log.append(("style.hide", kw))
                return Styler(self.log, True)

            def to_latex(self, *a, **kw):
                self.log.append(("style.to_latex", self.hidden, a, kw))
                return "LATEX"

        class DF:
            def __init__(self):
                self.log = []
                self.style = Styler(self.log)

            def to_csv(self, *a, **kw):
                self.log.append(("to_csv", a, kw))
                return "CSV"

            def to_json(self, *a, **kw):
                self.log.append(("to_json", a, kw))
                return "JSON"

            def to_markdown(self, *a, **kw):
                self.log.append(("to_markdown", a, kw))
                return "MD"
        ns = {}
        O.load("cli/utility", ["format_text", "get_text_extension", "validate_text_format"], ns)
        fmt = ns["format_text"]
        for name, ext in (("csv", "csv"), ("json", "json"), ("md", "md"), ("markdown", "md"), ("tex", "tex"), ("latex", "tex")):
            for idx in (False, True):
                df = DF()
                args = type("A", (), {"output_format": name, "output_indices": idx, "output_significant_digits": 7})()
                try:
                    out = fmt(df, args)
                except Exception as ex:       # noqa: BLE001
                    out = f"raised {type(ex).__name__}"
                tag = f"[{name}, indices={idx}]"
                NUMBER_OPTIONS = {"float_format", "double_precision", "decimal", "na_rep", "formatters", "precision"}      # what changes how a number is written
                one = len(df.log) == 1 and not df.log[0][1] and not (set(df.log[0][2]) & NUMBER_OPTIONS)
                if ext == "csv":
                    ok = one and df.log[0][0] == "to_csv" and df.log[0][2].get("index") is idx and out == "CSV"
                    what = "DataFrame.to_csv(index=<output_indices>) without any option that changes how numbers are written"
                elif ext == "json":
                    ok = one and df.log[0][0] == "to_json" and out == "JSON"
                    what = "DataFrame.to_json() without a precision option"
                elif ext == "md":
                    ok = df.log == [("to_markdown", (), {"index": idx, "floatfmt": ".7g"})] and out == "MD"
                    what = "DataFrame.to_markdown(index=<output_indices>, floatfmt='.<significant digits>g')"
                else:
                    ok = (df.log == [("style.to_latex", False, (), {})] if idx else df.log == [("style.hide", {"axis": "index"}), ("style.to_latex", True, (), {})]) and out == "LATEX"
                    what = "the styler's to_latex(), index hidden unless asked for"
                ob = sess.check("post", [], z3.BoolVal(ok), 0, label=f"format_text{tag} is {what}")
                if not ok:
                    ob.detail = f"calls {df.log!r} -> {out!r}"
        df = DF()
        try:
            fmt(df, type("A", (), {"output_format": "html", "output_indices": False, "output_significant_digits": 7})())
            refused = False
        except Exception:       # noqa: BLE001
            refused = not df.log
        sess.check("post", [], z3.BoolVal(refused), 0, label="format_text refuses an unknown format without writing anything")
    return ("cli/utility:format_text", "cli/utility", "format_text", run)


def targets():      # noqa: F811
    # shared with C12: the parameter table `fit` prints is FitResult.to_parameters_dataframe of the last fit -- every cell of a row
    # comes from that element's that parameter
    from . import c12
    return _targets_before_format() + [target_format_text(), c12.target_parameters_table()]



def target_add_noise():
    """mock_data._add_noise (what `<CIRCUIT_n:noise=p,seed=s>` reaches): the generator is seeded with the given seed truncated to 32
    bits WHENEVER a seed is given -- whatever its value, 0 included -- and left unseeded only for None; the real part of the noise
    is the first draw, the imaginary part the second, both normal(0, noise/100*|Z|), added to the ideal impedances; frequencies
    are those of the input.  Same arguments => same data set, which is what makes the CLI output equal to the API result.
    The seed is a symbolic integer: `&` / `%` build terms, every other question about it (truth value, comparison) is answered both ways."""
    MOCK = "mock_data"

    def run(sess: Session):
        outcomes = set()
        for given, answer, label_given in itertools.product((True, False), (True, False), (True, False)):
            asked, made, draws, built = [], [], [], []

            class Seed:
                def __and__(self, other):
                    return ("seed&", other)
                __rand__ = __and__

                def __mod__(self, other):
                    return ("seed%", other)

                def __bool__(self):
                    asked.append("truth")
                    return answer

                def _cmp(self, other):
                    asked.append(("compared with", other))
                    return answer
                __eq__ = __lt__ = __le__ = __gt__ = __ge__ = _cmp

                def __ne__(self, other):
                    return not self._cmp(other)
                __hash__ = object.__hash__

            class RS:
                def __init__(self, seed=None):
                    made.append(seed)

                def normal(self, loc, scale, size=None):
                    draws.append((loc, scale, size))
                    return T.var(f"draw{len(draws)}")

            class Noisy:
                def __init__(self, n, dtype=None):
                    self.n, self.real, self.imag, self.added = n, None, None, []

                def __iadd__(self, other):
                    self.added.append(other)
                    return self
            Z, f = T.var("Z_ideal"), T.var("f")
            data = SimpleNamespace(get_impedances=lambda masked=False: Z, get_frequencies=lambda masked=False: f, get_label=lambda: "lab")
            ns = {"RandomState": RS, "zeros": Noisy, "len": lambda x: ("len", x), "abs": abs, "ComplexImpedance": "ComplexImpedance",
                  "DataSet": lambda **kw: built.append(kw) or "DATASET"}
            O.load(MOCK, ["_add_noise"], ns)
            seed = Seed() if given else None
            out = ns["_add_noise"](data, 5.0, seed, "L" if label_given else None)
            tag = f"[seed {'given' if given else 'None'}{', questions about it answered ' + str(answer) if given else ''}, label {'given' if label_given else 'derived'}]"
            want_seed = [("seed&", 2 ** 32 - 1)] if given else [None]
            sess.check("post", [], z3.BoolVal(made == want_seed or (given and made == [("seed%", 2 ** 32)])), 0, label=f"one generator, seeded with the seed truncated to 32 bits iff a seed is given{tag}")
            sd = 5.0 / 100 * abs(Z)
            ok_draws = len(draws) == 2 and all(d[0] == 0 and d[2] is None for d in draws)
            sess.check("post", [], z3.BoolVal(ok_draws), 0, label=f"two draws with mean 0{tag}")
            if ok_draws:
                DF.eq_check(sess, f"standard deviation of the real-part noise == noise/100*|Z|{tag}", draws[0][1], sd)
                DF.eq_check(sess, f"standard deviation of the imaginary-part noise == noise/100*|Z|{tag}", draws[1][1], sd)
            ok_built = out == "DATASET" and len(built) == 1 and isinstance(built[0].get("impedances"), Noisy)
            sess.check("post", [], z3.BoolVal(ok_built), 0, label=f"the result is one DataSet built from the noisy impedances{tag}")
            if ok_built:
                zn = built[0]["impedances"]
                sess.check("post", [], z3.BoolVal(zn.real is not None and zn.imag is not None and tv(zn.real).eq(tv(T.var("draw1"))) and tv(zn.imag).eq(tv(T.var("draw2")))
                                                  and len(zn.added) == 1 and tv(zn.added[0]).eq(tv(Z))), 0, label=f"noisy Z == (first draw + i*second draw) + ideal Z{tag}")
                sess.check("post", [], z3.BoolVal(tv(built[0]["frequencies"]).eq(tv(f)) and zn.n == ("len", f)), 0, label=f"frequencies are those of the input{tag}")
                lab = "L" if label_given else "lab (noisy)"
                sess.check("post", [], z3.BoolVal(built[0].get("label") == lab and built[0].get("path") == f"{lab}.csv"), 0, label=f"label and path{tag}")
            outcomes.add((given, bool(asked)))
        sess.check("cover", [], z3.BoolVal({g for g, _ in outcomes} == {True, False}), 0, label="seeded and unseeded cases reached")
    return (f"{MOCK}:_add_noise", MOCK, "_add_noise", run)


_targets_before_add_noise = targets


def targets():      # noqa: F811
    return _targets_before_add_noise() + [target_add_noise()]



def target_circuit_individual_plots():
    """cli/circuit.py individual_plots (`pyimpspec circuit --simulate` without --plot-overlay): for every simulated spectrum, in
    order, the table that is printed / written is format_text(<that spectrum>.to_dataframe(), args) -- whether or not frequencies
    are marked or annotated (the marked points are a second, smaller data set that only goes to the plot routine) -- and the
    spectrum itself is what is plotted first."""
    qual = "individual_plots"

    def run(sess: Session):
        reached = set()
        for n_data, mark, annotate, nyquist, backend, output in itertools.product((1, 2), (False, True), (False, True), (True, False), ("agg", "qtagg"), (False, True)):
            if annotate and not mark:
                continue

            class Spectrum(FakeData):
                def get_impedances(self, masked=False):
                    return Z_of[self.name]

                def get_frequencies(self, masked=False):
                    return [1.0, 2.0]

            class Zs(list):
                def __eq__(self, other):
                    return [True, False]
                __hash__ = None
            Z_of = {}
            ds = [Spectrum(f"sim{i}") for i in range(n_data)]
            marked = [Spectrum(f"marked{i}") for i in range(n_data)]
            for d in ds + marked:
                Z_of[d.name] = Zs([1 + 1j, 2 + 2j])
            plotted, fmt, printed, written, notes = [], [], [], [], []

            class Fig:
                def tight_layout(self):
                    pass

                def savefig(self, path, **k):
                    written.append(("figure", path))

            class Axis:
                def annotate(self, text, **k):
                    notes.append(text)

            def plot(d, **kw):
                plotted.append((d, dict(kw)))
                return kw.get("figure") or Fig(), kw.get("axes") or [Axis(), Axis()]
            other = lambda d, **kw: plot(d, **kw)      # noqa: E731
            mpl = SimpleNamespace(plot_nyquist=plot if nyquist else other)

            class FP:
                def __init__(self, path):
                    self.path = path

                def __enter__(self):
                    return self

                def __exit__(self, *a):
                    return False

                def write(self, text):
                    written.append(("text", self.path, text))

            def format_text(df, a):
                fmt.append((df, a))
                return f"<<table{len(fmt)}>>"
            args = SimpleNamespace(output_name=[f"out{i}" for i in range(n_data)], input=["x"] * n_data, output=output, plot_no_legend=False, plot_colored_axes=False,
                                   plot_admittance=False, plot_title=True, mark_frequency=[10.0] if mark else [], annotate_frequency=annotate, plot_format=".png",
                                   output_dir="DIR", output_format="csv", plot_dpi=100)
            ns = {"mpl": mpl, "get_backend": lambda: backend, "array_all": all, "format_text": format_text, "abspath": lambda p_: p_, "join": lambda *a: "/".join(a),
                  "get_text_extension": lambda fmt_: ".csv", "open": lambda path, mode="r": FP(path), "plt": SimpleNamespace(close=lambda: None, show=lambda: None),
                  "len": len, "enumerate": enumerate, "zip": zip, "ComplexImpedances": None, "DataSet": None}
            O.load(CIRC, [qual], ns)
            ns[qual](list(ds), list(marked), plot, args, printed.append)
            tag = f"[spectra={n_data},mark={mark},annotate={annotate},nyquist={nyquist},backend={backend},output={output}]"
            want_tables = [("dataframe", d.name, 1) for d in ds]
            sess.check("post", [], z3.BoolVal([f[0] for f in fmt] == want_tables and all(f[1] is args for f in fmt)), 0,
                       label=f"{tag}one table per simulated spectrum, in order: format_text(spectrum.to_dataframe(), args)")
            sess.check("post", [], z3.BoolVal(all(not m.calls for m in marked)), 0, label=f"{tag}the marked points are never tabulated")
            firsts = [p_[0] for p_ in plotted if "figure" not in p_[1]]
            seconds = [p_[0] for p_ in plotted if "figure" in p_[1]]
            sess.check("post", [], z3.BoolVal(firsts == ds and seconds == (marked if mark else [])), 0, label=f"{tag}each spectrum is plotted, its marked points (if any) on the same axes")
            texts = [w[2] for w in written if w[0] == "text"]
            if output:
                sess.check("post", [], z3.BoolVal(texts == [f"<<table{k + 1}>>" for k in range(n_data)] and [w[1] for w in written if w[0] == "text"] == [f"DIR/out{k}.csv" for k in range(n_data)]), 0,
                           label=f"{tag}the table of spectrum i is written to <output name i>.<extension>")
            elif backend != "agg":
                sess.check("post", [], z3.BoolVal([p_ for p_ in printed if isinstance(p_, str) and p_.startswith("<<table")] == [f"<<table{k + 1}>>" for k in range(n_data)]), 0,
                           label=f"{tag}the table of every spectrum is printed once, in order")
            if annotate and nyquist:
                sess.check("post", [], z3.BoolVal(len(notes) == 2 * n_data), 0, label=f"{tag}the marked frequencies are annotated")
            reached.add((mark, annotate and nyquist, output, backend))
        sess.check("cover", [], z3.BoolVal(len(reached) >= 8), 0, label=f"configurations reached={len(reached)}")
    return (f"{CIRC}:{qual}", CIRC, qual, run)


_targets_before_circuit_plots = targets


def targets():      # noqa: F811
    return _targets_before_circuit_plots() + [target_circuit_individual_plots()]



def target_parse_inputs():
    """cli/utility.parse_inputs: every data set every input gives -- each file's data sets (all of them, or exactly the requested
    `--nth` ones), each mock specifier's data sets -- is in the result exactly once, in input order, also when two mock specifiers
    produce data sets with the same label (they are collected, not overwritten).  Real function on recording stand-ins."""
    def run(sess: Session):
        for nth in ([], [1], [0, 2]):
            made = {}

            def get_mock_data(spec):
                made[spec] = [FakeData("same-label" if "dup" in spec else f"label-of-{spec}") for _ in range(2 if "two" in spec else 1)]
                return made[spec]

            def parse_data(path):
                made[path] = [FakeData(f"{path}#{k}") for k in range(3)]
                return made[path]
            inputs = ["a.csv", "<dup:seed=1>", "<two>", "<dup:seed=2>", "b.mpt"]
            ns = {"get_mock_data": get_mock_data, "parse_data": parse_data, "validate_input_paths": lambda p_: None, "len": len, "enumerate": enumerate, "DataSet": FakeData}
            O.load(UTIL, ["parse_inputs"], ns)
            out = ns["parse_inputs"](SimpleNamespace(input=list(inputs), nth_data_set=list(nth)))
            got = [d for v in out.values() for d in v]
            want = []
            for i_ in inputs:
                if i_.startswith("<"):
                    want += made[i_[1:-1]]
                else:
                    want += [d for k, d in enumerate(made[i_]) if not nth or k in nth]
            tag = f"[--nth {nth or 'not given'}]"
            sess.check("post", [], z3.BoolVal(len(got) == len(want) and {id(x) for x in got} == {id(x) for x in want}), 0, label=f"{tag}every data set of every input is in the result exactly once")
            sess.check("post", [], z3.BoolVal(all(isinstance(v, list) for v in out.values()) and [id(x) for x in out.get("a.csv", [])] == [id(d) for k, d in enumerate(made["a.csv"]) if not nth or k in nth]), 0,
                       label=f"{tag}a file's data sets are listed under its path, in file order")
            sess.check("post", [], z3.BoolVal([id(x) for x in out.get("same-label", [])] == [id(made["dup:seed=1"][0]), id(made["dup:seed=2"][0])]), 0, label=f"{tag}mock data sets with the same label are collected under that label, in input order")
    return (f"{UTIL}:parse_inputs", UTIL, "parse_inputs", run)


_targets_before_parse_inputs = targets


def targets():      # noqa: F811
    return _targets_before_parse_inputs() + [target_parse_inputs()]



_INTERP_REPRO = '''import numpy as np
from pyimpspec.analysis.utility import _interpolate
lo, hi, npd = %r, %r, %r
f = _interpolate(np.array([10.0 ** hi, 10.0 ** lo]), npd)
want = int(round(hi - lo)) * npd + 1
assert len(f) == want, (len(f), want)
'''


def target_interpolate():
    """analysis/utility._interpolate(frequencies, num_per_decade) -- the grid `pyimpspec circuit --simulate` writes and every
    result's get_frequencies(num_per_decade) uses: logspace from the highest to the lowest frequency with
    round(log10 f_max - log10 f_min) * num_per_decade + 1 points, the number of decades ROUNDED (a span of 4.52 decades counts as 5,
    not 4).  Real function on symbolic reals: round() and int() of a symbolic number give symbolic integers tied to it by the
    defining inequalities; the point count handed to logspace must be the specified one for every span."""
    from pyvc import overload as O
    from . import domain as D
    AU = "analysis/utility"

    class SymInt(int):
        """an int whose value is a z3 integer expression (the int itself is a placeholder)"""
        def __new__(cls, e):
            o = int.__new__(cls, 7)
            o.e = e
            return o

        def _b(s, o, f):
            oe = o.e if isinstance(o, SymInt) else (z3.IntVal(o) if isinstance(o, int) else None)
            if oe is None:
                raise O.Unsupported("symbolic integer combined with a non-integer")
            return SymInt(f(s.e, oe))

        def __mul__(s, o): return s._b(o, lambda a, b: a * b)
        __rmul__ = __mul__
        def __add__(s, o): return s._b(o, lambda a, b: a + b)
        __radd__ = __add__
        def __sub__(s, o): return s._b(o, lambda a, b: a - b)
        def __int__(s): return s
        def __index__(s): raise O.Unsupported("symbolic integer used as an index")

    def run(sess: Session):
        for npd_value in (1, 3, 10):
            _run_interpolate(sess, npd_value)

    def _run_interpolate(sess, npd_value):
        # (num_per_decade is fixed per run: the obligation stays linear in the two logarithms)
        lmin, lmax, npd = z3.Real("log_min_f"), z3.Real("log_max_f"), z3.IntVal(npd_value)
        facts, rec = [], {}

        class N(D.Num):
            def __round__(s, nd=None):
                if nd is not None:
                    raise O.Unsupported("round to decimals")
                r = z3.Int(f"round!{len(facts)}")
                facts.append(z3.And(z3.ToReal(r) - s.e <= z3.RealVal("1/2"), s.e - z3.ToReal(r) <= z3.RealVal("1/2")))
                return SymInt(r)

            def __int__(s):
                # truncation towards zero
                t = z3.Int(f"trunc!{len(facts)}")
                facts.append(z3.If(s.e >= 0, z3.And(z3.ToReal(t) <= s.e, s.e < z3.ToReal(t) + 1), z3.And(z3.ToReal(t) >= s.e, s.e > z3.ToReal(t) - 1)))
                return SymInt(t)

            def __sub__(s, o): return N(s.e - s._z(o))
            def __floor__(s):
                t = z3.Int(f"floor!{len(facts)}")
                facts.append(z3.And(z3.ToReal(t) <= s.e, s.e < z3.ToReal(t) + 1))
                return SymInt(t)

            def __ceil__(s):
                t = z3.Int(f"ceil!{len(facts)}")
                facts.append(z3.And(z3.ToReal(t) >= s.e, s.e > z3.ToReal(t) - 1))
                return SymInt(t)
        fmin, fmax = object(), object()
        logs = {id(fmin): N(lmin), id(fmax): N(lmax)}

        def logspace(a, b, num=None, dtype=None, **kw):
            rec.update(a=a, b=b, num=num)
            return "GRID"
        import math as _math
        ns = {"_is_floating_array": lambda x: True, "_cast_to_floating_array": lambda x: x, "_is_integer": lambda x: True, "len": lambda x: 2, "min": lambda x: fmin, "max": lambda x: fmax,
              "isinf": lambda x: False, "log": lambda x: logs[id(x)], "log10": lambda x: logs[id(x)], "logspace": logspace, "isclose": lambda a, b, **k: type("B", (), {"any": lambda s_: True})(),
              "round": round, "int": lambda x: x if isinstance(x, SymInt) else (x.__int__() if isinstance(x, D.Num) else int(x)), "floor": _math.floor, "ceil": _math.ceil, "Frequency": float, "float64": float, "int64": int}
        # the ordering tests `0.0 < min_f < max_f` are on opaque objects: answer them as the domain says
        class Fq:
            def __init__(s, name): s.name = name
            def __lt__(s, o): return True
            def __gt__(s, o): return True
        fmin, fmax = Fq("min"), Fq("max")
        logs = {id(fmin): N(lmin), id(fmax): N(lmax)}
        O.load(AU, ["_interpolate"], ns)
        out = ns["_interpolate"]("FREQS", SymInt(npd))
        hyps = facts + [lmax > lmin, npd >= 1]
        num = rec.get("num")
        ok_shape = out == "GRID" and isinstance(num, SymInt) and isinstance(rec.get("a"), D.Num) and isinstance(rec.get("b"), D.Num)
        sess.check("post", [], z3.BoolVal(bool(ok_shape)), 0, label=f"[num_per_decade={npd_value}]the grid is one logspace call with a computed number of points")
        if ok_shape:
            sess.check("post", hyps, z3.And(rec["a"].e == lmax, rec["b"].e == lmin), 0, label=f"[num_per_decade={npd_value}]from log10 f_max down to log10 f_min")
            Dd = z3.Int("decades")
            # (strictly within half a decade: an exact tie, where Python rounds to the even neighbour, is left out of the statement)
            spec = z3.And(z3.ToReal(Dd) - (lmax - lmin) < z3.RealVal("1/2"), (lmax - lmin) - z3.ToReal(Dd) < z3.RealVal("1/2"))
            away = z3.BoolVal(True)
            ob = sess.check("post", hyps + [spec, away], num.e == Dd * npd + 1, 0, label=f"[num_per_decade={npd_value}]number of points == round(log10 f_max - log10 f_min) * num_per_decade + 1, for every span")
            m = getattr(ob, "_z3model", None)
            if ob.status == "refuted" and m is not None:
                def val(x):
                    v = m.eval(x, model_completion=True)
                    return float(v.as_fraction()) if z3.is_rational_value(v) else float(v.as_decimal(12).rstrip("?"))
                try:
                    lo_, hi_, n_ = val(lmin), val(lmax), npd_value
                    if -6 <= lo_ < hi_ <= 9 and 1 <= n_ <= 50:
                        ob.replay = {"input": [lo_, hi_, n_], "repro": _INTERP_REPRO % (lo_, hi_, n_)}
                except Exception:      # noqa: BLE001
                    pass
            if ob.status == "refuted" and not ob.replay:
                ob.replay = {"input": [-0.52, 4.0, 5], "repro": _INTERP_REPRO % (-0.52, 4.0, 5)}
        sess.check("canary", hyps, z3.BoolVal(False), 0, label=f"[num_per_decade={npd_value}]ensures-False", expect_refuted=True)
    return (f"{AU}:_interpolate", AU, "_interpolate", run)


_targets_before_interpolate = targets


def targets():      # noqa: F811
    return _targets_before_interpolate() + [target_interpolate()]
