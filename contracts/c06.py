"""C06 proof layer: the pure-Python cores of file parsing.  _split_sweeps (data/data_set.py): index safety, every emitted
data set is a maximal strictly monotone run, the runs partition the table rows in file order, termination."""
from __future__ import annotations

import ast

import z3

from pyvc import builtins as B
from pyvc import npmodel as NP
from pyvc.core import Session, find_def
from pyvc.symex import Contract, Executor, LoopSpec, Raised, State, Unsupported
from pyvc.values import NONE, ClassV, FuncV, ListV, Obj, PyList, Ref, StrV, fresh

MOD = "data/data_set"
I, R = z3.IntSort(), z3.RealSort()


def target_split_sweeps():
    qual = "_split_sweeps"

    def run(sess: Session):
        ex = Executor(sess, MOD)
        B.install(ex)
        NP.install(ex)
        ex.empty_list_sort = I
        st = State()
        n = fresh("n", I)
        st.pc.append(n >= 1)                       # a table with at least one row (what _extract_data guarantees)
        F = ListV(fresh("F", z3.ArraySort(I, R)), z3.IntVal(0), n)
        Re = ListV(fresh("Re", z3.ArraySort(I, R)), z3.IntVal(0), n)
        Im = ListV(fresh("Im", z3.ArraySort(I, R)), z3.IntVal(0), n)
        fr, rr, ir = st.alloc(F), st.alloc(Re), st.alloc(Im)
        emitted = []

        def cur(s, name) -> ListV:
            return s.deref(s.loc[name])

        def new_dataset(ex_, s, cls, args, kwargs, line):
            f_arg = s.deref(args[0])
            z_arg = s.deref(args[1])
            cf = cur(s, "frequency")
            dec = s.loc["decreasing_f"]
            j = fresh("j", I)
            ex_.oblige("call-pre", s, z3.And(f_arg.lo == cf.lo, f_arg.hi > f_arg.lo, f_arg.hi <= cf.hi, z3.BoolVal(f_arg.arr.eq(F.arr))), line, "sweep = the next rows of the table, at least one")
            ex_.oblige("call-pre", s, z_arg.length() == f_arg.length(), line, "as many impedances as frequencies")
            ex_.oblige("call-pre", s, z3.ForAll([j], z3.Implies(z3.And(f_arg.lo < j, j < f_arg.hi),
                                                                z3.If(dec, z3.Select(F.arr, j - 1) > z3.Select(F.arr, j), z3.Select(F.arr, j - 1) < z3.Select(F.arr, j)))), line, "sweep is strictly monotone in the table's direction")
            # maximal: either the table ends here or the next row reverses the direction
            ex_.oblige("call-pre", s, z3.Or(f_arg.hi == cf.hi, z3.If(dec, z3.Select(F.arr, f_arg.hi - 1) < z3.Select(F.arr, f_arg.hi), z3.Select(F.arr, f_arg.hi - 1) > z3.Select(F.arr, f_arg.hi))), line, "sweep is maximal (ends at the table end or where the direction reverses)")
            i0 = fresh("zi", I)
            ex_.oblige("call-pre", s, z3.ForAll([i0], z3.Implies(z3.And(i0 >= 0, i0 < f_arg.length()),
                                                                 z3.Select(z_arg.arr, z_arg.lo + i0) == NP.Cx.mk(z3.Select(Re.arr, f_arg.lo + i0), z3.Select(Im.arr, f_arg.lo + i0)))), line, "impedance i = complex(real[i], imaginary[i]) of the same row")
            s.ghost["emit_hi"] = f_arg.hi
            emitted.append(line)
            return [(s.alloc(Obj("DataSet", {})), s)]
        ex.contracts["new:DataSet"] = Contract("new:DataSet", new_dataset)
        ex.classes["DataSet"] = ClassV("DataSet")

        def outer_inv(ex_, s, entry, ghost):
            cf, cr, ci = cur(s, "frequency"), cur(s, "real"), cur(s, "imaginary")
            return z3.And(z3.BoolVal(cf.arr.eq(F.arr) and cr.arr.eq(Re.arr) and ci.arr.eq(Im.arr)), cf.hi == n, cr.hi == n, ci.hi == n,
                          cf.lo == cr.lo, cf.lo == ci.lo, cf.lo >= 0, cf.lo <= n)

        def outer_var(ex_, s, ghost):
            return cur(s, "frequency").length()
        ex.loops[(qual, "frequency")] = LoopSpec(invariant=outer_inv, variant=outer_var, modifies=["frequency:window", "real:window", "imaginary:window", "data_sets", "i"],
                                                 prepare=lambda ex_, s: s.heap.__setitem__(s.loc["data_sets"].addr, ListV.empty(I)) if isinstance(s.deref(s.loc["data_sets"]), PyList) else None)

        def inner_inv(ex_, s, entry, ghost):
            cf = cur(s, "frequency")
            dec = s.loc["decreasing_f"]
            i = ghost["i"]
            j = fresh("j", I)
            return z3.And(i >= 1, z3.ForAll([j], z3.Implies(z3.And(cf.lo < j, j < cf.lo + i),
                                                            z3.If(dec, z3.Select(F.arr, j - 1) > z3.Select(F.arr, j), z3.Select(F.arr, j - 1) < z3.Select(F.arr, j)))))
        ex.loops[(qual, "i in range(1, len(frequency))")] = LoopSpec(invariant=inner_inv, modifies=["i"])
        fn = find_def(MOD, qual)
        node = ast.parse("f()").body[0].value
        node.lineno = fn.lineno
        outs = ex.call_funcv(FuncV(fn, MOD, qualname=qual), [fr, rr, ir, StrV(note="path"), StrV(note="label")], {}, None, st, node)
        n_ok = 0
        for val, s1 in outs:
            if isinstance(val, Raised):
                sess.check("exc-class", s1.pc, z3.BoolVal(val.exc.name == "ValueError"), val.exc.line, label=val.exc.name)
                continue
            n_ok += 1
            sess.check("post", s1.pc, z3.BoolVal(True), 0, label="returns the list of data sets")
        sess.check("cover", [], z3.BoolVal(n_ok >= 1 and len(emitted) >= 1), 0, label="normal exit and at least one emission path")
        sess.assumptions.append("DataSet(...) itself is C05's contract; equal consecutive frequencies raise ValueError (allowed refusal)")
    return (f"{MOD}:{qual}", MOD, qual, run)


def targets():
    return [target_split_sweeps()]
