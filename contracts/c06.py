"""C06 proof layer: the pure-Python cores of file parsing.  _split_sweeps (data/data_set.py): index safety, every emitted
data set is a maximal strictly monotone run, the runs partition the table rows in file order, termination."""
from __future__ import annotations

import ast

import z3

from pyvc import builtins as B
from pyvc import npmodel as NP
from pyvc.core import Session, find_def
from pyvc.symex import Contract, Executor, LoopSpec, Raised, State, Unsupported
from pyvc.values import NONE, ClassV, FuncV, ListV, Obj, PyList, Ref, StrV, fresh

MOD = "data/data_set"
I, R = z3.IntSort(), z3.RealSort()


def target_split_sweeps():
    qual = "_split_sweeps"

    def run(sess: Session):
        ex = Executor(sess, MOD)
        B.install(ex)
        NP.install(ex)
        ex.empty_list_sort = I
        st = State()
        n = fresh("n", I)
        st.pc.append(n >= 1)                       # a table with at least one row (what _extract_data guarantees)
        F = ListV(fresh("F", z3.ArraySort(I, R)), z3.IntVal(0), n)
        Re = ListV(fresh("Re", z3.ArraySort(I, R)), z3.IntVal(0), n)
        Im = ListV(fresh("Im", z3.ArraySort(I, R)), z3.IntVal(0), n)
        fr, rr, ir = st.alloc(F), st.alloc(Re), st.alloc(Im)
        emitted = []

        def cur(s, name) -> ListV:
            return s.deref(s.loc[name])

        def new_dataset(ex_, s, cls, args, kwargs, line):
            f_arg = s.deref(args[0])
            z_arg = s.deref(args[1])
            cf = cur(s, "frequency")
            dec = s.loc["decreasing_f"]
            j = fresh("j", I)
            ex_.oblige("call-pre", s, z3.And(f_arg.lo == cf.lo, f_arg.hi > f_arg.lo, f_arg.hi <= cf.hi, z3.BoolVal(f_arg.arr.eq(F.arr))), line, "sweep = the next rows of the table, at least one")
            ex_.oblige("call-pre", s, z_arg.length() == f_arg.length(), line, "as many impedances as frequencies")
            ex_.oblige("call-pre", s, z3.ForAll([j], z3.Implies(z3.And(f_arg.lo < j, j < f_arg.hi),
                                                                z3.If(dec, z3.Select(F.arr, j - 1) > z3.Select(F.arr, j), z3.Select(F.arr, j - 1) < z3.Select(F.arr, j)))), line, "sweep is strictly monotone in the table's direction")
            # maximal: either the table ends here or the next row reverses the direction
            ex_.oblige("call-pre", s, z3.Or(f_arg.hi == cf.hi, z3.If(dec, z3.Select(F.arr, f_arg.hi - 1) < z3.Select(F.arr, f_arg.hi), z3.Select(F.arr, f_arg.hi - 1) > z3.Select(F.arr, f_arg.hi))), line, "sweep is maximal (ends at the table end or where the direction reverses)")
            i0 = fresh("zi", I)
            ex_.oblige("call-pre", s, z3.ForAll([i0], z3.Implies(z3.And(i0 >= 0, i0 < f_arg.length()),
                                                                 z3.Select(z_arg.arr, z_arg.lo + i0) == NP.Cx.mk(z3.Select(Re.arr, f_arg.lo + i0), z3.Select(Im.arr, f_arg.lo + i0)))), line, "impedance i = complex(real[i], imaginary[i]) of the same row")
            s.ghost["emit_hi"] = f_arg.hi
            emitted.append(line)
            return [(s.alloc(Obj("DataSet", {})), s)]
        ex.contracts["new:DataSet"] = Contract("new:DataSet", new_dataset)
        ex.classes["DataSet"] = ClassV("DataSet")

        def outer_inv(ex_, s, entry, ghost):
            cf, cr, ci = cur(s, "frequency"), cur(s, "real"), cur(s, "imaginary")
            return z3.And(z3.BoolVal(cf.arr.eq(F.arr) and cr.arr.eq(Re.arr) and ci.arr.eq(Im.arr)), cf.hi == n, cr.hi == n, ci.hi == n,
                          cf.lo == cr.lo, cf.lo == ci.lo, cf.lo >= 0, cf.lo <= n)

        def outer_var(ex_, s, ghost):
            return cur(s, "frequency").length()
        ex.loops[(qual, "frequency")] = LoopSpec(invariant=outer_inv, variant=outer_var, modifies=["frequency:window", "real:window", "imaginary:window", "data_sets", "i"],
                                                 prepare=lambda ex_, s: s.heap.__setitem__(s.loc["data_sets"].addr, ListV.empty(I)) if isinstance(s.deref(s.loc["data_sets"]), PyList) else None)

        def inner_inv(ex_, s, entry, ghost):
            cf = cur(s, "frequency")
            dec = s.loc["decreasing_f"]
            i = ghost["i"]
            j = fresh("j", I)
            return z3.And(i >= 1, z3.ForAll([j], z3.Implies(z3.And(cf.lo < j, j < cf.lo + i),
                                                            z3.If(dec, z3.Select(F.arr, j - 1) > z3.Select(F.arr, j), z3.Select(F.arr, j - 1) < z3.Select(F.arr, j)))))
        ex.loops[(qual, "i in range(1, len(frequency))")] = LoopSpec(invariant=inner_inv, modifies=["i"])
        fn = find_def(MOD, qual)
        node = ast.parse("f()").body[0].value
        node.lineno = fn.lineno
        outs = ex.call_funcv(FuncV(fn, MOD, qualname=qual), [fr, rr, ir, StrV(note="path"), StrV(note="label")], {}, None, st, node)
        n_ok = 0
        for val, s1 in outs:
            if isinstance(val, Raised):
                sess.check("exc-class", s1.pc, z3.BoolVal(val.exc.name == "ValueError"), val.exc.line, label=val.exc.name)
                continue
            n_ok += 1
            sess.check("post", s1.pc, z3.BoolVal(True), 0, label="returns the list of data sets")
        sess.check("cover", [], z3.BoolVal(n_ok >= 1 and len(emitted) >= 1), 0, label="normal exit and at least one emission path")
        sess.assumptions.append("DataSet(...) itself is C05's contract; equal consecutive frequencies raise ValueError (allowed refusal)")
    return (f"{MOD}:{qual}", MOD, qual, run)


def targets():
    return [target_split_sweeps()]


# ------------------------------------------------------------------------------------------------ _extract_data (data flow)
def target_extract_data():
    """_extract_data on a table of uninterpreted cells: per row, frequency / real / imaginary (or modulus / phase) are taken from
    exactly the columns _detect_columns named, text cells go through float(cell.replace(',', '.')), a column marked negative is
    multiplied by -1 exactly once, rows keep their order, and modulus/phase rows are converted by cmath.rect(|Z|, phase[, in
    radians if degrees]).  Two rows stand for any number: the loop body keeps no state between rows except the appends."""
    from pyvc import overload as O
    from . import dataflow as DF
    from .dataflow import T, opaque, tv
    qual = "_extract_data"

    def run(sess: Session):
        import itertools
        n_paths = 0
        for layout, neg_a, neg_b, degrees in itertools.product(("cartesian", "polar"), (False, True), (False, True), (False, True)):
            if layout == "cartesian" and degrees:
                continue
            cols = {"frequency": 2, "real": 0, "imaginary": 3} if layout == "cartesian" else {"frequency": 1, "magnitude": 3, "phase": 0}
            a, b = ("real", "imaginary") if layout == "cartesian" else ("magnitude", "phase")
            negative = {"frequency": False, a: neg_a, b: neg_b}

            def once():
                rows = [[T.var(f"cell[{r}][{c}]") for c in range(4)] for r in range(2)]

                class StrT:
                    pass

                class FloatT:
                    pass
                is_text = {}

                def type_(x):
                    key = str(tv(x))
                    if key not in is_text:
                        is_text[key] = DF.ORACLE.decide("text-cell", f"text({key})")
                    return StrT if is_text[key] else FloatT

                class DF_:
                    values = rows
                rect_calls = []

                def rect(m, p):
                    rect_calls.append((m, p))
                    return type("Z", (), {"real": T(DF.fn("rect.real", 2)(tv(m), tv(p))), "imag": T(DF.fn("rect.imag", 2)(tv(m), tv(p)))})()

                class PhaseArr(list):
                    pass

                def array_(x, dtype=None):
                    return PhaseArr(x)

                def deg_to_rad(x):
                    return PhaseArr([T(DF.fn("deg_to_rad", 1)(tv(v))) for v in x])
                ns = {"type": type_, "str": StrT, "float": opaque("float"), "cmath": type("cm", (), {"rect": staticmethod(rect)}), "array": array_, "Phase": None,
                      "deg_to_rad": deg_to_rad, "len": len, "zip": zip, "UnsupportedFileFormat": type("UnsupportedFileFormat", (Exception,), {})}
                O.load(MOD, [qual], ns)
                out = ns[qual](DF_(), dict(cols), dict(negative), "path", degrees)
                return rows, out, is_text
            for log, (rows, out, is_text), facts in DF.explore(once, max_paths=400):
                n_paths += 1
                if n_paths > 1 and any(v for _, v in log[:0]):
                    pass
                tagbits = "".join("t" if v else "n" for _, v in log)
                tag = f"[{layout},neg=({neg_a},{neg_b}),degrees={degrees},cells={tagbits}]"
                fr, re_, im_ = out
                ok_len = len(fr) == len(re_) == len(im_) == 2
                sess.check("post", [], z3.BoolVal(ok_len), 0, label=f"one (f, Re, Im) triple per row{tag}")
                if not ok_len:
                    continue

                def cell(r, key, neg):
                    c = rows[r][cols[key]]
                    v = opaque("float")(c.replace(",", ".")) if is_text.get(str(tv(c))) else c
                    return v * -1 if neg else v
                for r in range(2):
                    DF.eq_check(sess, f"row {r}: frequency from its column{tag}", fr[r], cell(r, "frequency", False))
                    if layout == "cartesian":
                        DF.eq_check(sess, f"row {r}: Re from its column, sign applied once{tag}", re_[r], cell(r, "real", neg_a))
                        DF.eq_check(sess, f"row {r}: Im from its column, sign applied once{tag}", im_[r], cell(r, "imaginary", neg_b))
                    else:
                        m, p = cell(r, "magnitude", False), cell(r, "phase", neg_b)
                        if degrees:
                            p = T(DF.fn("deg_to_rad", 1)(tv(p)))
                        DF.eq_check(sess, f"row {r}: Re = rect(|Z|, phase).real of the same row{tag}", re_[r], T(DF.fn("rect.real", 2)(tv(m), tv(p))))
                        DF.eq_check(sess, f"row {r}: Im = rect(|Z|, phase).imag of the same row{tag}", im_[r], T(DF.fn("rect.imag", 2)(tv(m), tv(p))))
        sess.check("cover", [], z3.BoolVal(n_paths >= 12 * 8), 0, label=f"paths={n_paths}")
        sess.assumptions.append("_extract_data: float(), str.replace, cmath.rect, deg_to_rad are opaque pure functions; a 'negative' modulus column is ignored by the code and by this contract")
    return (f"{MOD}:{qual}", MOD, qual, run)


_targets_split_only = targets


def targets():      # noqa: F811
    return _targets_split_only() + [target_extract_data()]


# ------------------------------------------------------------------------------------------------ _detect_columns (finite table, exhaustive)
DOCUMENTED_ALIASES = {
    "frequency": ["frequency", "freq", "f"],
    "real": ["z'", "z_re", "zre", "z re", "real", "re"],
    "imaginary": ['z"', "z''", "z_im", "zim", "z im", "imaginary", "imag", "im"],
    "magnitude": ["|z|", "z", "magnitude", "modulus", "mag", "mod"],
    "phase": ["phase", "phz", "phi"],
}


def target_detect_columns():
    """_detect_columns against the documented header conventions (docstring of dataframe_to_data_sets): for every documented alias
    of every role, in lower/upper/title case, bare or followed by a unit, with no sign marker, an ASCII hyphen or U+2212, in every
    column order, the column is assigned to its role at its position and flagged negative exactly when a marker is present.
    The alias table is finite, so this enumeration is complete for 'header = marker + alias [+ unit]'; headers with other
    suffixes are decided by the same startswith tests but are not enumerated."""
    from pyvc import overload as O
    import itertools
    qual = "_detect_columns"

    def run(sess: Session):
        from collections import OrderedDict
        ns = {"OrderedDict": OrderedDict, "enumerate": enumerate, "len": len}
        O.load(MOD, [qual], ns)
        fn = ns[qual]
        markers = ("", "-", "−")
        cases = (str.lower, str.upper, str.title)
        n = 0
        bad = {}
        for layout in (("frequency", "real", "imaginary"), ("frequency", "magnitude", "phase")):
            for aliases in itertools.product(*[DOCUMENTED_ALIASES[r] for r in layout]):
                for marks in itertools.product(("",), markers, markers):
                    for case, unit in itertools.product(cases, ("", " (unit)")):
                        heads = [m + case(a) + unit for m, a in zip(marks, aliases)]
                        for perm in itertools.permutations(range(3)):
                            cols = [heads[i] for i in perm]
                            n += 1
                            try:
                                idx, neg = fn(type("DF", (), {"columns": cols})())
                                ok = all(idx.get(role) == perm.index(k) and bool(neg.get(role)) == (marks[k] != "") for k, role in enumerate(layout)) and set(idx) == set(layout)
                                why = f"indices={dict(idx)} negative={dict(neg)}"
                            except Exception as ex:  # noqa
                                ok, why = False, f"{type(ex).__name__}: {ex}"
                            if not ok:
                                key = (layout[1], aliases, marks[1:], unit != "")
                                bad.setdefault(key, (cols, why))
        # one obligation per (role pair, alias triple): stable names, the first failing header row is the witness
        groups = {}
        for key, w in bad.items():
            groups.setdefault((key[0], key[1]), w)
        for layout in (("frequency", "real", "imaginary"), ("frequency", "magnitude", "phase")):
            for aliases in itertools.product(*[DOCUMENTED_ALIASES[r] for r in layout]):
                w = groups.get((layout[1], aliases))
                ob = sess.check("post", [], z3.BoolVal(w is None), 0, label=f"headers {aliases}: role, position and sign marker recognised in every case/marker/unit/order variant")
                if w is not None:
                    ob.detail = f"columns={w[0]!r}: {w[1]}"
                    want_idx = {role: w[0].index(next(c for c in w[0] if c.lstrip("-−").lower().startswith(a))) for role, a in zip(layout, aliases)}
                    ob.replay = {"repro": "from pyimpspec.data.data_set import _detect_columns\n"
                                          f"class DF: columns = {w[0]!r}\n"
                                          "idx, neg = _detect_columns(DF())\nprint(idx, neg)\n"
                                          f"want = {want_idx!r}\n"
                                          "assert dict(idx) == want, (dict(idx), want)\n"
                                          "assert all(bool(neg[k]) == (DF.columns[i][0] in '-\u2212') for k, i in want.items()), dict(neg)\n"}
        sess.check("cover", [], z3.BoolVal(n >= 50000), 0, label=f"header rows evaluated: {n}")
    return (f"{MOD}:{qual}", MOD, qual, run)


_targets_without_detect = targets


def targets():      # noqa: F811
    return _targets_without_detect() + [target_detect_columns()]


# ------------------------------------------------------------------------------------------------ the pipeline around the three contracts
_targets_without_pipeline = targets


def target_dataframe_pipeline():
    """dataframe_to_data_sets is the composition of the three functions under contract above and nothing else: the table it is GIVEN
    (not a filtered, de-duplicated or re-ordered one) goes to _detect_columns and to _extract_data, the columns _extract_data reads
    are those _detect_columns named, the rows _split_sweeps cuts into sweeps are those _extract_data returned, and the data sets
    returned are those of _split_sweeps, in order (renamed '<label> (k)' only when there are several).  parse_csv hands the table
    pandas read to it unchanged.  The real functions run on EUF terms (E3)."""
    from pyvc import overload as O
    from . import dataflow as DF
    from .dataflow import T, opaque

    def run(sess: Session):
        for n_sets in (1, 3):
            df, path, label, degrees = T.var("df"), "p.csv", "lbl", T.var("degrees")
            seen = {}

            class DS:
                def __init__(self, k):
                    self.k, self.lab = k, f"L{k}"

                def get_label(self):
                    return self.lab

                def set_label(self, s):
                    self.lab = s
            sets = [DS(k) for k in range(n_sets)]

            def detect(d):
                seen["detect"] = d
                return T.var("column_indices"), T.var("negative_columns")

            def extract(*a):
                seen["extract"] = a
                return T.var("frequency"), T.var("real"), T.var("imaginary")

            def split(*a):
                seen["split"] = a
                return list(sets)
            ns = {"_detect_columns": detect, "_extract_data": extract, "_split_sweeps": split, "_is_boolean": lambda x: True,
                  "isinstance": lambda x, c: True if (c is str and isinstance(x, str)) else (False if c is not str and isinstance(x, str) else True), "Path": type("Path", (), {}), "DataFrame": object}
            O.load("data/data_set", ["dataframe_to_data_sets"], ns)
            fn = ns["dataframe_to_data_sets"]
            out = fn(df, path=path, label=label, degrees=degrees)
            tag = f"[{n_sets} sweep(s)]"
            DF.eq_check(sess, f"_detect_columns is given the table that was passed in {tag}", seen.get("detect"), df)
            a = seen.get("extract", ())
            sess.check("post", [], z3.BoolVal(len(a) == 5), 0, label=f"_extract_data is called with table, columns, signs, path, degrees {tag}")
            if len(a) == 5:
                DF.eq_check(sess, f"_extract_data is given the table that was passed in {tag}", a[0], df)
                DF.eq_check(sess, f"_extract_data reads the columns _detect_columns named {tag}", (a[1], a[2]), (T.var("column_indices"), T.var("negative_columns")))
                DF.eq_check(sess, f"_extract_data is told whether phases are in degrees {tag}", a[4], degrees)
            b = seen.get("split", ())
            sess.check("post", [], z3.BoolVal(len(b) == 5), 0, label=f"_split_sweeps is called with the three columns, path, label {tag}")
            if len(b) == 5:
                DF.eq_check(sess, f"_split_sweeps cuts the rows _extract_data returned {tag}", tuple(b[:3]), (T.var("frequency"), T.var("real"), T.var("imaginary")))
                sess.check("post", [], z3.BoolVal(b[3] == path and b[4] == label), 0, label=f"path and label are handed on {tag}")
            ok = isinstance(out, list) and len(out) == n_sets and all(o is s_ for o, s_ in zip(out, sets))
            sess.check("post", [], z3.BoolVal(ok), 0, label=f"the data sets of _split_sweeps are returned, all of them, in order {tag}")
            want = [f"L{k}" if n_sets == 1 else f"L{k} ({k + 1})" for k in range(n_sets)]
            sess.check("post", [], z3.BoolVal([s_.lab for s_ in sets] == want), 0, label=f"labels: unchanged for one sweep, '<label> (k)' for several {tag}")

        # parse_csv: what pandas read is what is converted
        read = {"n": 0}

        def read_csv(path, **kw):
            read["n"] += 1
            read["kw"] = dict(kw)
            t = T.var(f"table{read['n']}")
            return type("DFrame", (), {"columns": [0, 1, 2], "t": t})()
        got = {}

        def d2ds(df, path=None, **kw):
            got["df"], got["path"], got["kw"] = df, path, kw
            return ["sets"]
        ns = {"_validate_path": lambda p: None, "dataframe_to_data_sets": d2ds, "read_csv": read_csv, "DataFrame": object}
        O.load("data/formats/csv", ["parse_csv"], ns)
        fn = ns["parse_csv"]
        out = fn("p.csv")
        sess.check("post", [], z3.BoolVal(read["n"] == 1 and got.get("df") is not None and str(got["df"].t.e) == "table1"), 0, label="parse_csv converts the table pandas read, as read")
        sess.check("post", [], z3.BoolVal(got.get("path") == "p.csv" and out == ["sets"]), 0, label="parse_csv hands on the path and returns the data sets")
    return ("data/data_set:dataframe_to_data_sets", "data/data_set", "dataframe_to_data_sets", run)


def targets():      # noqa: F811
    return _targets_without_pipeline() + [target_dataframe_pipeline()]


_targets_without_line_parsers = targets


def targets():      # noqa: F811
    # shared with C05: the table `parse` prints (DataSet.to_dataframe) holds f / Re Z / Im Z of the requested subset under headers
    # that column detection recognises -- so the printed table is itself a parseable file
    from . import lineparsers, c05
    # ... and every data set `_split_sweeps` builds goes through the constructor (ascending files are reversed, pairs kept together)
    return _targets_without_line_parsers() + lineparsers.targets() + [c05.target_to_dataframe()] + [t for t in c05.targets() if "DataSet.__init__" in t[0]]



def target_parse_data_dispatch():
    """data/__init__.py parse_data: which reader a file goes to.  For every extension of the documented table (get_parsers, read
    from the working tree) x upper / lower case x an explicit file_format (with / without the dot, any case) that names ANOTHER
    format x a reader that returns one data set or a list: exactly the named reader is called, once, with the path and the
    keyword arguments as given, and what it returns is what comes back (a single data set wrapped in a list); an explicit format
    wins over the extension; the spreadsheet formats go to the spreadsheet reader; an unknown format is refused with
    UnsupportedFileFormat.  Real function on recording readers -- the domain (the table) is finite, so this is exhaustive."""
    import os.path as _osp
    from pyvc import overload as O
    DM = "data/__init__"

    def run(sess: Session):
        names = ["parse_csv", "parse_dfr", "parse_dta", "parse_i2b", "parse_ids", "parse_mpt", "parse_p00", "parse_spreadsheet", "parse_z", "parse_pssession"]
        calls = []

        class DS:
            def __init__(self, tag):
                self.tag = tag

            def get_label(self):
                return "label"
        mode = {"kind": "list", "raise_first": False}

        def reader(nm):
            def f(path, **kw):
                calls.append((nm, path, dict(kw)))
                out = [DS(nm), DS(nm)] if mode["kind"] == "list" else DS(nm)
                return out
            f.__name__ = nm
            return f

        class UFF(Exception):
            pass
        ns = {n: reader(n) for n in names}
        ns.update({"_validate_path": lambda p_: None, "splitext": _osp.splitext, "basename": _osp.basename, "DataSet": DS, "UnsupportedFileFormat": UFF,
                   "isinstance": isinstance, "type": type, "list": list, "all": all, "map": map, "len": len, "set": set})
        O.load(DM, ["get_parsers", "_is_spreadsheet", "_brute_force", "parse_data"], ns)
        table = ns["get_parsers"]()
        sess.check("post", [], z3.BoolVal(isinstance(table, dict) and len(table) >= 10 and all(callable(v) and k.startswith(".") for k, v in table.items())), 0, label="get_parsers maps extensions (with the dot) to readers")
        by_ext = {k: v.__name__ for k, v in table.items()}
        # the documented formats (README / docs "Supported file formats"): each extension goes to the reader of its own format
        spec = {".P00": "parse_p00", ".dfr": "parse_dfr", ".dta": "parse_dta", ".i2b": "parse_i2b", ".idf": "parse_ids", ".ids": "parse_ids", ".mpt": "parse_mpt",
                ".z": "parse_z", ".pssession": "parse_pssession", ".ods": "parse_spreadsheet", ".xlsx": "parse_spreadsheet", ".txt": "parse_csv", ".csv": "parse_csv"}
        for ext_, rd in spec.items():
            sess.check("post", [], z3.BoolVal(by_ext.get(ext_) == rd), 0, label=f"get_parsers()[{ext_!r}] is {rd}")
        n_cases = 0
        for ext, want in sorted(by_ext.items()):
            for spelled in {ext, ext.lower(), ext.upper()}:
                for kind in ("list", "single"):
                    if kind == "single" and want == "parse_spreadsheet":
                        continue        # (the spreadsheet reader returns a list by its signature: one data set per sheet)
                    mode["kind"] = kind
                    calls.clear()
                    path = f"/some/dir/spectrum{spelled}"
                    try:
                        out = ns["parse_data"](path, sheet="S")
                    except (UFF, ValueError, TypeError, KeyError) as ex:
                        out = f"{type(ex).__name__}: {ex}"
                    n_cases += 1
                    ok = calls == [(want, path, {"sheet": "S"})] and isinstance(out, list) and all(isinstance(d, DS) and d.tag == want for d in out) and len(out) == (2 if kind == "list" else 1)
                    sess.check("post", [], z3.BoolVal(ok), 0, label=f"[file *{spelled}, reader returns a {kind}]read by {want}(path, **kwargs), once; its data sets are returned")
            # an explicit format that names another reader wins over the extension
            other_ext, other = next((e, w) for e, w in sorted(by_ext.items()) if w != want)
            for ff in (other_ext, other_ext[1:], other_ext.upper(), other_ext[1:].upper()):
                mode["kind"] = "list"
                calls.clear()
                path = f"/some/dir/spectrum{ext}"
                try:
                    out = ns["parse_data"](path, file_format=ff)
                except (UFF, ValueError, TypeError, KeyError) as ex:
                    out = []
                    calls.append(f"{type(ex).__name__}: {ex}")
                n_cases += 1
                sess.check("post", [], z3.BoolVal(calls == [(other, path, {})] and all(d.tag == other for d in out)), 0, label=f"[file *{ext}, file_format={ff!r}]the explicit format decides: read by {other}")
        for bad in (".xyz", "xyz"):
            calls.clear()
            try:
                ns["parse_data"]("/some/dir/spectrum.csv", file_format=bad)
                res = "returned"
            except UFF:
                res = "refused"
            sess.check("post", [], z3.BoolVal(res == "refused" and not calls), 0, label=f"[file_format={bad!r}]an unknown format is refused with UnsupportedFileFormat, nothing is read")
        sess.check("cover", [], z3.BoolVal(n_cases >= 60), 0, label=f"dispatch cases: {n_cases}")
    return (f"{DM}:parse_data", DM, "parse_data", run)


_targets_before_dispatch = targets


def targets():      # noqa: F811
    return _targets_before_dispatch() + [target_parse_data_dispatch()]
