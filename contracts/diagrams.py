"""C20: contracts on the real layout routines `to_drawing` (schemdraw) and `to_circuitikz`, discharged by pyvc.hoare (E5).

Every nested function of the two routines is put under a contract and verified against it with the recursive calls replaced by
the contracts (structural induction over the connection tree); the routine's main part is then verified against the property
with the nested functions replaced by their contracts.  Quantification: every tree of Series / Parallel / Element objects in
which each connection has at least one child and no object occurs twice, any number of children, any depth.

to_drawing
  draw_element   adds exactly one component: of the schemdraw class the routine's own table gives for the element's class
                 (ResistorIEC otherwise), labelled `$<symbol>_{\\rm <label or identifier>}$` (custom label / nothing when asked)
  get_width/get_height  never raise; a parallel connection is at least as wide as each of its branches
  draw_series / draw_parallel   every element below the connection is drawn exactly once, nothing else is drawn; every
                 push() is matched by a pop() (and no pop() without a push of its own); never raise
  main           the drawing holds one component per element of the circuit, between two terminal dots

to_circuitikz: see `target_circuitikz` below."""
from __future__ import annotations

import ast
from typing import Any, Dict, List

import z3

from pyvc import core
from pyvc import hoare as H
from pyvc.core import Session
from pyvc.hoare import NodeS, Rv, child, ctx, is_conn, is_elem, kind, nchild, sub, br

SCHEM = "circuit/diagrams/schemdraw"
TIKZ = "circuit/diagrams/circuitikz"
ELEMENT_CLASSES = ["Resistor", "Capacitor", "ConstantPhaseElement", "Inductor", "ModifiedInductor"]

I, R, B = z3.IntSort(), z3.RealSort(), z3.BoolSort()


def wf(n):
    """every connection at or below n has at least one child, every node is a connection or an element"""
    m = z3.Const("m", NodeS)
    return z3.ForAll([m], z3.Implies(sub(n, m), z3.And(z3.Or(is_conn(m), is_elem(m)), z3.Implies(is_conn(m), nchild(m) >= 1), z3.Not(H.is_wire(m)))), patterns=[sub(n, m)])


def wf_body(m):
    return z3.And(z3.Or(is_conn(m), is_elem(m)), z3.Implies(is_conn(m), nchild(m) >= 1), z3.Not(H.is_wire(m)))


def check_wf(label, n):
    """obligation wf(n), for an arbitrary node m1 below n (descent is instantiated for the pair by hand)"""
    c = ctx()
    m1 = z3.Const(f"m1!{next(c.fresh)}", NodeS)
    c.sess.check("call-pre", c.pc + [H.descent(n, m1)], z3.Implies(sub(n, m1), wf_body(m1)), 0, label=label, ematching_first=True)


def below(n, e):
    return z3.And(sub(n, e), is_elem(e))



def make_no_raise(module):
    def no_raise(fn_name, call):
        """run; an exception the real code raises on a feasible path is a failed obligation"""
        c = ctx()
        try:
            return True, call()
        except (H.PathEnd, H.Unsupported):
            raise
        except Exception as ex:        # noqa: BLE001 - whatever the real code raises
            if c.dead:
                raise H.PathEnd()
            import traceback
            where = [f for f in traceback.extract_tb(ex.__traceback__) if f.filename.startswith("<hoare:")]
            at = f" (line {where[-1].lineno} of {where[-1].name})" if where else ""
            if H.classify_exception(ex, module) != "raised":
                raise H.Unsupported(f"real code left the modelled subset{at}: {type(ex).__name__}: {str(ex)[:160]}")
            ob = c.check(f"{fn_name} does not raise", z3.BoolVal(False), "no-raise")
            ob.detail = f"{type(ex).__name__}: {str(ex)[:160]}{at}"
            return False, None
    return no_raise

# ------------------------------------------------------------------------------------------------ schemdraw stand-ins

class ElmObj:
    def __init__(self, cls, kw):
        self.cls, self.kw, self.labels = cls, kw, []

    def label(self, text, *a, **k):
        self.labels.append(text)
        return self

    def right(self, *a): return self
    def left(self, *a): return self
    def up(self, *a): return self
    def down(self, *a): return self


class _ElmFactory:
    def __init__(self, name):
        self.name = name

    def __call__(self, *a, **kw):
        return ElmObj(self.name, kw)

    def __repr__(self):
        return f"elm.{self.name}"


class Elm:
    def __getattr__(self, name):
        if name.startswith("__"):
            raise AttributeError(name)
        f = _ElmFactory(name)
        setattr(self, name, f)
        return f


class Drawing:
    """ghost: depth = pushes - pops; drawn[e] = number of components added for element e (through draw_element);
    `floor`: depth at the entry of the function under verification (it must not pop below it)"""

    def __init__(self, canvas=None, symbolic=True):
        c = ctx()
        if symbolic:
            n = next(c.fresh)
            self.g = H.Ghost("drawing", depth=z3.Int(f"depth!{n}"), drawn=z3.Const(f"drawn!{n}", z3.ArraySort(NodeS, I)))
        else:
            self.g = H.Ghost("drawing", depth=z3.IntVal(0), drawn=z3.K(NodeS, z3.IntVal(0)))
        self.floor = self.g.f["depth"]
        self.added: List[Any] = []
        self.components_outside_draw_element = 0

    def config(self, **kw):
        pass

    def push(self):
        self.g.f["depth"] = self.g.f["depth"] + 1

    def pop(self):
        ctx().check("pop() only undoes a push() made by the same call", self.g.f["depth"] > self.floor, "call-pre")
        self.g.f["depth"] = self.g.f["depth"] - 1

    def add(self, obj):
        self.added.append(obj)
        if isinstance(obj, ElmObj) and obj.cls not in ("Line", "Dot"):
            self.components_outside_draw_element += 1
            if not getattr(self, "allow_components", False):
                # judged where it happens (a generic loop iteration ends its path before the function returns)
                ctx().check("components are added through draw_element only", z3.BoolVal(False), "call-pre")
        return obj


class Identifiers:
    """result of generate_element_identifiers: an integer for every element of the tree (contract of that method: C16)"""

    def __init__(self, root):
        self.root = root

    def __getitem__(self, e):
        c = ctx()
        c.check("identifiers are asked for elements of the circuit only", below(self.root, e.t), "call-pre")
        return c.placeholder(f"identifier({e.t})", ("identifier", e))


class IdNumber:
    pass


class CustomLabels:
    def __init__(self):
        self.asked = []

    def __contains__(self, e):
        return ctx().decide(z3.Bool(f"custom_label({e.t})"), "element has a custom label")

    def __getitem__(self, e):
        return ctx().placeholder(f"custom({e.t})", ("custom", e))

    def keys(self):
        return []

    def values(self):
        return []


# ------------------------------------------------------------------------------------------------ to_drawing

def _drawing_setup(sess: Session):
    outer = core.find_def(SCHEM, "to_drawing")
    space = H.NodeSpace(ELEMENT_CLASSES)
    specs = H.LoopSpecs()
    ns = H.base_namespace(space)
    elm = Elm()
    ns.update({"elm": elm, "Drawing": Drawing, "_is_floating": lambda x: True, "isinstance": _isinstance(space)})
    base = H.tree_axioms()
    Wf = z3.Function("W", NodeS, R)
    Hf = z3.Function("Hh", NodeS, R)
    return outer, space, specs, ns, elm, base, Wf, Hf


def _isinstance(space):
    import builtins

    def f(x, cls):
        if isinstance(x, space.AnyElement) and isinstance(cls, type) and issubclass(cls, space.Element) and cls is not space.Element:
            return issubclass(space.class_of(x), cls)
        if cls is float and isinstance(x, Rv):
            return True
        if cls is dict and isinstance(x, CustomLabels):
            return True
        return builtins.isinstance(x, cls)
    return f


def _eval_outer_constants(outer: ast.FunctionDef, names: List[str], ns: Dict[str, Any]) -> Dict[str, Any]:
    """evaluate `name = <display of constants and names>` statements of the real routine (its lookup tables)"""
    out: Dict[str, Any] = {}
    for s in outer.body:
        tgt = s.targets[0] if isinstance(s, ast.Assign) else s.target if isinstance(s, ast.AnnAssign) else None
        if isinstance(tgt, ast.Name) and tgt.id in names and getattr(s, "value", None) is not None:
            out[tgt.id] = eval(compile(ast.Expression(body=s.value), "<outer-constant>", "eval"), dict(ns), dict(out))
    missing = [n for n in names if n not in out]
    if missing:
        raise H.Unsupported(f"the routine no longer defines {missing} by a simple assignment")
    return out


def expected_label(e, hide_labels: bool, custom, has_custom: bool, placeholders) -> List[str]:
    if hide_labels:
        return []
    if custom is not None and has_custom:
        return [f"⟦custom({e.t})⟧"]
    return None


def target_to_drawing():
    def run(sess: Session):
        outer, space, specs, ns, elm, base, Wf, Hf = _drawing_setup(sess)
        sess.assumptions.append(H.TREE_ASSUMPTION)
        sess.assumptions.append("schemdraw itself (Drawing, elements) is not verified: stand-ins record what the routine hands to it")
        sess.assumptions.append("generate_element_identifiers gives an identifier to every element of the tree (C16 contracts)")
        sess.assumptions.append("termination of the recursion (structural on a finite tree) is not proved")
        sess.assumptions.append("Connection.__iter__ yields the direct children in order (one-line method `iter(self._elements)`), as the stand-in connections do")
        consts = _eval_outer_constants(outer, ["lookup", "unit_width"], ns)
        nested = H.nested_defs(outer)
        for need in ("draw_element", "get_width", "get_height", "draw_parallel", "draw_series"):
            if need not in nested:
                raise H.Unsupported(f"to_drawing has no nested function {need}")
        pure = [n for n in ("get_width", "get_height") if H.assigned_nonlocals(outer)[n] or any(
            isinstance(c, ast.Call) and isinstance(c.func, ast.Name) and c.func.id in nested and c.func.id != n for c in ast.walk(nested[n]))]
        sess.check("pre", [], z3.BoolVal(not pure), 0, label="get_width / get_height assign no shared variable and call only themselves (their value is a function of the node)")

        # ---- loop invariants (sidecar)
        st: Dict[str, Any] = {}       # per-path handles set by the harness: node under verification, entry ghost, skolem element

        def ghost():
            return ctx().state["ghost:drawing"].f

        @specs.add("get_width", 1)
        def _(env):
            return [("one width per visited child", env.unique(H.SymList, "widths").len == env.i)]

        @specs.add("get_width", 2)
        def _(env):
            w = env.unique(H.SymList, "widths")
            j = z3.Int("j")
            return [("one width per visited child", w.len == env.i),
                    ("the widths are those of the children", z3.ForAll([j], z3.Implies(z3.And(0 <= j, j < env.i), z3.Select(w.arr, j) == Wf(child(st["n"], j)))))]

        @specs.add("get_height", 1)
        def _(env):
            return [("one height per visited child", env.unique(H.SymList, "heights").len == env.i)]

        @specs.add("get_height", 2)
        def _(env):
            return [("one height per visited child", env.unique(H.SymList, "heights").len == env.i)]

        def drawn_inv(env, cond):
            g = ghost()
            e0 = st["e0"]
            return ("elements of the visited children are drawn once, nothing else",
                    z3.Select(g["drawn"], e0) == z3.Select(st["drawn0"], e0) + z3.If(z3.And(below(st["n"], e0), cond), 1, 0))

        @specs.add("draw_series", 1)
        def _(env):
            g = ghost()
            return [("push/pop balanced", g["depth"] == st["depth0"]), drawn_inv(env, br(st["n"], st["e0"]) < env.i)]

        @specs.add("draw_parallel", 1)
        def _(env):
            g = ghost()
            n = nchild(st["n"])
            return [("one push per branch but the last", g["depth"] == st["depth0"] + z3.If(env.i < n - 1, env.i, n - 1)),
                    ("nothing drawn yet", z3.Select(g["drawn"], st["e0"]) == z3.Select(st["drawn0"], st["e0"]))]

        @specs.add("draw_parallel", 2)
        def _(env):
            g = ghost()
            n = nchild(st["n"])
            t = env.i
            return [("one pop per branch but the first", g["depth"] == st["depth0"] + (n - 1) - z3.If(t < n - 1, t, n - 1)),
                    drawn_inv(env, br(st["n"], st["e0"]) >= n - t)]

        # ---- contracts as stand-ins
        def s_get_width(n):
            c = ctx()
            check_wf("get_width is asked for a well-formed node", n.t)
            i = z3.Int("i")
            c.assume(z3.Implies(kind(n.t) == H.K_PARALLEL, z3.ForAll([i], z3.Implies(z3.And(0 <= i, i < nchild(n.t)), Wf(child(n.t, i)) <= Wf(n.t)), patterns=[child(n.t, i)])))
            return Rv(Wf(n.t))

        def s_get_height(n):
            check_wf("get_height is asked for a well-formed node", n.t)
            return Rv(Hf(n.t))

        def effect_draw(n):
            """havoc + post of draw_series / draw_parallel / draw_element on node n"""
            c = ctx()
            g = ghost()
            old = g["drawn"]
            new = z3.Const(f"drawn!{next(c.fresh)}", z3.ArraySort(NodeS, I))
            e = z3.Const("e", NodeS)
            c.assume(z3.ForAll([e], z3.Select(new, e) == z3.Select(old, e) + z3.If(below(n.t, e), 1, 0), patterns=[z3.Select(new, e)]))
            g["drawn"] = new

        def s_draw_element(elem, drawing):
            ctx().check("draw_element is given an element", is_elem(elem.t), "call-pre")
            effect_draw(elem)

        def s_draw_series(series, drawing, outermost=False):
            c = ctx()
            c.check("draw_series is given a series connection", kind(series.t) == H.K_SERIES, "call-pre")
            check_wf("draw_series is given a well-formed connection", series.t)
            effect_draw(series)

        def s_draw_parallel(parallel, drawing):
            c = ctx()
            c.check("draw_parallel is given a parallel connection", kind(parallel.t) == H.K_PARALLEL, "call-pre")
            check_wf("draw_parallel is given a well-formed connection", parallel.t)
            effect_draw(parallel)

        standins = {"get_width": s_get_width, "get_height": s_get_height, "draw_element": s_draw_element, "draw_series": s_draw_series, "draw_parallel": s_draw_parallel}
        vc = H.VC(specs, space)
        counts = {"paths": 0}

        def unit_for(c, hide_labels, custom, root, node_height):
            make, free = H.build_unit(outer, ns, vc, standins)
            env = {"custom_labels": custom, "hide_labels": hide_labels, "identifiers": Identifiers(root.t), "lookup": consts["lookup"], "node_height": node_height,
                   "unit_width": consts["unit_width"]}
            missing = [f for f in free if f not in env]
            if missing:
                raise H.Unsupported(f"nested functions of to_drawing use outer variables the contract does not know: {missing}")
            return make(**{k: env[k] for k in free})

        no_raise = make_no_raise(SCHEM)

        # ---- draw_element
        def run_draw_element(c):
            counts["paths"] += 1
            hide = c.decide(z3.Bool("hide_labels"), "hide_labels")
            custom = CustomLabels() if c.decide(z3.Bool("custom_labels_given"), "custom_labels given") else None
            t = z3.Const("elem", NodeS)
            c.assume(is_elem(t), space.kinds_fact(t, element_only=True))
            e = space.node_of(t)
            # what the element is called is fixed BEFORE the code runs (so that code which never asks is still judged)
            has_label = c.decide(z3.Bool(f"has_label({t})"), "element has a label")
            has_custom = custom is not None and c.decide(z3.Bool(f"custom_label({t})"), "element has a custom label")
            real = unit_for(c, hide, custom, e, Rv(z3.Real("node_height")))
            d = Drawing()
            d.allow_components = True
            ok, _ = no_raise("draw_element", lambda: real["draw_element"](e, d))
            if not ok:
                return
            c.canary("draw_element, at return")
            comps = [o for o in d.added if isinstance(o, ElmObj)]
            c.check("draw_element adds exactly one component", z3.BoolVal(len(d.added) == 1 and len(comps) == 1), "post")
            if len(comps) != 1:
                return
            want_cls = consts["lookup"].get(space.class_of(e), elm.ResistorIEC)
            c.check("the component is of the class the routine's table gives for the element's class", z3.BoolVal(comps[0].cls == want_cls.name), "post")
            if hide:
                want = []
            elif has_custom:
                want = [f"⟦custom({t})⟧"]
            else:
                want = [f"$⟦symbol({t})⟧_{{\\rm " + (f"⟦label({t})⟧" if has_label else f"⟦identifier({t})⟧") + "}$"]
            ob = c.check("the component is named as the circuit names the element: $<symbol>_{\\rm <label or identifier>}$ (custom label if given, none if hidden)",
                         z3.BoolVal(comps[0].labels == want), "post")
            if comps[0].labels != want:
                ob.detail = f"labels {comps[0].labels!r}, expected {want!r}"
            c.check("push/pop untouched", d.g.f["depth"] == d.floor, "post")
        H.explore(sess, base, run_draw_element)

        # ---- get_width / get_height
        def run_measure(which, F):
            def go(c):
                counts["paths"] += 1
                t = z3.Const("node", NodeS)
                c.assume(wf(t), z3.Not(H.is_wire(t)), z3.Or(is_conn(t), is_elem(t)))
                n = space.node_of(t)
                st["n"] = t
                nh = Rv(z3.Real("node_height"))
                c.assume(nh.e > 0)
                real = unit_for(c, False, None, n, nh)
                ok, r = no_raise(which, lambda: real[which](n))
                if not ok:
                    return
                c.canary(f"{which}, at return")
                c.check(f"{which} returns a number", z3.BoolVal(isinstance(r, (Rv, int, float))), "post")
                if which == "get_width" and isinstance(n, space.Parallel):
                    i0 = z3.Int("i0")
                    c.check("a parallel connection is at least as wide as each branch", z3.Implies(z3.And(0 <= i0, i0 < nchild(t)), Wf(child(t, i0)) <= H._z(r)), "post")
            H.explore(sess, base, go)
        run_measure("get_width", Wf)
        run_measure("get_height", Hf)

        # ---- draw_series / draw_parallel
        def run_draw(which, k):
            def go(c):
                counts["paths"] += 1
                t = z3.Const("node", NodeS)
                e0 = z3.Const("e0", NodeS)
                c.assume(wf(t), kind(t) == k, z3.Not(H.is_wire(t)))
                n = space.node_of(t)
                d = Drawing()
                c.skolems.append(e0)
                c.assume(H.descent(t, e0))
                st.update(n=t, e0=e0, drawn0=d.g.f["drawn"], depth0=d.g.f["depth"])
                nh = Rv(z3.Real("node_height"))
                c.assume(nh.e > 0)
                real = unit_for(c, False, None, n, nh)
                args = (n, d) if which == "draw_parallel" else (n, d, c.decide(z3.Bool("outermost"), "outermost"))
                ok, _ = no_raise(which, lambda: real[which](*args))
                if not ok:
                    return
                g = d.g.f
                c.canary(f"{which}, at return")
                c.check(f"{which}: every element below the connection is drawn exactly once and nothing else is drawn",
                        z3.Select(g["drawn"], e0) == z3.Select(st["drawn0"], e0) + z3.If(below(t, e0), 1, 0), "post")
                c.check(f"{which}: every push() is matched by a pop()", g["depth"] == st["depth0"], "post")
                c.check(f"{which}: components are added through draw_element only", z3.BoolVal(d.components_outside_draw_element == 0), "post")
            H.explore(sess, base, go)
        run_draw("draw_series", H.K_SERIES)
        run_draw("draw_parallel", H.K_PARALLEL)

        # ---- main part
        main = H.build_main(outer, ns, vc, standins)

        class Circuit:
            def __init__(self, root):
                self.root = root

            def get_connections(self, recursive=False):
                return [self.root]

            def generate_element_identifiers(self, running=False):
                return Identifiers(self.root.t)

        def run_main(c):
            counts["paths"] += 1
            t = z3.Const("root", NodeS)
            e0 = z3.Const("e0", NodeS)
            c.assume(wf(t), is_conn(t), z3.Not(H.is_wire(t)))
            c.skolems.append(e0)
            c.assume(H.descent(t, e0))
            root = space.node_of(t)
            root.generate_element_identifiers = lambda running=False: Identifiers(root.t)
            as_circuit = isinstance(root, space.Series) and c.decide(z3.Bool("self_is_circuit"), "called on a Circuit")
            me = Circuit(root) if as_circuit else root
            hide = c.decide(z3.Bool("hide_labels"), "hide_labels")
            nh = Rv(z3.Real("node_height"))
            c.assume(nh.e > 0)
            made: List[Drawing] = []
            custom = CustomLabels() if c.decide(z3.Bool("custom_labels_given"), "custom_labels given") else None

            def mk(canvas=None):
                d = Drawing(symbolic=False)
                made.append(d)
                return d
            main.__globals__["Drawing"] = mk
            # the nested functions were verified for particular values of the variables they close over: the main part has to bind
            # exactly those -- checked in the frame of the main part at the moment it calls draw_series
            orig_ds = main.__globals__["__standins"]["draw_series"]

            def first_draw_series(series, drawing, outermost=False):
                import sys
                loc = sys._getframe(1).f_locals
                ids = loc.get("identifiers")
                okv = isinstance(ids, Identifiers) and ids.root is t and loc.get("hide_labels") is hide and loc.get("custom_labels") is custom and loc.get("node_height") is nh \
                    and loc.get("lookup") == consts["lookup"] and loc.get("unit_width") == consts["unit_width"]
                ob = c.check("to_drawing: what the nested functions close over is the circuit's identifier map (for every element, whatever the label options), the caller's label options and node height, the routine's own tables",
                             z3.BoolVal(okv), "call-pre")
                if not okv:
                    ob.detail = f"identifiers={type(ids).__name__}, hide_labels={loc.get('hide_labels')!r}, custom_labels={type(loc.get('custom_labels')).__name__}"
                return orig_ds(series, drawing, outermost)
            main.__globals__["__standins"]["draw_series"] = first_draw_series
            try:
                ok, out = no_raise("to_drawing", lambda: main(me, node_height=nh, left_terminal_label="WE", right_terminal_label="CE", hide_labels=hide,
                                                              running=False, custom_labels=custom))
            finally:
                main.__globals__["__standins"]["draw_series"] = orig_ds
            if not ok:
                return
            c.canary("to_drawing, at return")
            c.check("to_drawing returns the drawing it made", z3.BoolVal(len(made) == 1 and out is made[0]), "post")
            d = made[0]
            g = d.g.f
            c.check("to_drawing: one component per element of the circuit, none for anything else", z3.Select(g["drawn"], e0) == z3.If(below(t, e0), 1, 0), "post")
            c.check("to_drawing: push/pop balanced at the end", g["depth"] == 0, "post")
            dots = [o for o in d.added if isinstance(o, ElmObj) and o.cls == "Dot"]
            ends = len(d.added) >= 2 and d.added[0] in dots and d.added[-1] in dots and len(dots) == 2
            c.check("to_drawing: the drawing starts and ends with a terminal dot", z3.BoolVal(ends), "post")
            want = [[], []] if hide else [["WE"], ["CE"]]
            c.check("to_drawing: the terminals carry the given labels (none when hidden)", z3.BoolVal(ends and [x.labels for x in dots] == want), "post")
        H.explore(sess, base, run_main)
        sess.check("cover", [], z3.BoolVal(counts["paths"] >= 40), 0, label=f"paths executed: {counts['paths']}")
    return (f"{SCHEM}:to_drawing", SCHEM, "to_drawing", run)


def targets():
    return [target_to_drawing()]


# ------------------------------------------------------------------------------------------------ to_circuitikz

def _hc(P):
    return (P.has, P.cols) if isinstance(P, H.SymDict) else P


def G1(P):
    """every placed node lies on or below the base line (y <= 0)"""
    has, cols = _hc(P)
    m = z3.Const("m", NodeS)
    return z3.ForAll([m], z3.Implies(z3.Select(has, m), z3.Select(cols[1], m) <= 0), patterns=[z3.Select(has, m)])


def lay(P, p):
    has, cols = _hc(P)
    c0, c1 = child(p, 0), child(p, 1)
    return z3.And(z3.Select(has, c0), z3.Select(has, c1), z3.Select(cols[1], c1) <= z3.Select(cols[1], c0) - 1)


def G2(P):
    """a placed parallel connection with two or more branches has its first two branches placed, at least one row apart"""
    has, cols = _hc(P)
    q = z3.Const("q", NodeS)
    return z3.ForAll([q], z3.Implies(z3.And(z3.Select(has, q), kind(q) == H.K_PARALLEL, nchild(q) >= 2), lay(P, q)), patterns=[z3.Select(has, q)])


def FRESH(P, n, visited=None):
    """nothing at or below n is placed yet (except, with `visited`, what lies below the first `visited` children)"""
    has, _ = _hc(P)
    m = z3.Const("m", NodeS)
    todo = sub(n, m) if visited is None else z3.And(sub(n, m), z3.Not(z3.And(m != n, br(n, m) < visited)))
    return z3.ForAll([m], z3.Implies(todo, z3.Not(z3.Select(has, m))), patterns=[z3.Select(has, m)])


def ischild(n):
    return z3.And(0 <= H.idx(n), H.idx(n) < nchild(H.par(n)), child(H.par(n), H.idx(n)) == n)


def NPK(P, n):
    """the connection n hangs in (if any) has not been placed yet"""
    has, _ = _hc(P)
    return z3.Implies(ischild(n), z3.Not(z3.Select(has, H.par(n))))


def vframe(P0, P1, n):
    """outside the subtree of n (short wires aside) nothing is moved"""
    has0, cols0 = _hc(P0)
    has1, cols1 = _hc(P1)
    m = z3.Const("m", NodeS)
    same = z3.And(z3.Select(has1, m) == z3.Select(has0, m), *[z3.Select(a, m) == z3.Select(b, m) for a, b in zip(cols1, cols0)])
    return z3.ForAll([m], z3.Implies(z3.And(z3.Not(sub(n, m)), z3.Not(H.is_wire(m))), same), patterns=[z3.Select(cols1[1], m), z3.Select(has1, m)])


def target_circuitikz():
    """to_circuitikz, phase 1 (layout: `phase_1_series`, `phase_1_parallel`, with `phase_1_element` and `short_wire` run as they
    are) and phase 2 (`phase_2`, with `replace_variables` run as it is), then the main part.

      phase_1_series / phase_1_parallel (n, x, y)   every node at or below n gets a position and a dimension (same key sets);
                 nothing else does except new short wires (integer keys above the old counter); earlier keys stay; the returned
                 dimension is at least 1 x 1 and is stored for n; the nesting counter is restored; never raise
      phase_2    for every key of `positions`: an element -> exactly one `\\draw ... to[<symbol of its class>=$<name>$] ...;` line,
                 named as the circuit names it; a series -> nothing; a parallel -> `to[short]` wires only; a short wire -> one
                 `to[short]` line; no line opens or closes an environment
      main       lines start with \\begin{circuitikz}, end with \\end{circuitikz}, no other begin/end; the key sets are equal (the
                 routine's own consistency check cannot fire); hence one component per element of the circuit, no more"""
    import re

    def run(sess: Session):
        outer = core.find_def(TIKZ, "to_circuitikz")
        sess.assumptions.append(H.TREE_ASSUMPTION)
        sess.assumptions.append("generate_element_identifiers gives an identifier to every element of the tree (C16 contracts)")
        sess.assumptions.append("iterating over a dictionary visits every key once (CPython); termination of the recursion is not proved")
        sess.assumptions.append("Connection.__iter__ yields the direct children in order (one-line method `iter(self._elements)`), as the stand-in connections do; "
                                "the real Connection.contains is executed (its `any(item is x for item in self._elements)` is read as \"x is a direct child\")")
        nested = H.nested_defs(outer)
        for need in ("short_wire", "phase_1_element", "phase_1_series", "phase_1_parallel", "replace_variables", "phase_2"):
            if need not in nested:
                raise H.Unsupported(f"to_circuitikz has no nested function {need}")
        base = H.tree_axioms()
        counts = {"paths": 0}
        st: Dict[str, Any] = {}
        specs = H.LoopSpecs()

        def sd(name) -> H.SymDict:
            return ctx().state[name]

        def cellv(name):
            return H._z(ctx().state["cell:" + name].value)

        def newwire(m, sc0, sc1):
            return z3.And(H.is_wire(m), H.wire_no(m) > sc0, H.wire_no(m) <= sc1)

        # ---- phase 1: invariants.  `done(m)`: m lies below one of the children visited so far
        def phase1_inv(env, extra_nnp):
            n, m0 = st["n"], st["m0"]
            P, D = sd("positions"), sd("dimensions")
            P0, D0 = st["P0"], st["D0"]
            sc, sc0 = cellv("short_counter"), st["sc0"]
            done = z3.And(sub(n, m0), m0 != n, br(n, m0) < env.i)
            return [("positions and dimensions have the same keys", P.has == D.has),
                    ("earlier keys stay", z3.Implies(z3.Select(P0[0], m0), z3.Select(P.has, m0))),
                    ("every node below a visited child has a position", z3.Implies(done, z3.Select(P.has, m0))),
                    ("new keys are nodes below visited children or new short wires", z3.Implies(z3.And(z3.Select(P.has, m0), z3.Not(z3.Select(P0[0], m0))), z3.Or(done, newwire(m0, sc0, sc)))),
                    ("the wire counter only grows", sc >= sc0),
                    ("the nesting counter is as on entry" + (" plus one" if extra_nnp else ""), cellv("num_nested_parallels") == st["nnp0"] + extra_nnp),
                    ("width and height are not negative", z3.And(H._z(env.loc["width"]) >= 0, H._z(env.loc["height"]) >= 0)),
                    ("the connection itself and what lies below its unvisited children is not placed yet", FRESH(P, n, env.i)),
                    ("outside the connection's subtree nothing is moved (short wires aside)", vframe(P0, P, n)),
                    ("the connection it hangs in is not placed yet", NPK(P, n)),
                    ("every placed node lies on or below the base line", G1(P)),
                    ("placed parallel connections have their first two branches a row apart", G2(P))]

        @specs.add("phase_1_series", 1)
        def _(env):
            return phase1_inv(env, 0)

        @specs.add("phase_1_parallel", 1)
        def _(env):
            n = st["n"]
            P = sd("positions")
            y = st["y"]
            h = H._to_real(H._z(env.loc["height"]))
            c0, c1 = child(n, 0), child(n, 1)
            own = z3.And(h >= z3.ToReal(env.i), z3.Implies(env.i == 0, h == 0),
                         z3.Implies(env.i >= 1, z3.And(z3.Select(P.has, c0), z3.Select(P.cols[1], c0) == -y)),
                         z3.Implies(env.i >= 2, z3.And(z3.Select(P.has, c1), z3.Select(P.cols[1], c1) <= -y - 1)))
            return phase1_inv(env, 1) + [("the first branch sits at the top, the second at least a row below; the height grows by at least one per branch", own)]

        # ---- phase 1: contract as stand-in
        def s_phase_1(which, k):
            def standin(n, x, y):
                c = ctx()
                c.check(f"{which} is given a {'series' if k == H.K_SERIES else 'parallel'} connection", kind(n.t) == k, "call-pre")
                check_wf(f"{which} is given a well-formed connection", n.t)
                P, D = sd("positions"), sd("dimensions")
                c.check(f"{which} is called with equal key sets", P.has == D.has, "call-pre")
                c.check(f"{which} is called with y >= 0", H._to_real(H._z(y)) >= 0, "call-pre")
                c.check(f"{which}: nothing at or below the connection is placed yet", FRESH(P, n.t), "call-pre")
                c.check(f"{which}: the connection it hangs in is not placed yet", NPK(P, n.t), "call-pre")
                c.check(f"{which} is called with every placed node on or below the base line", G1(P), "call-pre")
                c.check(f"{which} is called with every placed parallel connection laid out", G2(P), "call-pre")
                p0 = P.snapshot()
                sc_cell = c.state["cell:short_counter"]
                sc0 = H._z(sc_cell.value)
                P.havoc()
                D.havoc()
                sc_cell.havoc()
                sc1 = H._z(sc_cell.value)
                m = z3.Const("m", NodeS)
                w, h = c.fresh_real("w"), c.fresh_real("h")
                c.assume(P.has == D.has, sc1 >= sc0, w.e >= 1, h.e >= 1,
                         z3.ForAll([m], z3.Implies(z3.Select(p0[0], m), z3.Select(P.has, m)), patterns=[z3.Select(p0[0], m)]),
                         z3.ForAll([m], z3.Implies(sub(n.t, m), z3.Select(P.has, m)), patterns=[sub(n.t, m)]),
                         z3.ForAll([m], z3.Implies(z3.And(z3.Select(P.has, m), z3.Not(z3.Select(p0[0], m))), z3.Or(sub(n.t, m), newwire(m, sc0, sc1))), patterns=[z3.Select(P.has, m)]),
                         z3.Select(D.cols[0], n.t) == w.e, z3.Select(D.cols[1], n.t) == h.e,
                         z3.Select(P.cols[0], n.t) == H._to_real(H._z(x)), z3.Select(P.cols[1], n.t) == -H._to_real(H._z(y)),
                         G1(P), G2(P), vframe(p0, P, n.t))
                return (w, h)
            return standin

        standins1 = {"phase_1_series": s_phase_1("phase_1_series", H.K_SERIES), "phase_1_parallel": s_phase_1("phase_1_parallel", H.K_PARALLEL)}

        no_raise = make_no_raise(TIKZ)

        def make_unit(c, space, vc, standins, ns, env):
            make, free = H.build_unit(outer, ns, vc, standins)
            missing = [f for f in free if f not in env]
            if missing:
                raise H.Unsupported(f"nested functions of to_circuitikz use outer variables the contract does not know: {missing}")
            real = make(**{k: env[k] for k in free})
            cells = {}
            for f in real.values():
                for name, cell in zip(f.__code__.co_freevars, f.__closure__ or ()):
                    cells[name] = cell
            for name in ("short_counter", "num_nested_parallels"):
                if name not in cells:
                    raise H.Unsupported(f"no nested function refers to {name}")
                H.Cell(name, cells[name])
            return real

        space1 = H.NodeSpace([], generic_element="Element1")
        ns1 = H.base_namespace(space1)
        ns1.update({"_is_floating": lambda x: True, "isinstance": _isinstance(space1)})
        vc1 = H.VC(specs, space1)

        def run_phase1(which, k):
            def go(c):
                counts["paths"] += 1
                t = z3.Const("node", NodeS)
                m0 = z3.Const("m0", NodeS)
                c.assume(wf(t), kind(t) == k, z3.Not(H.is_wire(t)), H.descent(t, m0))
                c.skolems.append(m0)
                n = space1.node_of(t)
                P, D = H.SymDict("positions", 2), H.SymDict("dimensions", 2)
                P.havoc()
                D.havoc()
                x, y = Rv(z3.Real("x")), Rv(z3.Real("y"))
                c.assume(P.has == D.has, y.e >= 0, FRESH(P, t), NPK(P, t), G1(P), G2(P))
                sc, nnp = c.fresh_int("short_counter"), c.fresh_int("num_nested_parallels")
                c.assume(sc.e >= 0, nnp.e >= 0)
                env = {"custom_labels": None, "dimensions": D, "positions": P, "hide_labels": False, "identifiers": Identifiers(t), "lines": H.Log("lines"),
                       "node_height": Rv(z3.Real("node_height")), "node_width": Rv(z3.Real("node_width")), "num_nested_parallels": nnp, "short_counter": sc, "symbols": {}}
                real = make_unit(c, space1, vc1, standins1, ns1, env)
                st.update(n=t, m0=m0, P0=P.snapshot(), D0=D.snapshot(), sc0=sc.e, nnp0=nnp.e, y=y.e)
                ok, r = no_raise(which, lambda: real[which](n, x, y))
                if not ok:
                    return
                P0 = st["P0"]
                sc1 = cellv("short_counter")
                c.canary(f"{which}, at return")
                c.check(f"{which}: positions and dimensions have the same keys", P.has == D.has, "post")
                c.check(f"{which}: earlier keys stay", z3.Implies(z3.Select(P0[0], m0), z3.Select(P.has, m0)), "post")
                c.check(f"{which}: every node at or below the connection has a position and a dimension", z3.Implies(sub(t, m0), z3.Select(P.has, m0)), "post")
                c.check(f"{which}: new keys are nodes at or below the connection, or new short wires",
                        z3.Implies(z3.And(z3.Select(P.has, m0), z3.Not(z3.Select(P0[0], m0))), z3.Or(sub(t, m0), newwire(m0, st["sc0"], sc1))), "post")
                c.check(f"{which}: the wire counter only grows", sc1 >= st["sc0"], "post")
                c.check(f"{which}: every placed node lies on or below the base line", G1(P), "post")
                c.check(f"{which}: every placed parallel connection with two or more branches has its first two branches a row apart", G2(P), "post")
                c.check(f"{which}: outside the connection's subtree nothing is moved (short wires aside)", vframe(P0, P, t), "post")
                c.check(f"{which}: the nesting counter is restored", cellv("num_nested_parallels") == st["nnp0"], "post")
                okr = isinstance(r, tuple) and len(r) == 2
                c.check(f"{which}: returns a pair", z3.BoolVal(okr), "post")
                if okr:
                    w, h = H._to_real(H._z(r[0])), H._to_real(H._z(r[1]))
                    c.check(f"{which}: the returned dimension is at least 1 x 1", z3.And(w >= 1, h >= 1), "post")
                    c.check(f"{which}: the returned dimension is the one stored for the connection", z3.And(z3.Select(D.cols[0], t) == w, z3.Select(D.cols[1], t) == h), "post")
                    c.check(f"{which}: the connection is placed at (x, -y)", z3.And(z3.Select(P.cols[0], t) == x.e, z3.Select(P.cols[1], t) == -y.e), "post")
            H.explore(sess, base, go)
        run_phase1("phase_1_series", H.K_SERIES)
        run_phase1("phase_1_parallel", H.K_PARALLEL)

        # ---- phase 2
        space2 = H.NodeSpace(ELEMENT_CLASSES)
        ns2 = H.base_namespace(space2)
        ns2.update({"_is_floating": lambda x: True, "isinstance": _isinstance(space2)})
        symbols = _eval_outer_constants(outer, ["symbols"], ns2)["symbols"]
        produced: List[Any] = []

        def untouched(env):
            out = []
            for name in ("positions", "dimensions"):
                d, (has0, cols0) = sd(name), env.entry[name]
                out.append((f"{name} is only read", z3.And(d.has == has0, *[a == b for a, b in zip(d.cols, cols0)])))
            return out

        @specs.add("phase_2", 1)
        def _(env):
            return untouched(env)        # what each key contributes to `lines` is judged per key (judge_key)

        @specs.add("phase_2", 2)
        def _(env):
            # the rails of a parallel connection: start_y / end_y are the highest / lowest row among the branches seen so far
            p = env.loc["element_connection"].t
            P = sd("positions")
            sy, ey = H._to_real(H._z(env.loc["start_y"])), H._to_real(H._z(env.loc["end_y"]))
            out = untouched(env) + [("both rails unset, or both on rows at or below the base line", z3.Or(z3.And(sy == 1, ey == 1), z3.And(sy <= 0, ey <= 0)))]
            for k in (0, 1):
                ck = child(p, k)
                out.append((f"branch {k + 1}, once seen, lies between the rails", z3.Implies(z3.And(z3.Select(env.seen, ck), nchild(p) >= 2), z3.And(ey <= z3.Select(P.cols[1], ck), z3.Select(P.cols[1], ck) <= sy, sy <= 0))))
            return out

        @specs.add("phase_2", 3)
        def _(env):
            return untouched(env)

        vc2 = H.VC(specs, space2)
        orig_step = vc2.loop_step

        def judged_step(env, loc):
            if env.lid == ("phase_2", 1):
                judge_key(env, loc)
            elif env.lid[0] == "phase_2":
                # a generic iteration of an inner loop ends its path here: what it wrote is judged here (the inner loops belong to
                # the branch for a parallel connection, which may only draw wires)
                c = ctx()
                for ln in list(c.state["lines"]):
                    c.check("phase_2: the inner loops (rails and connecting wires of a parallel connection) write wires only", z3.BoolVal(bool(WIRE.match(ln))), "post")
            return orig_step(env, loc)
        vc2.loop_step = judged_step
        WIRE = re.compile(r"^\\draw \([^()]*\) to\[short\] \([^()]*\);$")

        def judge_key(env, loc):
            c = ctx()
            lines = c.state["lines"]
            new = list(lines)
            key = env.key
            obj = c.nodes.get(key.sexpr())
            for ln in new:
                c.check("phase_2: no line opens or closes an environment", z3.BoolVal("\\begin" not in ln and "\\end" not in ln), "post")
            if isinstance(obj, space2.Series):
                c.check("phase_2: a series connection contributes no line of its own", z3.BoolVal(new == []), "post")
            elif isinstance(obj, space2.Parallel):
                c.check("phase_2: a parallel connection contributes its two rails and wires only", z3.BoolVal(len(new) >= 2 and all(WIRE.match(ln) for ln in new)), "post")
            elif isinstance(obj, space2.Element):
                sym = symbols.get(space2.class_of(obj), "generic")
                hide, custom = st["hide"], st["custom"]
                if hide:
                    name = ""
                elif st["has_custom"]:
                    name = f"⟦custom({key})⟧"
                else:
                    name = f"⟦symbol({key})⟧_{{\\rm " + (f"⟦label({key})⟧" if st["has_label"] else f"⟦identifier({key})⟧") + "}"
                want = re.compile(r"^\\draw \([^()]*\) to\[" + re.escape(f"{sym}=${name}$") + r"\] \([^()]*\);$")
                ob = c.check("phase_2: an element contributes exactly one component, of its class's symbol and named as the circuit names it", z3.BoolVal(len(new) == 1 and bool(want.match(new[0]))), "post")
                if not (len(new) == 1 and want.match(new[0])):
                    ob.detail = f"lines {new!r}"
            else:
                c.check("phase_2: a short wire contributes one wire", z3.BoolVal(len(new) == 1 and bool(WIRE.match(new[0]))), "post")
            produced.append(space2.class_of(obj).__name__ if isinstance(obj, space2.Element) else type(obj).__name__)

        def run_phase2(c):
            counts["paths"] += 1
            P, D = H.SymDict("positions", 2), H.SymDict("dimensions", 2)
            P.havoc()
            D.havoc()
            root = z3.Const("root", NodeS)
            m = z3.Const("m", NodeS)
            c.assume(P.has == D.has, wf(root), z3.ForAll([m], z3.Implies(z3.Select(P.has, m), z3.Or(sub(root, m), H.is_wire(m))), patterns=[z3.Select(P.has, m)]))
            # what phase 1 establishes (its contract), and the precondition of the no-raise claim: no parallel connection with one branch
            c.assume(G1(P), G2(P), z3.ForAll([m], z3.Implies(z3.And(z3.Select(P.has, m), kind(m) == H.K_PARALLEL), nchild(m) >= 2), patterns=[z3.Select(P.has, m)]))
            st["hide"] = c.decide(z3.Bool("hide_labels"), "hide_labels")
            st["custom"] = CustomLabels() if c.decide(z3.Bool("custom_labels_given"), "custom_labels given") else None
            lines = H.Log("lines", ["\\begin{circuitikz}"])
            nh, nw = Rv(z3.Real("node_height")), Rv(z3.Real("node_width"))
            c.assume(nh.e > 0, nw.e > 0)
            env = {"custom_labels": st["custom"], "dimensions": D, "positions": P, "hide_labels": st["hide"], "identifiers": Identifiers(root), "lines": lines,
                   "node_height": nh, "node_width": nw, "num_nested_parallels": 0, "short_counter": 0, "symbols": symbols}
            real = make_unit(c, space2, vc2, {}, ns2, env)
            # names are fixed before the code runs (has_label / custom label of the generic key are decided when it is made)
            orig_node_of = space2.node_of

            def node_of(t, allow_wire=False):
                fresh_key = t.sexpr() not in c.nodes
                obj = orig_node_of(t, allow_wire)
                if fresh_key and str(t).startswith("key!") and isinstance(obj, space2.Element):
                    st["has_label"] = c.decide(z3.Bool(f"has_label({t})"), "element has a label")
                    st["has_custom"] = st["custom"] is not None and c.decide(z3.Bool(f"custom_label({t})"), "element has a custom label")
                return obj
            space2.node_of = node_of
            try:
                no_raise("phase_2", lambda: real["phase_2"]())
            finally:
                space2.node_of = orig_node_of
        H.explore(sess, base, run_phase2)
        # ---- main part: nested functions replaced by their contracts
        class Box:
            def __init__(self, name, v):
                self.name, self.v = name, v
                ctx().state["cell:" + name] = self

            @property
            def value(self):
                return self.v

            def snapshot(self):
                return self.v

            def havoc(self):
                self.v = ctx().fresh_int(self.name)

        calls: List[str] = []

        def s_phase_2():
            c = ctx()
            P, D = sd("positions"), sd("dimensions")
            root, e0 = st["root"], st["e0"]
            calls.append("phase_2")
            import sys
            loc = sys._getframe(1).f_locals
            c.check("to_circuitikz: phase 2 finds the routine's own symbol table and the list of lines it is to extend", z3.BoolVal(loc.get("symbols") == symbols and loc.get("lines") is c.state.get("lines")), "call-pre")
            c.check("phase_2 is called with equal key sets", P.has == D.has, "call-pre")
            c.check("phase_2 is called with every placed node on or below the base line", G1(P), "call-pre")
            c.check("phase_2 is called with every placed parallel connection laid out", G2(P), "call-pre")
            c.check("to_circuitikz: the keys phase_2 turns into components are exactly the elements of the circuit",
                    z3.Implies(is_elem(e0), z3.Select(P.has, e0) == sub(root, e0)), "post")
            c.check("to_circuitikz: phase_2 runs after the opening line", z3.BoolVal(list(c.state["lines"])[:1] == ["\\begin{circuitikz}"]), "post")
            c.state["lines"].append("⟦phase_2⟧")

        def wrap_phase1(f):
            def g(n, x, y):
                P, D = sd("positions"), sd("dimensions")
                for d in (P, D):
                    if d.arity == 0:
                        d._cols(2)
                calls.append("phase_1_series")
                return f(n, x, y)
            return g
        standins_main = {"phase_1_series": wrap_phase1(standins1["phase_1_series"]), "phase_1_parallel": standins1["phase_1_parallel"], "phase_2": s_phase_2}
        main = H.build_main(outer, ns2, vc2, standins_main)

        class Circuit:
            def __init__(self, root):
                self._elements = root

            def generate_element_identifiers(self, running=False):
                return Identifiers(self._elements.t)

        def run_main(c):
            counts["paths"] += 1
            del calls[:]
            t = z3.Const("root", NodeS)
            e0 = z3.Const("e0", NodeS)
            c.assume(wf(t), is_conn(t), z3.Not(H.is_wire(t)), H.descent(t, e0), z3.Not(ischild(t)))
            c.skolems.append(e0)
            root = space2.node_of(t)
            root.generate_element_identifiers = lambda running=False: Identifiers(t)
            as_circuit = isinstance(root, space2.Series) and c.decide(z3.Bool("self_is_circuit"), "called on a Circuit")
            me = Circuit(root) if as_circuit else root
            hide = c.decide(z3.Bool("hide_labels"), "hide_labels")
            nh, nw = Rv(z3.Real("node_height")), Rv(z3.Real("node_width"))
            c.assume(nh.e > 0, nw.e > 0)
            Box("short_counter", 0)
            Box("num_nested_parallels", 0)
            st.update(root=t, e0=e0)
            # when self is a parallel connection the routine wraps it: Series([self]) is the node phase 1 is given
            orig = standins_main["phase_1_series"]

            def first(n, x, y):
                import sys
                loc = sys._getframe(1).f_locals
                ids = loc.get("identifiers")
                okv = isinstance(ids, Identifiers) and loc.get("hide_labels") is hide and loc.get("custom_labels") is None and loc.get("node_width") is nw and loc.get("node_height") is nh \
                    and isinstance(loc.get("dimensions"), H.SymDict) and isinstance(loc.get("positions"), H.SymDict) and loc.get("dimensions") is not loc.get("positions") \
                    and loc.get("short_counter") == 0 and loc.get("num_nested_parallels") == 0
                ob = c.check("to_circuitikz: what the nested functions close over when phase 1 starts: the circuit's identifier map (whatever the label options), the caller's options, "
                             "two empty dictionaries of their own, both counters at 0", z3.BoolVal(bool(okv)), "call-pre")
                if not okv:
                    ob.detail = f"identifiers={type(ids).__name__}, short_counter={loc.get('short_counter')!r}, num_nested_parallels={loc.get('num_nested_parallels')!r}"
                st["root"] = n.t
                c.assume(H.descent(n.t, e0), z3.Not(ischild(n.t)))
                return orig(n, x, y)
            main.__globals__["__standins"]["phase_1_series"] = first
            try:
                ok, out = no_raise("to_circuitikz", lambda: main(me, node_width=nw, node_height=nh, left_terminal_label="WE", right_terminal_label="CE",
                                                                  hide_labels=hide, running=False, custom_labels=None))
            finally:
                main.__globals__["__standins"]["phase_1_series"] = orig
            if not ok:
                return
            c.canary("to_circuitikz, at return")
            c.check("to_circuitikz: phase 1 runs once on the whole circuit, then phase 2 once", z3.BoolVal(calls == ["phase_1_series", "phase_2"]), "post")
            c.check("to_circuitikz returns text", z3.BoolVal(isinstance(out, str)), "post")
            if not isinstance(out, str):
                return
            ls = [ln.strip() for ln in out.split("\n")]
            c.check("to_circuitikz: the text opens with \\begin{circuitikz} and closes with \\end{circuitikz}", z3.BoolVal(ls[0] == "\\begin{circuitikz}" and ls[-1] == "\\end{circuitikz}"), "post")
            inner = [ln for ln in ls[1:-1] if ln != "⟦phase_2⟧"]
            c.check("to_circuitikz: no other line opens or closes an environment", z3.BoolVal(all("\\begin" not in ln and "\\end" not in ln for ln in inner)), "post")
            ob = c.check("to_circuitikz: the lines of phase 2 are part of the text", z3.BoolVal(ls.count("⟦phase_2⟧") == 1), "post")
            ob.detail = repr(ls)[:300]
            want = (not hide)
            c.check("to_circuitikz: the terminals carry the given labels (none when hidden)",
                    z3.BoolVal(("node[above]{WE}" in ls[1]) == want and ("node[above]{CE}" in ls[-2]) == want and len(inner) == 2), "post")
        H.explore(sess, base, run_main)
        kinds_seen = set(produced)
        sess.check("cover", [], z3.BoolVal({"Series", "Parallel", "Resistor", "Capacitor", "OtherElement", "int"} <= kinds_seen), 0, label=f"phase_2 judged keys of every kind ({len(kinds_seen)} kinds)")
        sess.check("cover", [], z3.BoolVal(counts["paths"] >= 40), 0, label=f"paths executed: {counts['paths']}")
    return (f"{TIKZ}:to_circuitikz", TIKZ, "to_circuitikz", run)


# ------------------------------------------------------------------------------------------------ to_stack

class StackList:
    """the list Circuit.to_stack fills: ghost counters instead of contents.  cnt[e]: entries for element e; opens/closes[m]: opening
    / closing entries for connection m; depth = opens - closes so far (a closer needs an opener of the same call)"""
    OPEN = {"[": H.K_SERIES, "(": H.K_PARALLEL}
    CLOSE = {"]": H.K_SERIES, ")": H.K_PARALLEL}

    def __init__(self, items=(), symbolic=True):
        c = ctx()
        n = next(c.fresh)
        arr = z3.ArraySort(NodeS, I)
        if symbolic:
            self.g = H.Ghost("stack", depth=z3.Int(f"sdepth!{n}"), cnt=z3.Const(f"cnt!{n}", arr), opens=z3.Const(f"opens!{n}", arr), closes=z3.Const(f"closes!{n}", arr))
        else:
            zero = z3.K(NodeS, z3.IntVal(0))
            self.g = H.Ghost("stack", depth=z3.IntVal(0), cnt=zero, opens=zero, closes=zero)
        self.floor = self.g.f["depth"]
        self.entries: List[Any] = []

    def __getitem__(self, k):
        return ("part of the stack", k)          # whatever is made of it is not the stack itself

    def append(self, item):
        c = ctx()
        ok = isinstance(item, tuple) and len(item) == 2 and isinstance(item[0], str)
        c.check("to_stack appends (text, object) pairs", z3.BoolVal(ok), "call-pre")
        if not ok:
            return
        text, obj = item
        g = self.g.f
        self.entries.append(item)
        if isinstance(obj, H.NodeBase) and (text in self.OPEN or text in self.CLOSE):
            want = self.OPEN.get(text, self.CLOSE.get(text))
            c.check("a bracket entry carries the connection it belongs to, with the bracket of its kind ([ ] series, ( ) parallel)", kind(obj.t) == want, "call-pre")
            if text in self.OPEN:
                g["opens"] = z3.Store(g["opens"], obj.t, z3.Select(g["opens"], obj.t) + 1)
                g["depth"] = g["depth"] + 1
            else:
                c.check("a closing bracket closes a bracket opened by the same call", g["depth"] > self.floor, "call-pre")
                g["closes"] = z3.Store(g["closes"], obj.t, z3.Select(g["closes"], obj.t) + 1)
                g["depth"] = g["depth"] - 1
        else:
            is_el = isinstance(obj, H.NodeBase)
            c.check("any other entry is an element with its own description code", z3.BoolVal(is_el and text == f"⟦to_string({obj.t})⟧") if is_el else z3.BoolVal(False), "call-pre")
            if is_el:
                c.check("an element entry is an element", is_elem(obj.t), "call-pre")
                g["cnt"] = z3.Store(g["cnt"], obj.t, z3.Select(g["cnt"], obj.t) + 1)


def target_to_stack():
    """Series.to_stack / Parallel.to_stack / Circuit.to_stack (the flattened form the exporters and the GUI walk): for every tree,
    the entries appended for a connection are its opening bracket, then what its children append, in order, then its closing
    bracket -- `[`/`]` for a series and `(`/`)` for a parallel connection, each carrying the connection itself; every element at or
    below the connection gets exactly one entry (its own description code), every connection exactly one opening and one closing
    entry, brackets balance; Circuit.to_stack returns the stack of its top-level connection, starting from an empty list."""
    def run(sess: Session):
        sess.assumptions.append(H.TREE_ASSUMPTION)
        space = H.NodeSpace([], generic_element="Element1")
        specs = H.LoopSpecs()
        ns = H.base_namespace(space)
        ns["isinstance"] = _isinstance(space)
        space.Element.to_string = lambda self, *a, **k: ctx().placeholder(f"to_string({self.t})", ("to_string", self))
        space.Connection.to_string = space.Element.to_string
        base = H.tree_axioms()
        st: Dict[str, Any] = {}
        counts = {"paths": 0}

        def ghost():
            return ctx().state["ghost:stack"].f

        def effect(n):
            c = ctx()
            g = ghost()
            e = z3.Const("e", NodeS)
            for fld, cond in (("cnt", lambda x: below(n, x)), ("opens", lambda x: z3.And(sub(n, x), is_conn(x))), ("closes", lambda x: z3.And(sub(n, x), is_conn(x)))):
                old = g[fld]
                new = z3.Const(f"{fld}!{next(c.fresh)}", z3.ArraySort(NodeS, I))
                c.assume(z3.ForAll([e], z3.Select(new, e) == z3.Select(old, e) + z3.If(cond(e), 1, 0), patterns=[z3.Select(new, e)]))
                g[fld] = new

        def s_to_stack(self, stack):
            c = ctx()
            check_wf("to_stack is called on a well-formed connection", self.t)
            c.check("the same stack is handed down", z3.BoolVal(stack is st["stack"]), "call-pre")
            effect(self.t)
        space.Connection.to_stack = s_to_stack

        def inv(env):
            g = ghost()
            n, e0 = st["n"], st["e0"]
            done = z3.And(sub(n, e0), e0 != n, br(n, e0) < env.i)
            return [("brackets balance up to the connection's own opener", g["depth"] == st["g0"]["depth"] + 1),
                    ("one entry per element below the visited children", z3.Select(g["cnt"], e0) == z3.Select(st["g0"]["cnt"], e0) + z3.If(z3.And(done, is_elem(e0)), 1, 0)),
                    ("one opener per connection below the visited children, and the connection's own", z3.Select(g["opens"], e0) == z3.Select(st["g0"]["opens"], e0) + z3.If(z3.Or(e0 == n, z3.And(done, is_conn(e0))), 1, 0)),
                    ("one closer per connection below the visited children", z3.Select(g["closes"], e0) == z3.Select(st["g0"]["closes"], e0) + z3.If(z3.And(done, is_conn(e0)), 1, 0))]
        vc = H.VC(specs, space)
        no_raise = make_no_raise("circuit/series")
        for module, cls, k in (("circuit/series", "Series", H.K_SERIES), ("circuit/parallel", "Parallel", H.K_PARALLEL)):
            label = f"{cls}.to_stack"
            specs.inv[(label, 1)] = inv
            real = H.build_function(core.find_def(module, f"{cls}.to_stack"), ns, vc, label=label)

            def go(c, real=real, k=k, label=label):
                counts["paths"] += 1
                t, e0 = z3.Const("node", NodeS), z3.Const("e0", NodeS)
                c.assume(wf(t), kind(t) == k, z3.Not(H.is_wire(t)), H.descent(t, e0))
                c.skolems.append(e0)
                n = space.node_of(t)
                stack = StackList()
                st.update(n=t, e0=e0, g0=dict(stack.g.f), stack=stack)
                ok, _ = no_raise(label, lambda: real(n, stack))
                if not ok:
                    return
                g, g0 = stack.g.f, st["g0"]
                c.canary(f"{label}, at return")
                c.check(f"{label}: every element at or below the connection gets exactly one entry", z3.Select(g["cnt"], e0) == z3.Select(g0["cnt"], e0) + z3.If(below(t, e0), 1, 0), "post")
                both = z3.If(z3.And(sub(t, e0), is_conn(e0)), 1, 0)
                c.check(f"{label}: every connection at or below it gets exactly one opening and one closing entry",
                        z3.And(z3.Select(g["opens"], e0) == z3.Select(g0["opens"], e0) + both, z3.Select(g["closes"], e0) == z3.Select(g0["closes"], e0) + both), "post")
                c.check(f"{label}: brackets balance", g["depth"] == g0["depth"], "post")
                first, last = (stack.entries[0], stack.entries[-1]) if len(stack.entries) >= 2 else (None, None)
                o, cl = ("[", "]") if k == H.K_SERIES else ("(", ")")
                c.check(f"{label}: the entries start with the connection's own opener and end with its own closer",
                        z3.BoolVal(first is not None and first[0] == o and first[1] is n and last[0] == cl and last[1] is n), "post")
            H.explore(sess, base, go)

        # Circuit.to_stack
        made: List[StackList] = []

        def factory(items):
            s_ = StackList(symbolic=False)
            made.append(s_)
            st["stack"] = s_
            return s_
        vc.factories = {"stack": factory}
        real_c = H.build_function(core.find_def("circuit/circuit", "Circuit.to_stack"), ns, vc, label="Circuit.to_stack")

        def go_c(c):
            counts["paths"] += 1
            del made[:]
            t, e0 = z3.Const("root", NodeS), z3.Const("e0", NodeS)
            c.assume(wf(t), is_conn(t), z3.Not(H.is_wire(t)), H.descent(t, e0))
            c.skolems.append(e0)
            root = space.node_of(t)
            me = type("Circuit", (), {"_elements": root})()
            ok, out = no_raise("Circuit.to_stack", lambda: real_c(me))
            if not ok:
                return
            c.check("Circuit.to_stack returns the list it made", z3.BoolVal(len(made) == 1 and out is made[0]), "post")
            if len(made) != 1:
                return
            g = made[0].g.f
            c.check("Circuit.to_stack: one entry per element of the circuit, one opener and one closer per connection, balanced",
                    z3.And(z3.Select(g["cnt"], e0) == z3.If(below(t, e0), 1, 0), z3.Select(g["opens"], e0) == z3.If(z3.And(sub(t, e0), is_conn(e0)), 1, 0),
                           z3.Select(g["closes"], e0) == z3.Select(g["opens"], e0), g["depth"] == 0), "post")
        H.explore(sess, base, go_c)
        sess.check("cover", [], z3.BoolVal(counts["paths"] >= 8), 0, label=f"paths executed: {counts['paths']}")
    return ("circuit/series:Series.to_stack / Parallel.to_stack / Circuit.to_stack", "circuit/series", "Series.to_stack", run)


def targets():      # noqa: F811
    return [target_to_drawing(), target_circuitikz(), target_to_stack()]


# ------------------------------------------------------------------------------------------------ folds over the children (any number)
_targets_before_folds = targets


def target_child_folds():
    """`Series.to_sympy`, `Parallel.to_sympy` and `Series._impedance` for ANY number of children (the contracts of C01/C20 on
    symbolic values cover two and three): the result is the fold over the direct children, each child contributing exactly once,
    in order -- sum of the children's expressions (series), reciprocal of the sum of their reciprocals (parallel), sum of their
    impedances -- with 0 for an empty connection; every child is asked with the SAME `substitute` flag and the SAME identifier
    map (an element with its own identifier out of that map), a container is evaluated with its values and sub-circuits, a plain
    element with its values, a connection with the frequencies alone.  Expressions and impedances are abstract numbers; the real
    methods run by CPython with the loop over the children cut at the invariant `accumulator == partial fold`."""
    def run(sess: Session):
        sess.assumptions.append(H.TREE_ASSUMPTION)
        sess.assumptions.append("sympy expressions / numpy arrays form a field under + and / (the fold is stated over abstract numbers)")
        space = H.NodeSpace(["Container"], generic_element="PlainElement")
        Container = space.element_classes["Container"]
        ns = H.base_namespace(space)
        ns["isinstance"] = _isinstance(space)
        ns["Container"] = Container
        X = z3.Function("value_of_child", NodeS, R)
        psum = z3.Function("partial_fold", NodeS, I, R)
        st: Dict[str, Any] = {}
        counts = {"paths": 0}
        asked: List[Any] = []

        class Ids(dict):
            def __init__(self, tag):
                super().__init__()
                self.tag = tag

            def __getitem__(self, e):
                return ("identifier of", e.t.sexpr(), self.tag)

        def term(self, inverse):
            return 1 / X(self.t) if inverse else X(self.t)

        def ask_ids_ok(a2):
            ids = st["ids"]
            return isinstance(a2, Ids) and (a2.tag == "given" if ids is not None else a2.tag == ("generated", False))

        def conn_to_sympy(self, substitute=False, identifiers=None):
            c = ctx()
            lab = st["label"]
            c.check(f"{lab}: every child is asked with the caller's substitute flag", z3.BoolVal(substitute is st["sub_flag"]), "call-pre")
            c.check(f"{lab}: connections and containers get the shared identifier map (the given one, or generate_element_identifiers(running=False) of this connection)", z3.BoolVal(ask_ids_ok(identifiers)), "call-pre")
            return Rv(X(self.t))

        def elem_to_sympy(self, substitute=False, identifier=-1, identifiers=None):
            c = ctx()
            lab = st["label"]
            c.check(f"{lab}: every child is asked with the caller's substitute flag", z3.BoolVal(substitute is st["sub_flag"]), "call-pre")
            if identifiers is not None:
                c.check(f"{lab}: connections and containers get the shared identifier map (the given one, or generate_element_identifiers(running=False) of this connection)", z3.BoolVal(ask_ids_ok(identifiers)), "call-pre")
            else:
                ids = st["ids"]
                okid = isinstance(identifier, tuple) and identifier[:2] == ("identifier of", self.t.sexpr()) and (identifier[2] == "given" if ids is not None else identifier[2] == ("generated", False))
                c.check(f"{lab}: an element gets its own identifier out of the shared map", z3.BoolVal(okid), "call-pre")
            return Rv(X(self.t))

        def conn_impedance(self, f):
            ctx().check(f"{st['label']}: every child is evaluated at the caller's frequencies", z3.BoolVal(f is st["f"]), "call-pre")
            return Rv(X(self.t))

        def elem_impedance(self, f, **kw):
            c = ctx()
            c.check(f"{st['label']}: every child is evaluated at the caller's frequencies", z3.BoolVal(f is st["f"]), "call-pre")
            is_cont = space.class_of(self) is Container
            want_kw = {"values of": self.t.sexpr(), **({"subcircuits of": self.t.sexpr()} if is_cont else {})}
            c.check(f"{st['label']}: an element is evaluated with its own values (a container also with its own sub-circuits)", z3.BoolVal(kw == want_kw), "call-pre")
            return Rv(X(self.t))
        space.Connection.to_sympy = conn_to_sympy
        space.Element.to_sympy = elem_to_sympy
        space.Connection._impedance = conn_impedance
        space.Element._impedance = elem_impedance
        space.Element.get_values = lambda self: {"values of": self.t.sexpr()}
        space.Element.get_subcircuits = lambda self: {"subcircuits of": self.t.sexpr()}
        space.Connection.generate_element_identifiers = lambda self, running=False: Ids(("generated", running))
        ns.update({"sympify": lambda s_: Rv(z3.RealVal(int(s_))), "_is_boolean": lambda x: isinstance(x, bool), "zeros": lambda *a, **k: Rv(z3.RealVal(0)),
                   "ComplexImpedance": "ComplexImpedance", "complex": lambda a=0, b=0: 0})

        class Freq:
            shape = ("n",)

            def __rmul__(self, o):
                return Rv(z3.RealVal(0)) if o == 0 else NotImplemented
        specs = H.LoopSpecs()
        vc = H.VC(specs, space)

        def make_inv(varname, inverse):
            def inv(env):
                n = st["n"]
                acc = H._to_real(H._z(env.unique(Rv, varname)))
                return [("the accumulator is the fold over the children visited so far", acc == psum(n, env.i))]
            return inv

        def step_axiom(n, i, inverse):
            c = child(n, i)
            return psum(n, i + 1) == psum(n, i) + ((1 / X(c)) if inverse else X(c))
        no_raise = make_no_raise("circuit/series")
        cases = [("circuit/series", "Series.to_sympy", "expr", False, "sympy"), ("circuit/parallel", "Parallel.to_sympy", "expr", True, "sympy"),
                 ("circuit/series", "Series._impedance", "result", False, "impedance")]
        for module, qual, acc_name, inverse, what in cases:
            label = qual
            specs.inv[(label, 1)] = make_inv(acc_name, inverse)
            real = H.build_function(core.find_def(module, qual), ns, vc, label=label, module=module)
            k = H.K_SERIES if qual.startswith("Series") else H.K_PARALLEL

            def go(c, real=real, k=k, label=label, inverse=inverse, what=what):
                counts["paths"] += 1
                del asked[:]
                t = z3.Const("node", NodeS)
                i0 = z3.Int("i0")
                c.assume(kind(t) == k, z3.Not(H.is_wire(t)), nchild(t) >= 0, psum(t, 0) == 0)
                c.assume(z3.ForAll([i0], z3.Implies(z3.And(0 <= i0, i0 < nchild(t)), step_axiom(t, i0, inverse)), patterns=[psum(t, i0 + 1), child(t, i0)]))
                c.assume(z3.ForAll([i0], z3.Implies(z3.And(0 <= i0, i0 < nchild(t)), z3.Or(is_conn(child(t, i0)), space.elem_range(child(t, i0)))), patterns=[child(t, i0)]))
                n = space.node_of(t)
                st.update(n=t, label=label)
                if what == "sympy":
                    sub_flag = c.decide(z3.Bool("substitute"), "substitute")
                    ids = Ids("given") if c.decide(z3.Bool("identifiers_given"), "identifiers given") else None
                    st.update(sub_flag=sub_flag, ids=ids)
                    ok, out = no_raise(label, lambda: real(n, substitute=sub_flag, identifiers=ids))
                else:
                    f = Freq()
                    st["f"] = f
                    ok, out = no_raise(label, lambda: real(n, f))
                if not ok:
                    return
                c.canary(f"{label}, at return")
                total = psum(t, nchild(t))
                want = (1 / total) if inverse else total
                res = H._to_real(H._z(out))
                c.check(f"{label}: the result is the fold over ALL children, each once, in order" + (" (reciprocal of the sum of reciprocals)" if inverse else " (their sum)") + ", 0 for an empty connection",
                        z3.If(nchild(t) > 0, res == want, res == 0), "post")
            H.explore(sess, H.tree_axioms(), go)
        sess.check("cover", [], z3.BoolVal(counts["paths"] >= 12), 0, label=f"paths executed: {counts['paths']}")
    return ("circuit/series:Series.to_sympy / Parallel.to_sympy / Series._impedance for any number of children", "circuit/series", "Series.to_sympy", run)


def targets():      # noqa: F811
    return _targets_before_folds() + [target_child_folds()]
