"""Per-property metadata used by the driver for the evidence files."""

COMMON_ASSUME = [
    "machine floating point treated as real arithmetic (plus explicit +-inf constants where noted); NaN excluded by requires",
    "pyvc's encoding of the supported Python subset and its builtin/numpy tables are trusted (cross-checked by canaries, seeded faults and the bounded layer)",
    "call stack unbounded; termination only where a decreases clause is stated",
]

META = {
    "C14": dict(
        level="proof",
        technique="contract-based deductive verification: class invariant + per-method pre/postconditions on the real Element methods, VCs from the AST discharged by z3/cvc5; bounded reference-model enumeration as labelled stand-in",
        level_text="Every obligation generated from the current source of Element.{__init__, set_values, set_lower_limits, set_upper_limits, set_fixed, __copy__, reset_parameter(s), get_*} is discharged for all states, all key sets and any number of keyword pairs; histories follow by induction (invariant + deterministic postconditions). set_label and Container copies are only bounded.",
        level_note="floats as reals with +-inf constants, NaN excluded; typed arguments; set_label proved separately as a data-flow contract on a string term (character classes opaque); positional pairs proved for <=2 pairs; class defaults assumed consistent",
        explanation="Class invariant + per-method contracts on the real Element methods (AST re-read every run), setters proved for the keyword form with any number of keys (loop invariant over a ghost done-set) and for 0..2 positional pairs; callers (__copy__, reset_parameter(s), __init__) checked against the callee contracts. Bounded layer: exhaustive short call sequences against a dict reference model. Connection/Circuit.__copy__/__deepcopy__ and Element.__deepcopy__ on recording stand-ins: new object of the same class from the children's copies in order, one memo for all, registered under id(self), returned again when asked again. Connection/Circuit.__copy__/__deepcopy__ and Element.__deepcopy__ on recording stand-ins: new object of the same class from the children's copies in order, one memo for all, registered under id(self), returned again when asked again.",
        trusted_base=["str.strip / str.isascii / str.isdigit are opaque in the set_label contract (their meaning is only exercised by the bounded layer)",
                      "positional-pair form proved for <=2 pairs only (concrete unrolling of the *args loop)"],
        assumptions=COMMON_ASSUME + ["class defaults satisfy lower <= value <= upper and lower < upper (established at registration; Element.set_default_values does not re-check)",
                                     "argument values are of the documented types (TypeError prologues on ill-typed arguments are not modelled)"],
        abstracted=["f-string messages of raise statements", "type annotations", "docstrings"],
    ),
}

META["C02"] = dict(
    level="proof",
    technique="function against spec function: AST of each real _impedance vs its own _equation string, equality of complex rational functions modulo uninterpreted transcendental applications (congruence validated by z3); TLM _impedance vs _sympy over all 243 flag configurations; numeric comparison as labelled bounded stand-in and replay",
    level_text="For each of the 22 registered element classes the return expression of the real _impedance equals sympify(_equation) for ALL parameter values strictly inside the registered limit box and all f>0, as an identity of rational functions over uninterpreted pow/tanh/cosh/sinh; the general transmission line's numeric and symbolic case analyses agree for every open/short/finite configuration. Whole-circuit composition, sympy.limit and latex are bounded only.",
    level_note="real arithmetic; principal-branch facts z^-a=1/z^a, sqrt=pow 1/2, coth=1/tanh, integer powers; equalities hold where no denominator vanishes; sympy.sympify gives _equation its meaning; limits at f=0/inf (sympy.limit) and to_sympy composition are covered by the bounded layer only",
    explanation="Obligations: per element class signature=parameters, free symbols of the equation, impedance==equation (z3 QF_NRA validity on rational triples), vacuity canary (2*equation must not be provable); TLM: 243 flag configurations, same refusal or equal expression. Bounded: numeric implementation vs independently evaluated equation over the limit box.",
    trusted_base=["sympy.sympify as the meaning of _equation", "transcendental functions uninterpreted with four principal-branch rewrite facts"],
    assumptions=COMMON_ASSUME + ["parameters strictly above their lower limit and at most their upper limit; f > 0"],
    abstracted=[".astype(...) is the identity", "type annotations", "docstrings"],
)

META["C18"] = dict(
    level="other",
    technique="contract-based deductive verification: progress.py (class invariant 0<=_i<=_total, notification range) by VC generation from the real AST + z3; step accounting of every `with Progress(...)` block of the analysis entry points by an abstract execution of the real AST with callee step contracts, loop summaries checked as inductive invariants and z3 over the reals; option cross product as labelled bounded stand-in",
    level_text="Proved for all states: every Progress method preserves 0<=_i<=_total and the global _RECENT_PROGRESS invariant, increment/set raise only when the step passes the total, and every notification forwarded to callbacks has 0<=progress<=1 and a message keyword. Proved for all inputs and all trip counts: in fit_circuit, calculate_drt_{bht,lm,mrq_fit,tr_nnls,tr_rbf} and their helpers, and in the Kramers-Kronig search evaluate_log_F_ext (through step contracts on _perform_tests, _use_cnls, _use_matrix_inversion, _use_least_squares_fitting, _log_F_ext_residual, both _evaluate_log_F_ext_* functions, and on TR-RBF's sampler callback) the hand-written total of each Progress block is >= 1 and covers every increment on every path, including the early exits by return/raise and the steps taken after the block. Z-HIT step accounting: proved for every size of the window table by the same engine (the step counts of the five stage functions and the sizes of the tables they return are inferred from their bodies, incl. the dict of dicts of interpolation options), and cross-checked by executing the real stage functions with the real Progress class for every {smoothing, interpolation, window: auto|named} x {weights: None|array} combination and window-table sizes 1, 2, 14. Completion of every option combination (no shape/index error inside numpy/scipy code) is a total-correctness claim through numerical libraries and is only explored (bounded) over the option cross product.",
    level_note="real arithmetic for progress fractions and step counts; ASSUMED: lmfit.minimize(max_nfev=N) evaluates its objective at most N+2 times, iterators yield one item per element, functions that are not handed the Progress object do not reach it, the table of window functions is non-empty once initialised, dict keys stored in a loop are distinct (an upper bound otherwise); set_message modelled in the only form the library uses (message[, force]); run-to-completion of the numerical entry points is bounded, never proved",
    explanation="Proof part: obligations from progress.py (_update_every_N_percent, Progress.{increment,set,set_message,__enter__,__exit__}, register); the step-accounting targets of contracts/steps.py (functions discovered on every run by walking the analysis modules for Progress blocks; 9 callee step contracts, 2 preconditions, 1 loop invariant); the Z-HIT step-accounting target (48 option/table combinations); calculate_drt_tr_nnls run on terms with the real Progress class. Bounded part: option cross product per entry point with a recording progress callback.",
    trusted_base=["callbacks are opaque; _update forwards its keyword arguments unchanged", "lmfit.minimize: number of objective evaluations <= max_nfev + 2 (assumed contract of a dependency)", "multiprocessing.Pool.imap / imap_unordered / map yield one result per input item"],
    assumptions=COMMON_ASSUME,
    abstracted=["message strings", "print-based default handler", "everything in the analysis functions except control flow, integer bookkeeping, list/iterator lengths and the Progress object (engine E4 keeps only those)"],
)

META["C05"] = dict(
    level="proof",
    technique="data structure against an abstract view: per-method pre/postconditions and frame conditions on the real DataSet methods, VCs from the AST (dicts as domain/value arrays, numpy arrays as index windows) discharged by z3/cvc5; operation-sequence enumeration against a list-of-triples model as labelled bounded stand-in",
    level_text="For all sizes n>=1, all masks and all inputs: DataSet.__init__ (ordering branch onward), set_mask, get_mask, get_frequencies/get_impedances(masked), low_pass, high_pass and _parse satisfy view postconditions (each point's f, Z, mask stay together; descending presentation; masked/unmasked partition) and frame conditions (caller-owned dicts not modified). Histories follow by induction over the per-method postconditions. subtract_impedances, average, to_dict/JSON and duplicate are covered by the bounded layer only.",
    level_note="numpy semantics table (flip, array, enumerate, .size, .real/.imag, zip/map/complex) trusted; validation prologue of __init__ abstracted; JSON int(str(i))==i assumed; floats as reals",
    explanation="Obligations from DataSet.{__init__ (from the ordering branch), set_mask, get_mask, get_frequencies, get_impedances, low_pass, high_pass, _parse}: view postconditions, well-formedness (mask keys = 0..n-1), frames on the caller's mask/dict, loop invariants for the key-pruning and cutoff loops. Bounded: all operation sequences of bounded length against a reference model. DataSet.to_dict (point-by-point export, private copy of the mask, data set unchanged) and subtract_impedances (index by index) are under contract too. DataSet.from_dict, duplicate and average as data-flow contracts (import of the export without uuid; all points of every data set, grids compared with the first, mean over axis 0 in order). DataSet.from_dict, duplicate and average as data-flow contracts (import of the export without uuid; all points of every data set, grids compared with the first, mean over axis 0 in order).",
    trusted_base=["numpy semantics table of pyvc/npmodel.py"],
    assumptions=COMMON_ASSUME + ["arguments are of the documented types (the TypeError/ValueError validation prologue of DataSet.__init__ is not modelled)"],
    abstracted=["DataSet.__init__ validation prologue", "uuid4/basename/splitext are opaque"],
)

META["C04"] = dict(
    level="proof",
    technique="exception-freedom and termination obligations at every raising primitive of the real Tokenizer and Parser (VCs from the AST: array windows, character codes, token kinds; loop invariants + variants; recursion by contract) discharged by z3/cvc5; exhaustive lexical-atom sequences and mutations as labelled bounded stand-in",
    level_text="Tokenizer: for every input state, every exit of main_loop either consumed at least one character (variant) or raised UnexpectedCharacter/ValueError; no `x in <str>` with x None, no IndexError/KeyError, every scanning loop terminates. Parser: every method of the recursive descent -- process (tokenise+loop, assembly), migrate, main_loop, connection (both kinds), element, parameters, subcircuit, param, param_limit -- is verified against its own contract assuming the contracts of the methods it calls: only parsing/tokenizing errors and ValueError can escape, the explicit `raise TypeError` sites are unreachable (stack items are opening brackets or nodes; sub-circuits restore the stack), keys handed to Element constructors/setters are the class's keys (no InvalidParameterKey/KeyError), and every call consumes tokens (termination of the mutual recursion). 'Accepted => well-formed circuit that simulates and re-serialises' is explored by the bounded layer.",
    level_note="characters as integer codes, tokens as kind codes; Identifier.__post_init__ and float(text) may raise ValueError (an allowed class) and are otherwise opaque; call stack unbounded (RecursionError is only visible to the bounded layer)",
    explanation="Obligations from Tokenizer.{main_loop, identifier_or_label, number, peek, pop, consume, accept, ignore, push, process} (helpers inlined) and the Parser methods under contracts/parser.py. Bounded: every sequence of <= N lexical atoms, grammar-derived codes with single-character mutations, deep nesting. Also under contract: Parser.process in three parts (string prologue with total string primitives only; tokenise + main_loop loop; assembly), Parser.parameters/param/param_limit/migrate, and every ParsingError subclass constructor of exceptions.py (total for the argument shapes of its call sites, f-strings evaluated strictly).",
    trusted_base=["string constants of the `string` module", "Token dataclasses construct without error except Identifier.__post_init__"],
    assumptions=COMMON_ASSUME,
    abstracted=["token start/end positions and text values (only kinds are tracked)", "exception message f-strings"],
)

META["C07"] = dict(
    level="proof",
    technique="contract-based verification of the real matrix builders and result writers: the functions of least_squares.py / matrix_inversion.py / utility.py and the real element impedances are executed by CPython on symbolic values (operator overloading, concrete control flow enumerated over all 36 variants); linearity, consistency and recovery lemmas discharged by an exact ring normaliser and z3; numeric recovery as labelled bounded stand-in",
    level_text="For each of the 36 linear variants (lstsq/inversion x complex/real/imaginary x Z/Y x optional C/L columns), for all omega>0, time constants and variables: (O1) rows of the real A-matrix times x equal the real/imaginary part of the model built by the real _generate_circuit/_update_circuit from the real element impedances; (O2) for the model's own spectrum every linear system given to lstsq/pinv/inv is solved exactly by the generating variables; (O3) with that solution returned, _test_wrapper returns the generating circuit (up to the code's own 1e-18 regularisers, made explicit). Hence residuals are identically zero provided the solver returns the (unique) exact solution - that proviso, floating point, and CNLS convergence are assumptions / bounded.",
    level_note="numpy.linalg lstsq/pinv/inv assumed to return the exact least-squares solution (full column rank); real arithmetic; series/parallel composition law imported from C01; two RC elements as representative width (columns are generated by one loop body); CNLS only bounded",
    explanation="Obligations O1/O2/O3 per variant, pointwise in omega, as polynomial identities of complex rational functions (ring-normaliser, z3 for the rest); time-constant endpoints with log10/pow10 axioms. Bounded: generated model spectra through perform_kramers_kronig_test with frozen thresholds. The wrappers _evaluate_representations, perform_exploratory_kramers_kronig_tests and perform_kramers_kronig_test pass every option of evaluate_log_F_ext on, each under its own name (decided on the ASTs against the callee's real signature). The wrappers _evaluate_representations, perform_exploratory_kramers_kronig_tests and perform_kramers_kronig_test pass every option of evaluate_log_F_ext on, each under its own name (decided on the ASTs against the callee's real signature).",
    trusted_base=["pyvc/overload.py: pointwise model of numpy slicing (row halves), zeros, array_sum (Sigma rule)", "pyvc/ring.py exact polynomial normaliser", "solver stubs return the vectors named in the lemma"],
    assumptions=COMMON_ASSUME + ["lstsq/pinv/inv return the exact solution when one exists and the design matrix has full column rank", "generic point: values compared with 0.0 in _update_circuit are non-zero unless the lemma says otherwise"],
    abstracted=["argument-type validation prologue of _test_wrapper (isinstance checks evaluated on the concrete stand-ins)"],
)

META["C08"] = dict(
    level="proof",
    technique="contracts on the real residual/chi-square functions (pointwise algebra, executed on symbolic values) and data-flow (EUF) contracts on result-assembly sites: the real entry point is run by CPython on uninterpreted terms with contract stubs for its numerical callees, all oracle-decided branches enumerated; z3 decides the term equalities; entry-point sweep as labelled bounded stand-in",
    level_text="Proved for all inputs: residual = (Z_exp-Z_fit)/|Z_exp| and the chi-square summand = |residual|^2 for the real utility functions; for perform_zhit on every path, the result's frequencies are data.get_frequencies(), residuals are computed from data.get_impedances() and the reported impedances, and pseudo_chisqr is the chi-square of those same arrays (given the proved contract of _adjust_offset). The other entry points (KK, DRT, fit) and masked-point independence are bounded only.",
    level_note="opaque numerical callees assumed pure/deterministic; Sigma rule for numpy.sum; floats as reals; only perform_zhit's assembly is under a data-flow contract so far",
    explanation="Obligations: algebra lemmas on analysis/utility.py and kramers_kronig/utility.py; EUF obligations at the ZHITResult constructor call for both representations and both signs of min Re(Y); contract of zhit/offset.py:_adjust_offset. Bounded: all entry points x options x masked/planted data. Result assembly of all five DRT entry points: frequencies = data.get_frequencies(), residuals and pseudo chi-squared computed from data.get_impedances() and the very model impedance that is returned, and never stale on any path (flag-aware may-analysis of the real AST; BHT's chi-squared and m(RQ)fit's residuals come from elsewhere and have no obligation). Work-item tuples built for the multi-process workers have the fields the workers unpack, same-named variables at the same positions. Result assembly of all five DRT entry points: frequencies = data.get_frequencies(), residuals and pseudo chi-squared computed from data.get_impedances() and the very model impedance that is returned, and never stale on any path (flag-aware may-analysis of the real AST; BHT's chi-squared and m(RQ)fit's residuals come from elsewhere and have no obligation). Work-item tuples built for the multi-process workers have the fields the workers unpack, same-named variables at the same positions.",
    trusted_base=["contracts/dataflow.py term model of Python operators (three algebraic axioms: x**1=x, (x**-1)**-1=x, x-0.0=x)"],
    assumptions=COMMON_ASSUME + ["opaque callees are pure and deterministic"],
    abstracted=["argument validation prologue of perform_zhit (type predicates evaluate to True on terms)"],
)
META["C09"] = dict(
    level="other",
    technique="equivariance lemmas as postconditions on the real Kramers-Kronig building blocks (residuals, chi-square, weights, b-vector, every A-matrix column of both implementations) executed on symbolic values and discharged by the ring normaliser / z3; whole-test invariance through lstsq/pinv is a labelled bounded stand-in",
    level_text="Proved for all c>0, omega, tau, Z: residuals and chi-square are invariant under Z->cZ; the weights scale by c^-2 (c^2 for admittance); b scales by c (1/c); under f->cf with tau->tau/c every design-matrix column scales by its stated power of c. That the solver output then rescales accordingly is exact-arithmetic linear algebra which is assumed, and is exactly where the recorded numerical finding (rank truncation for |log10 c|>=4 with C/L columns) lives; the end-to-end statement is therefore bounded.",
    level_note="lstsq/pinv equivariance assumed (exact arithmetic, full column rank); real arithmetic",
    explanation="Lemma obligations per building block and per (implementation, test, representation); bounded: perform_kramers_kronig_test under Z-scaling, f-scaling and reversal with frozen tolerances. Shared with C08: the KK producers compute the reported pseudo chi-squared with the weight of the impedance representation.",
    trusted_base=["pyvc/overload.py pointwise matrix model", "pyvc/ring.py"],
    assumptions=COMMON_ASSUME + ["numpy.linalg.lstsq / pinv are equivariant under row/column scaling (true in exact arithmetic; violated numerically by rcond truncation - known finding)"],
)
META["C11"] = dict(
    level="other",
    technique="contracts on the real Z-HIT arithmetic (_reconstruct under an assumed quadrature contract, _offset_residual, _adjust_offset) executed on symbolic values / uninterpreted terms and discharged by z3; interpolators, smoothers, quad and lmfit are labelled bounded stand-ins",
    level_text="Proved: _reconstruct returns 2/pi*Integral + (-pi/6)*Derivative in both representations, hence (2 phi/pi)(ln w - ln w_s) for constant phase; the offset residual vanishes identically at zero weight and is invariant under a common shift ln c (scaling clause); _adjust_offset builds X_fit and its chi-square from the same arrays. Accuracy of interpolation/quadrature/smoothing filters and the lmfit offset fit are bounded.",
    level_note="quad/derivative contracts assumed; lmfit returns the minimiser; smoothing kernels and window functions only bounded",
    explanation="Lemma obligations on analysis/zhit/{reconstruction,offset}.py; bounded: constant-phase elements and ladders x smoothing x interpolation x representation with frozen thresholds.",
    trusted_base=["pyvc/overload.py", "contracts/dataflow.py"],
    assumptions=COMMON_ASSUME + ["scipy.integrate.quad returns the integral; interpolator.derivative(1) is its derivative", "lmfit.minimize returns the weighted least-squares offset"],
)
META["C13"] = dict(
    level="other",
    technique="kernel identities as postconditions on the real DRT functions (TR-NNLS matrix/model/normalisation, Loewner peak extraction, m(RQ)fit closed forms) executed on symbolic values and discharged by the ring normaliser / z3; areas, peak positions and solver behaviour are labelled bounded stand-ins",
    level_text="Proved for all omega, tau: the TR-NNLS matrix entry is dlntau*Re (resp. -Im) of the Debye kernel and is invariant under (c w, tau/c); the model impedance uses the same kernel times R_pol (+R_inf); normalisation gives R_pol(cZ)=c R_pol(Z) with Z_norm unchanged, so gamma=g*R_pol scales with c and is >=0 when nnls>=0; a Loewner pole -1/tau_k with residue R_k/tau_k is reported as (tau_k, R_k); the m(RQ)fit distribution is the documented closed form. Integrals over ln tau and peak positions are numerical and bounded.",
    level_note="nnls >= 0, eig/solve assumed; Sigma rule; calculus facts (areas) only bounded",
    explanation="Lemma obligations on analysis/drt/{tr_nnls,lm,mrq_fit}.py; bounded: RC/RQ ladders through calculate_drt with frozen thresholds. DRTResult._get_peak_indices as a data-flow contract: candidates from find_peaks without any absolute criterion, kept iff gamma_i / max(gamma) > threshold and gamma_i > 0. DRTResult._get_peak_indices as a data-flow contract: candidates from find_peaks without any absolute criterion, kept iff gamma_i / max(gamma) > threshold and gamma_i > 0.",
    trusted_base=["pyvc/overload.py", "pyvc/ring.py"],
    assumptions=COMMON_ASSUME + ["scipy.optimize.nnls returns a non-negative solution", "scipy.linalg.eig / solve return the eigen-decomposition"],
)

META["C01"] = dict(
    level="proof",
    technique="postconditions (the composition laws) on the real Series._impedance / Parallel._impedance, executed by CPython on classified array stand-ins with symbolic generic-point values, enumerating every classification of <=3 branches and every branch kind; structural contracts on Circuit.__init__ and the builder/get_impedances glue; topology enumeration as labelled bounded stand-in",
    level_text="Proved for all complex branch impedances: for every open/short/finite classification of up to three branches (elements, containers, nested connections) the real code returns the sum (series), 0 for a shorted or empty connection, and the reciprocal of the sum of reciprocals of the non-open branches (parallel); an all-open connection is itself an open branch. Arbitrary nesting follows by induction (a connection's result is classified like a branch). Circuit.__init__ yields a well-formed top-level Series for all four documented argument forms. Width >3, branches that vanish at only some frequencies, construction-route independence and array-vs-scalar evaluation are covered by the bounded layer.",
    level_note="branch arrays are classified all-open / all-short / finite-non-zero (the code's own assumption); numpy mask operations modelled by a classification-level table; element impedances are C02's subject; real arithmetic",
    explanation="Obligations: one per classification and law; Circuit.__init__ forms; glue returns. Bounded: every topology up to a bounded number of leaves over a leaf alphabet, four construction routes, array vs scalar. Shared with C03/C04: Parser.subcircuit returns connections that are new objects of the parse.",
    trusted_base=["contracts/c01.py classification-level model of where/isinf/full/zeros", "pyvc/overload.py"],
    assumptions=COMMON_ASSUME + ["a branch impedance array is open everywhere, short everywhere, or finite and non-zero everywhere"],
)

META["C15"] = dict(
    level="proof",
    technique="map-valued state machine with invariant (every built-in symbol stays registered with its own class) and per-operation contracts on the real registry functions, VCs from the AST discharged by z3; operation-sequence enumeration in forked interpreters as labelled bounded stand-in",
    level_text="Proved for all registry states satisfying the invariant: register_element binds exactly the new symbol, refuses (changing nothing) exactly a symbol bound to another class, and never shadows a built-in; remove_elements refuses exactly built-in classes and otherwise only removes entries of the given class; reset makes the registry equal to the built-ins and leaves no user symbol in the private table. Histories follow by induction. What _initialize_element does to class attributes (incl. the impedance/equation consistency check), the parser's longest-match behaviour and default-parameter restoration are bounded.",
    level_note="classes as opaque ids; _initialize_element and reset_default_parameter_values are opaque callees here; symbol validation strings not modelled",
    explanation="Obligations from registry.py: reset, register_element, remove_elements. Bounded: all operation sequences of bounded length compared with a fresh-import snapshot. get_elements: keys/values are a function of the current tables, a new dict, no module-level state written.",
    trusted_base=["pyvc symex encoding of dicts as domain/value arrays"],
    assumptions=COMMON_ASSUME + ["_initialize_element returns (symbol, Class) and does not touch the three registry tables"],
)

META["C06"] = dict(
    level="other",
    technique="contracts on the pure-Python cores of file parsing (_split_sweeps: index safety, maximal monotone runs, ordered partition, termination) verified by VC generation from the real AST + z3; the file round trip through open()/pandas over the documented layout cross product is a labelled bounded stand-in",
    level_text="Proved for every table with >= 1 row: _split_sweeps never indexes out of range, every data set it builds consists of the next rows of the table, is strictly monotone in the table's direction and maximal, pairs each frequency with the impedance of the same row, and the loop terminates. Column detection, cell conversion, the instrument line parsers, pandas.read_csv and file I/O are only explored by the bounded round trip.",
    level_note="file system, pandas and float parsing/formatting are outside the verifier; DataSet construction is C05's contract",
    explanation="Obligations from data_set.py:_split_sweeps (loop invariants for the sweep scan and the outer split loop; call-pre obligations at the DataSet constructor). Bounded: real temporary files over the documented conventions and instrument layouts. _extract_data as a data-flow contract on uninterpreted cells (columns, text-cell conversion, sign applied once, polar conversion, row order); _detect_columns run exhaustively over the documented (finite) alias table x sign markers x letter case x unit suffix x column order.",
    trusted_base=["pyvc/npmodel.py (array/zip/map/complex)"],
    assumptions=COMMON_ASSUME,
)

META["C03"] = dict(
    level="other",
    technique="stack-frame and node-per-call contracts on the real recursive-descent parser (main_loop, connection, subcircuit) and limit-ordering call preconditions of Parser.element against the Element setter contracts, VCs from the AST discharged by z3; the emitter/parser round trip over a grammar-directed printer is a labelled bounded stand-in",
    level_text="Proved for all token sequences and stacks: a sub-circuit leaves the parser stack exactly as it found it (it never moves elements into or out of a container), every main_loop/connection call consumes tokens and pushes exactly one node without touching anything below; Parser.element applies value/limits/fixed flags such that an element emitted by serialize() with lower < upper and lower <= value <= upper is accepted and ends in that state. Element order inside connections, text-level spellings (white space, fixed marker, percentages, labels, decimals) and re-serialisation identity are covered by the bounded printer/parser round trip.",
    level_note="tokens as kind codes, nodes as opaque ids (order of children not tracked); Parser.parameters/param/param_limit assumed by contract; float formatting assumed; labels bounded",
    explanation="Obligations: parser.py main_loop, connection (Series/Parallel), subcircuit (frame), element (call-pre of set_lower/upper_limits, set_fixed; final state). Bounded: all trees up to a bound x all spellings x labels x decimals. The emitters are under contract too: Series/Parallel/Circuit.to_string and Circuit.serialize (brackets, children in order with the same decimals, version header), Element.to_string (key=value[F]/lower/upper per parameter with its own numbers, F and inf exactly where due, label after a colon; decided independently of the number format), Container.to_string (sub-circuits in sorted order as open/short/text). The emitters are under contract too: Series/Parallel/Circuit.to_string and Circuit.serialize (brackets, children in order with the same decimals, version header), Element.to_string (key=value[F]/lower/upper per parameter with its own numbers, F and inf exactly where due, label after a colon; decided independently of the number format), Container.to_string (sub-circuits in sorted order as open/short/text).",
    trusted_base=["contracts/parser.py token/stack model", "contracts/element.py setter contracts (proved in C14)"],
    assumptions=COMMON_ASSUME + ["'%.{d}E' % x and float(str) round-trip to the printed precision"],
)

META["C16"] = dict(
    level="other",
    technique="contracts on the real traversal and numbering functions (loop invariants: no duplicates; ghost prefix-count function for the per-type numbering) verified by VC generation from the AST + z3; names as strings, sympy variables, fit identifiers and diagram labels over enumerated circuits are a labelled bounded stand-in",
    level_text="Proved for all element lists: _get_elements_recursive returns elements only and never the same element twice; generate_element_identifiers(running=True) numbers the j-th element j (a bijection onto 0..N-1), and running=False gives the j-th element 1 + the number of earlier elements of its type, so each type is numbered 1..count in traversal order. That every reachable element is listed, the string form of names, their uniqueness modulo user labels, and the consistent use of the identifiers in to_sympy / fitting / diagrams are checked by the bounded layer.",
    level_note="elements as opaque ids with an uninterpreted symbol_of; termination and completeness of the work-list traversal not proved; Container.generate_element_identifiers bounded only",
    explanation="Obligations from base.py:Connection._get_elements_recursive and Connection.generate_element_identifiers (both modes). Bounded: all trees up to a bound with repeated types, label mixes, nested containers; identifiers compared across to_sympy, fit identifiers, parameter tables, CircuiTikZ. Shared obligations: _extract_parameters (fit-parameter table keyed '<symbol>_<running id>', C12) and Element.set_label (validation asked of the stored text, C14).",
    trusted_base=["pyvc symex list windows; index_of / prefix_count ghost functions with their defining axioms"],
    assumptions=COMMON_ASSUME,
)

META["C12"] = dict(
    level="other",
    technique="data-flow contracts on the real circuit<->lmfit glue (_to_lmfit, _from_lmfit, _extract_parameters, _fit_process frame): the functions are run by CPython on uninterpreted terms with recording stand-ins, branches enumerated, term equalities decided by z3; lmfit's own contract is assumed; parameter recovery over circuit families is a labelled bounded stand-in",
    level_text="Proved on every path: _to_lmfit creates exactly one lmfit parameter per (element, symbol) under its fit identifier with value/min/max taken from the element and vary = not fixed, attaches each constraint expression to its parameter and refuses (ValueError) exactly when a value lies outside its limits; _from_lmfit writes each fitted value back into the (element, symbol) it came from and nothing else; the parameter table reports fit.params[<symbol>_<id>].value for varied and the element's value for fixed parameters and is not confused by constraint variables; _fit_process only reads the given circuit through deepcopy. With lmfit's contract (bounds respected, fixed values untouched, expressions enforced) the invariants of the property follow; recovery of the generating parameters and the behaviour of the nine optimisers are bounded.",
    level_note="lmfit (minimize, Parameters.add semantics) assumed; identifiers from generate_fit_identifiers (C16); real arithmetic irrelevant here (pure data flow)",
    explanation="EUF obligations at every Parameters.add / set_values / FittedParameter call of the three glue functions; syntactic frame obligation on _fit_process. Bounded: identifiable circuit families, start perturbations, methods x weights, fixed subsets, limit boxes, constraints.",
    trusted_base=["contracts/dataflow.py term model", "recording stand-ins for lmfit.Parameters, elements, fit result"],
    assumptions=COMMON_ASSUME + ["lmfit.minimize returns parameters within [min, max], leaves vary=False parameters untouched and enforces expr constraints"],
)

META["C19"] = dict(
    level="other",
    technique="data-flow (EUF) contracts on the real CLI command functions: run by CPython on uninterpreted option terms with recording stand-ins for the API and marker strings for tables, so that forwarding is checked argument for argument; in-process CLI runs against the API as labelled bounded stand-in",
    level_text="Proved for all option values: apply_filters calls low_pass/high_pass/set_mask with exactly the given cut-offs/indices, in order and only when requested; `parse` prints format_text(data.to_dataframe(), args) for each data set after filtering; `fit` calls fit_circuit(parse_cdc(args.circuit), data=..., method/weight/max_nfev/num_procs/timeout = the same-named options) 1+num_refinements times and prints the parameter and statistics tables of the last fit; `circuit --simulate` simulates each parsed circuit on _interpolate([max, min], num_per_decade); get_mock_data(s) is generate_mock_data(*_parse_identity(s)). _parse_identity's string handling, argparse wiring, output files and the drt command are bounded.",
    level_note="plotting and file output stand-ins; argparse itself and string parsing of mock specifiers only bounded",
    explanation="Obligations at every recorded API call / printed string of cli/utility.py:apply_filters,get_mock_data; cli/parse.py:command; cli/fit.py:command; cli/circuit.py:simulate_spectra. Bounded: in-process pyimpspec.cli.main runs compared cell by cell with the API. cli/drt.py individual_plots and overlay_plot: one calculate_drt call per data set with every option forwarded argument for argument, report tables of exactly that result; cli/utility helpers write no module-level state; apply_filters specified over the three conditions themselves. cli/test.py and cli/zhit.py pass every option to evaluate_log_F_ext / perform_zhit from its own args attribute (decided on the ASTs against the callee's real signature). cli/test.py and cli/zhit.py pass every option to evaluate_log_F_ext / perform_zhit from its own args attribute (decided on the ASTs against the callee's real signature).",
    trusted_base=["contracts/dataflow.py", "recording stand-ins"],
    assumptions=COMMON_ASSUME + ["plot functions do not mutate results"],
)
META["C20"] = dict(
    level="other",
    technique="contracts on the real to_sympy functions (Element: every key substituted / renamed; Series/Parallel: composition law on symbolic values; per-class equation symbols) executed with recording stand-ins and symbolic values, discharged by z3 / ring normaliser; LaTeX, CircuiTikZ, schemdraw and to_stack over enumerated circuits are a labelled bounded stand-in",
    level_text="Proved: Element.to_sympy substitutes exactly the element's parameter keys (by their values, oo/-oo for infinities) or renames them '<key>_<label|identifier>'; every registered equation mentions only parameters and f; Series/Parallel.to_sympy build the sum / reciprocal-sum of their children's expressions with the shared identifier map - hence after substitution only f is free and otherwise there is one variable per (element, parameter), and the symbolic expression obeys the same law as the numeric impedance. That the diagram exporters succeed and list every element is only explored (bounded); see the known findings.",
    level_note="sympy.subs/latex and the diagram back ends are outside the verifier; identifier uniqueness from C16",
    explanation="Obligations from base.py:Element.to_sympy, series.py/parallel.py:to_sympy, registry equations. Bounded: all topologies up to a bound, all element types, labels, containers through to_sympy/to_latex/to_circuitikz/to_drawing/to_stack.",
    trusted_base=["pyvc/overload.py", "contracts/dataflow.py"],
    assumptions=COMMON_ASSUME + ["sympy.Expr.subs replaces exactly the given names"],
)

NOT_BUILT = "check not built yet in this session (planned, see DESIGN.md section 3)"
NOT_APPLICABLE = {
    "C10": "statistical calibration over an RNG distribution and heuristic optimisers: no pre/postcondition within reach of a deductive verifier implies it (DESIGN.md C10); sampling would be a different technique family",
    "C17": "quantifies over worker schedules / process counts: this family has no model of multiprocessing; determinism of BLAS/lmfit internals is outside any function we can put under contract (DESIGN.md C17)",
}
for _p in ["C%02d" % i for i in range(1, 21)]:
    if _p not in META and _p not in NOT_APPLICABLE:
        NOT_APPLICABLE[_p] = NOT_BUILT

FIX_COMMITS = ["0098309", "82df5c9", "ded46ec", "756923f", "8a458bc", "a72c860", "b452482", "d151f47", "9ae2f3a", "8b96fa1", "fbdaf29", "dfe0838", "b53b7ad", "2609bab", "9c2d0e3", "8760cb9", "e53f4fa", "1cd7e3e", "a2ba9a8", "b02d031", "b72fc93", "294903f"]
