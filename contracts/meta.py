"""Per-property metadata used by the driver for the evidence files."""

COMMON_ASSUME = [
    "machine floating point treated as real arithmetic (plus explicit +-inf constants where noted); NaN excluded by requires",
    "pyvc's encoding of the supported Python subset and its builtin/numpy tables are trusted (cross-checked by canaries, seeded faults and the bounded layer)",
    "call stack unbounded; termination only where a decreases clause is stated",
]

META = {
    "C14": dict(
        level="proof",
        explanation="Class invariant + per-method contracts on the real Element methods (AST re-read every run), setters proved for the keyword form with any number of keys (loop invariant over a ghost done-set) and for 0..2 positional pairs; callers (__copy__, reset_parameter(s), __init__) checked against the callee contracts. Bounded layer: exhaustive short call sequences against a dict reference model.",
        trusted_base=["Element.set_label (string predicates) is assumed at call sites and only checked by the bounded layer",
                      "positional-pair form proved for <=2 pairs only (concrete unrolling of the *args loop)"],
        assumptions=COMMON_ASSUME + ["class defaults satisfy lower <= value <= upper and lower < upper (established at registration; Element.set_default_values does not re-check)",
                                     "argument values are of the documented types (TypeError prologues on ill-typed arguments are not modelled)"],
        abstracted=["f-string messages of raise statements", "type annotations", "docstrings"],
    ),
}
