"""Forwarding contracts for wrapper functions: a wrapper that exists to hand its options on to one callee must pass every
option the callee takes, each under its own name (or the documented source), at every call site.  Decided on the real AST of
the wrapper against the real signature of the callee (both re-read on every run): for every parameter of the callee the call
site has exactly one argument, and that argument is the expected expression -- by default the wrapper's variable / `args.`
attribute of the same name.  What the wrapper does to a variable before the call (clamping `num_procs`, ...) is not judged
here; dropping, swapping or hard-wiring an option is."""
from __future__ import annotations

import ast
from typing import Dict, List, Optional

import z3

from pyvc import core
from pyvc.core import Session

KK_E = "analysis/kramers_kronig/exploratory"
KK_S = "analysis/kramers_kronig/single"

KK_OPTIONS = ["test", "add_capacitance", "add_inductance", "min_log_F_ext", "max_log_F_ext", "log_F_ext", "num_F_ext_evaluations",
              "rapid_F_ext_evaluations", "cnls_method", "max_nfev", "timeout", "num_procs"]


def _calls(fn: ast.AST, callee: str) -> List[ast.Call]:
    out = []
    for n in ast.walk(fn):
        if isinstance(n, ast.Call) and ((isinstance(n.func, ast.Name) and n.func.id == callee) or (isinstance(n.func, ast.Attribute) and n.func.attr == callee)):
            out.append(n)
    return sorted(out, key=lambda c: (c.lineno, c.col_offset))


def check(sess: Session, module: str, wrapper: str, callee_module: str, callee: str, expected: Dict[str, Optional[str]], min_calls: int = 1,
          positional: Optional[Dict[int, str]] = None, optional: tuple = ()):
    """expected: callee parameter -> source text of the argument (None: any expression, but it must be passed)"""
    fn = core.find_def(module, wrapper)
    cal = core.find_def(callee_module, callee)
    a = cal.args
    params = [x.arg for x in a.posonlyargs + a.args + a.kwonlyargs]
    calls = _calls(fn, callee)
    sess.check("cover", [], z3.BoolVal(len(calls) >= min_calls), fn.lineno, label=f"{wrapper} -> {callee}: {len(calls)} call site(s)")
    unknown = [k for k in expected if k not in params]
    sess.check("pre", [], z3.BoolVal(not unknown), cal.lineno, label=f"{wrapper} -> {callee}: the contract names only parameters the callee has {unknown or ''}")
    for ci, c in enumerate(calls):
        given: Dict[str, ast.AST] = {}
        for i, x in enumerate(c.args):
            if i < len(params):
                given[params[i]] = x
        splat = False
        for kw in c.keywords:
            if kw.arg is None:
                splat = True
            else:
                given[kw.arg] = kw.value
        for p in params:
            if p in optional and p not in expected:
                continue
            if p not in expected:
                # a parameter of the callee the contract says nothing about must at least not be passed something: fine either way
                continue
            want = expected[p]
            got = given.get(p)
            tag = f"{wrapper} -> {callee} (call {ci + 1}): {p}"
            if got is None:
                sess.check("call-pre", [], z3.BoolVal(splat and want is None), c.lineno, label=f"{tag} is passed on")
                continue
            sess.check("call-pre", [], z3.BoolVal(True), c.lineno, label=f"{tag} is passed on")
            if want is not None:
                # a local variable named like the parameter is accepted as well (its value is computed elsewhere and not judged here)
                ok = ast.unparse(got) == want or (isinstance(got, ast.Name) and got.id == p)
                ob = sess.check("call-pre", [], z3.BoolVal(ok), c.lineno, label=f"{tag} = {want}")
                if not ok:
                    ob.detail = f"passed: {ast.unparse(got)[:120]}"
        extra = [k for k in given if k not in params and a.kwarg is None]
        sess.check("call-pre", [], z3.BoolVal(not extra), c.lineno, label=f"{wrapper} -> {callee} (call {ci + 1}): no argument the callee does not take {extra or ''}")


def target_kk_wrappers():
    """the Kramers-Kronig entry points hand every option to evaluate_log_F_ext, for each representation they try"""
    def run(sess: Session):
        same = {k: k for k in KK_OPTIONS}
        check(sess, KK_E, "_evaluate_representations", KK_E, "evaluate_log_F_ext", {**same, "data": "data", "num_RCs": "num_RCs", "admittance": "admittance"})
        check(sess, KK_E, "perform_exploratory_kramers_kronig_tests", KK_E, "_evaluate_representations",
              {**same, "data": "data", "num_RCs": "num_RCs", "representations": "[False, True] if admittance is None else [admittance]"})
        check(sess, KK_S, "perform_kramers_kronig_test", KK_E, "evaluate_log_F_ext",
              {**same, "data": "data", "num_RCs": "[num_RC] if num_RC > 0 else None", "admittance": "admittance"})
    return (f"{KK_E}:wrappers forward every option", KK_E, "_evaluate_representations", run)


def target_cli_wrappers():
    """cli/test.py and cli/zhit.py hand every command-line option to the API call, each from its own `args.` attribute"""
    def run(sess: Session):
        a = lambda k: f"args.{k}"
        check(sess, "cli/test", "exploratory_tests", KK_E, "evaluate_log_F_ext",
              {"data": "data", "test": a("test"), "num_RCs": "num_RCs", "add_capacitance": "not args.no_capacitance", "add_inductance": "not args.no_inductance",
               "admittance": "admittance", "min_log_F_ext": a("min_log_F_ext"), "max_log_F_ext": a("max_log_F_ext"), "log_F_ext": a("log_F_ext"),
               "num_F_ext_evaluations": a("num_F_ext_evaluations"), "rapid_F_ext_evaluations": "not args.no_rapid_F_ext_evaluations", "cnls_method": a("cnls_method"),
               "max_nfev": a("max_nfev"), "timeout": a("timeout"), "num_procs": a("num_procs")})
        check(sess, "cli/zhit", "command", "analysis/zhit/__init__", "perform_zhit",
              {"data": "data", "smoothing": a("smoothing"), "interpolation": a("interpolation"), "window": a("weights_window"), "center": a("weights_center"),
               "width": a("weights_width"), "num_points": a("num_points"), "polynomial_order": a("polynomial_order"), "num_iterations": a("num_iterations"),
               "admittance": a("admittance"), "num_procs": a("num_procs")})
    return ("cli/test:wrappers forward every option", "cli/test", "command", run)



def target_perform_tests_dispatch():
    """exploratory._perform_tests: the three implementations are called with the caller's values, every one of them unchanged and at
    the parameter it is meant for -- decided by RUNNING the real function with recording stand-ins for `_use_cnls`,
    `_use_matrix_inversion`, `_use_least_squares_fitting` (bound by the callees' real signatures, read from the tree) on
    distinctive values (objects compared by identity, numbers that any rounding changes, every combination of the three flags)."""
    import itertools
    from pyvc import overload as O

    def run(sess: Session):
        callees = {}
        for name in ("_use_cnls", "_use_matrix_inversion", "_use_least_squares_fitting"):
            a = core.find_def(KK_E, name).args
            callees[name] = [x.arg for x in a.posonlyargs + a.args + a.kwonlyargs]
        rename = {"_use_cnls": {"method": "cnls_method"}}
        n_calls = 0
        for test, (cap, ind, adm) in itertools.product(("cnls", "complex-inv", "real-inv", "imaginary-inv", "complex", "real", "imaginary"), itertools.product((False, True), repeat=3)):
            got = []

            def stub(name):
                def f(*args, **kw):
                    bound = dict(zip(callees[name], args))
                    bound.update(kw)
                    got.append((name, bound, len(args) + len(kw)))
                    return ("fits", name)
                return f
            vals = dict(test=test, f=object(), Z_exp=object(), weight=object(), automatically_limit_num_RC=object(), num_RCs=[3, 4], add_capacitance=cap, add_inductance=ind,
                        admittance=adm, log_F_ext=0.33370001234567, cnls_method="powell", max_nfev=137, num_procs=3, timeout=59, prog=object())
            ns = {n: stub(n) for n in callees}
            O.load(KK_E, ["_perform_tests"], ns)
            out = ns["_perform_tests"](**vals)
            want_callee = "_use_cnls" if test == "cnls" else ("_use_matrix_inversion" if test.endswith("-inv") else "_use_least_squares_fitting")
            tag = f"[test={test}, C={cap}, L={ind}, Y={adm}]"
            ok = len(got) == 1 and got[0][0] == want_callee and out == ("fits", want_callee)
            sess.check("post", [], z3.BoolVal(ok), 0, label=f"{tag}exactly {want_callee} runs and its fits are returned")
            if not ok:
                continue
            n_calls += 1
            name, bound, n = got[0]
            sess.check("call-pre", [], z3.BoolVal(n == len(callees[name]) and set(bound) == set(callees[name])), 0, label=f"{tag}{name} receives each of its parameters once")
            bad = []
            for p_, v in bound.items():
                src = rename.get(name, {}).get(p_, p_)
                want = vals[src] if p_ != "test" else test.replace("-inv", "")
                same = (v is want) if type(want) is object else (type(v) is type(want) and v == want)
                if not same:
                    bad.append(f"{p_}={v!r} (caller has {src}={want!r})")
            ob = sess.check("call-pre", [], z3.BoolVal(not bad), 0, label=f"{tag}every value reaches {name} unchanged, at the parameter it is meant for")
            if bad:
                ob.detail = "; ".join(bad[:4])
        sess.check("cover", [], z3.BoolVal(n_calls == 56), 0, label=f"dispatches checked: {n_calls}")
    return (f"{KK_E}:_perform_tests", KK_E, "_perform_tests", run)
