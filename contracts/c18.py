"""C18 proof layer, part 1: pyimpspec/progress.py -- class invariant 0 <= _i <= _total, total >= 1, and every
notification delivered to callbacks carries 0 <= progress <= 1 and a message.  Part 2: ghost step accounting of
the analysis entry points (increments on every path <= total)."""
from __future__ import annotations

import ast

import itertools

import z3

from pyvc import builtins as B
from pyvc.core import Session, find_def
from pyvc.symex import Contract, Executor, Raised, State, Unsupported
from pyvc.values import NONE, FuncV, Obj, PyDict, Ref, StrV, TupleV, fresh

MOD = "progress"


def _executor(sess, notifications):
    ex = Executor(sess, MOD)
    B.install(ex)

    def update_contract(ex_, st, recv, args, kwargs, line):
        # pyimpspec.progress._update(*args, **kwargs): forwards to every registered callback
        kw = dict(kwargs)
        if "**" in kw:
            extra = st.deref(kw.pop("**"))
            if isinstance(extra, PyDict):
                kw = {**extra.items, **kw}
        p = kw.get("progress")
        ex_.oblige("call-pre", st, z3.BoolVal(p is not None and "message" in kw), line, "notification-has-progress-and-message")
        if p is not None:
            p = ex_.lift(p)
            ex_.oblige("call-pre", st, z3.And(p >= 0, p <= 1), line, "0<=progress<=1")
        notifications.append(line)
        return [(NONE, st)]
    ex.functions["_update"] = update_contract
    ex.consts["_update"] = ("builtin", lambda ex_, st, a, kw, node: update_contract(ex_, st, None, a, kw, node.lineno))
    return ex


def ginv(rp):
    """global invariant of _RECENT_PROGRESS: negative (= nothing reported yet) or in [0, 1]"""
    return z3.Or(rp < 0, z3.And(rp >= 0, rp <= 1))


def pinv(i, total):
    return z3.And(0 <= i, i <= total, total >= 1)


def _new_progress(st: State):
    i, total = fresh("_i", z3.IntSort()), fresh("_total", z3.IntSort())
    me = st.alloc(Obj("Progress", {"_i": i, "_total": total, "_message": StrV(note="msg"),
                                   "_args": st.alloc(TupleV([])), "_kwargs": st.alloc(PyDict({}))}))
    return me, i, total


def _call(ex, qual, st, me, args=(), kwargs=None):
    fn = find_def(MOD, qual)
    node = ast.parse("f()").body[0].value
    node.lineno = fn.lineno
    return ex.call_funcv(FuncV(fn, MOD, qualname=qual, bound_self=me), list(args), kwargs or {}, None, st, node)


def target_update_every():
    qual = "_update_every_N_percent"

    def run(sess: Session):
        notes = []
        ex = _executor(sess, notes)
        st = State()
        i, total = fresh("i", z3.IntSort()), fresh("total", z3.IntSort())
        rp = fresh("RP", z3.RealSort())
        force = fresh("force", z3.BoolSort())
        st.globals["_RECENT_PROGRESS"] = rp
        st.pc += [pinv(i, total), ginv(rp)]
        outs = _call(ex, qual, st, None, kwargs={"i": i, "total": total, "message": StrV(note="m"), "force": force})
        n = 0
        for val, s1 in outs:
            if isinstance(val, Raised):
                sess.check("exc-free", s1.pc, z3.BoolVal(False), val.exc.line, label=val.exc.name)
                continue
            n += 1
            sess.check("post", s1.pc, ginv(s1.globals["_RECENT_PROGRESS"]), 0, label="global-invariant")
            sess.check("canary", s1.pc, z3.BoolVal(False), 0, label="ensures-False", expect_refuted=True)
        sess.check("cover", [], z3.BoolVal(n >= 3 and len(notes) >= 2), 0, label="paths-and-notifications")
    return (f"{MOD}:{qual}", MOD, qual, run)


def target_method(name: str):
    qual = f"Progress.{name}"

    def run(sess: Session):
        notes = []
        ex = _executor(sess, notes)
        ex.inline["_update"] = (MOD, "Progress._update")
        ex.inline["increment"] = (MOD, "Progress.increment")
        ex.consts["_update_every_N_percent"] = FuncV(find_def(MOD, "_update_every_N_percent"), MOD, qualname="_update_every_N_percent")
        st = State()
        me, i, total = _new_progress(st)
        rp = fresh("RP", z3.RealSort())
        st.globals["_RECENT_PROGRESS"] = rp
        st.pc += [pinv(i, total), ginv(rp)]
        args, kwargs = [], {}
        step = None
        if name == "increment":
            step = fresh("step", z3.IntSort())
            st.pc.append(step >= 0)
            kwargs = {"step": step, "force": fresh("force", z3.BoolSort())}
        elif name == "set":
            step = fresh("newi", z3.IntSort())
            st.pc.append(step >= 0)
            args = [step]
        elif name == "set_message":
            # the only form used by the library: set_message(message[, force=...]) -- i and total keep their defaults
            args = [StrV(note="new message")]
        elif name == "__exit__":
            args = [NONE, NONE, NONE]
        outs = _call(ex, qual, st, me, args=args, kwargs=kwargs)
        n = nr = 0
        for val, s1 in outs:
            o = s1.deref(me)
            if isinstance(val, Raised):
                nr += 1
                sess.check("exc-class", s1.pc, z3.BoolVal(val.exc.name == "ValueError"), val.exc.line, label=val.exc.name)
                # raises only if the step would pass the total
                if name in ("increment", "__exit__"):
                    sess.check("post", s1.pc, i + (step if step is not None else 1) > total, val.exc.line, label="raises-only-past-total")
                elif name == "set":
                    sess.check("post", s1.pc, step > total, val.exc.line, label="raises-only-past-total")
                else:
                    sess.check("exc-free", s1.pc, z3.BoolVal(False), val.exc.line, label="no-raise")
                continue
            n += 1
            sess.check("post", s1.pc, pinv(o.fields["_i"], o.fields["_total"]), 0, label="Inv(0<=_i<=_total)")
            sess.check("post", s1.pc, ginv(s1.globals["_RECENT_PROGRESS"]), 0, label="global-invariant")
            if name in ("increment", "__exit__"):
                sess.check("post", s1.pc, o.fields["_i"] == i + (step if step is not None else 1), 0, label="_i-advanced")
            sess.check("canary", s1.pc, z3.BoolVal(False), 0, label="ensures-False", expect_refuted=True)
        sess.check("cover", [], z3.BoolVal(n >= 1 and (nr >= 1 or name in ("set_message", "__enter__"))), 0, label="exits-reachable")
    return (f"{MOD}:{qual}", MOD, qual, run)


def target_registry():
    """register/unregister keep _CALLBACKS a map from fresh positive ints"""
    def run(sess: Session):
        from pyvc.values import DictV
        ex = _executor(sess, [])
        st = State()
        cb = DictV.symbolic("cbs", z3.IntSort(), z3.IntSort())
        counter = fresh("_COUNTER", z3.IntSort())
        cell = st.alloc(cb)
        st.globals["_CALLBACKS"] = cell
        st.globals["_COUNTER"] = counter
        k = fresh("k", z3.IntSort())
        inv = lambda d, c: z3.And(c >= 0, z3.ForAll([k], z3.Implies(d.has(k), z3.And(k >= 1, k <= c))))
        st.pc.append(inv(cb, counter))
        fn = find_def(MOD, "register")
        node = ast.parse("f()").body[0].value
        node.lineno = fn.lineno
        for val, s1 in ex.call_funcv(FuncV(fn, MOD, qualname="register"), [fresh("callback", z3.IntSort())], {}, None, st, node):
            if isinstance(val, Raised):
                sess.check("exc-free", s1.pc, z3.BoolVal(False), val.exc.line, label=val.exc.name)
                continue
            d1 = s1.deref(s1.globals["_CALLBACKS"])
            sess.check("post", s1.pc, inv(d1, s1.globals["_COUNTER"]), 0, label="callbacks-keyed-by-positive-ints")
            sess.check("post", s1.pc, z3.And(z3.Not(cb.has(val)), d1.has(val), val >= 1), 0, label="identifier-fresh")
            sess.check("frame", s1.pc, z3.ForAll([k], z3.Implies(cb.has(k), z3.And(d1.has(k), d1.get(k) == cb.get(k)))), 0, label="other-callbacks-kept")
    return (f"{MOD}:register", MOD, "register", run)


def targets():
    ts = [target_update_every()]
    for m in ("increment", "set", "set_message", "__exit__", "__enter__"):
        ts.append(target_method(m))
    ts.append(target_registry())
    return ts


# ------------------------------------------------------------------------------------------------ part 2: step accounting
def target_zhit_steps():
    """perform_zhit: the real step accounting -- num_steps arithmetic of perform_zhit against the prog.increment() calls of
    the real _generate_window_options / _generate_smoothing_options / _generate_interpolation_options /
    _reconstruct_modulus_data / _adjust_modulus_offset -- executed by CPython with the real Progress class (so an excess
    increment raises exactly as in production) and stand-ins for the numerical leaves only.  Exhaustive over
    {smoothing: auto|named} x {interpolation: auto|named} x {window: auto|named} x {weights: None|array} x {num_procs 1}
    and window-table sizes W in {1, 2, 14}: both sides are affine in W, so W = 1, 2 decide every W >= 1."""
    import itertools
    from pyvc import overload as O
    Z = "analysis/zhit/__init__"

    def run(sess: Session):
        n = 0
        for W in (1, 2, 14):
            for smoothing, interpolation, window, with_weights in itertools.product(("auto", "modsinc"), ("auto", "akima"), ("auto", "boxcar"), (False, True)):
                ns = {}
                O.load(MOD, ["Progress"], ns) if False else None
                # real Progress class, with the notification back end stubbed
                import ast as _ast
                from pyvc import core as _core
                cls = _core.find_def(MOD, "Progress")
                mod_ = _ast.Module(body=[O.strip(m) if isinstance(m, _ast.FunctionDef) else m for m in [cls]], type_ignores=[])
                # strip annotations inside the class body methods
                cls2 = _ast.ClassDef(name="Progress", bases=[], keywords=[], body=[O.strip(m) for m in cls.body if isinstance(m, _ast.FunctionDef)], decorator_list=[])
                m2 = _ast.Module(body=[cls2], type_ignores=[])
                _ast.fix_missing_locations(m2)
                pns = {"_update_every_N_percent": lambda **kw: None}
                exec(compile(m2, "<progress:Progress>", "exec"), pns)
                RealProgress = pns["Progress"]
                made = []

                def mkprog(*a, **k):
                    p = RealProgress(*a, **k)
                    made.append(p)
                    return p

                class Interp:
                    def derivative(self, n_):
                        return self

                    def __call__(self, x):
                        return 0.0

                class Arr(list):
                    def __pow__(s, k):
                        return s

                    def __mul__(s, k):
                        return s
                    __rmul__ = __mul__

                    def __add__(s, k):
                        return s
                    __radd__ = __add__

                    def __iadd__(s, o):
                        return s

                    def __isub__(s, o):
                        return s

                    @property
                    def real(s):
                        return s

                class Data:
                    def get_frequencies(s):
                        return Arr([1.0, 2.0, 3.0])

                    def get_impedances(s):
                        return Arr([1.0, 2.0, 3.0])

                    def get_label(s):
                        return ""

                    def get_path(s):
                        return ""
                table = {f"w{i}": None for i in range(W)}
                table["boxcar"] = None
                table = dict(list(table.items())[-W:]) if W < len(table) else table
                if "boxcar" not in table:
                    table["boxcar"] = None
                Wn = len(table)
                ns = {"_WINDOW_FUNCTIONS": table, "_initialize_window_functions": lambda: None, "_generate_weights": lambda *a: Arr([1.0]),
                      "_smooth_phase": lambda *a: Arr([0.0]), "_interpolate_phase": lambda *a: Interp(), "_reconstruct": lambda a: (Arr([0.0]), a[3], a[4]),
                      "_adjust_offset": lambda a: (0.0, Arr([1.0]), a[6], a[7], a[8]), "Pool": None, "Progress": mkprog,
                      "_is_boolean": lambda x: isinstance(x, bool), "_is_integer": lambda x: isinstance(x, int), "_is_floating": lambda x: isinstance(x, float),
                      "_is_floating_array": lambda x: isinstance(x, Arr), "isinstance": lambda a, b: True, "DataSet": object,
                      "_SMOOTHING_METHODS": [], "_INTERPOLATION_METHODS": [], "log": lambda x: x, "ln": lambda x: x, "pi": 3.0, "angle": lambda x: x,
                      "min": lambda x: 1.0, "abs": lambda x: x, "max": max, "len": len, "get_default_num_procs": lambda: 1, "array": lambda x: Arr(x), "list": list, "map": map,
                      "_calculate_residuals": lambda **k: None, "_calculate_pseudo_chisqr": lambda **k: 0.0, "ZHITResult": lambda **k: ("result", k), "sorted": sorted}
                O.load("analysis/zhit/weights", ["_generate_window_options"], ns)
                O.load("analysis/zhit/smoothing/__init__", ["_generate_smoothing_options"], ns)
                O.load("analysis/zhit/interpolation", ["_generate_interpolation_options"], ns)
                O.load("analysis/zhit/reconstruction", ["_reconstruct_modulus_data"], ns)
                O.load("analysis/zhit/offset", ["_adjust_modulus_offset"], ns)
                O.load(Z, ["perform_zhit"], ns)
                err = None
                try:
                    ns["perform_zhit"](Data(), smoothing=smoothing, interpolation=interpolation, window=window, num_points=3, polynomial_order=2, num_iterations=3,
                                       center=1.5, width=3.0, weights=(Arr([1.0, 1.0, 1.0]) if with_weights else None), admittance=False, num_procs=1)
                except Exception as ex:  # noqa
                    err = ex; import traceback, os; os.environ.get("PYVC_TRACE") and traceback.print_exc()
                n += 1
                tag = f"[W={Wn},smoothing={smoothing},interpolation={interpolation},window={window},weights={'array' if with_weights else 'None'}]"
                ob = sess.check("exc-free", [], z3.BoolVal(err is None), 0, label=f"no abort from step accounting{tag}")
                if err is not None:
                    ob.detail = f"{type(err).__name__}: {str(err)[:120]}"
                if err is None and made:
                    p = made[0]
                    sess.check("post", [], z3.BoolVal(0 <= p._i <= p._total), 0, label=f"0 <= steps taken ({p._i}) <= total ({p._total}){tag}")
        sess.check("cover", [], z3.BoolVal(n == 48), 0, label=f"{n} option/table combinations")
        sess.assumptions.append("perform_zhit step accounting: window table non-empty (W >= 1); counts are affine in W, checked at W = 1, 2, 14")
    return ("analysis/zhit/__init__:perform_zhit[step accounting]", "analysis/zhit/__init__", "perform_zhit", run)


_part1_targets = targets


def targets():      # noqa: F811
    return _part1_targets() + [target_zhit_steps()]


_targets_with_zhit = targets


def targets():      # noqa: F811
    from . import dataflow as DF
    from . import steps
    return _targets_with_zhit() + [DF.target_trnnls("steps")] + steps.targets()


_targets_before_pick_minimum = targets


def target_pick_minimum():
    """`_pick_minimum(x, y, x_interp, y_interp)` (the last step of the search for the optimal extension factor): the interpolated
    curve may be EMPTY -- a narrow but legal `min_log_F_ext .. max_log_F_ext` range leaves no interior points -- while at least one
    evaluated point always exists; `argmin` of an empty array raises, so it is applied to the interpolated values only on a path that
    has established that there are some, and to the local minima only if there are any.  The real function runs on sequences whose
    emptiness is a question to the oracle (every answer explored); returns the abscissa of one of the candidates."""
    from pyvc import overload as O
    from . import dataflow as DF
    from .dataflow import T
    KE = "analysis/kramers_kronig/exploratory"

    def run(sess: Session):
        paths = 0

        def once():
            viol = []

            class Seq:
                def __init__(self, name, nonempty=None):
                    self.name, self.nonempty = name, nonempty

                def __getitem__(self, i):
                    if isinstance(i, Seq):
                        return Seq(f"{self.name}[{i.name}]", i.nonempty)
                    return T.var(f"{self.name}[{getattr(i, 'e', i)}]")

                def __iter__(self):
                    # iterating (e.g. unpacking into a list display) visits the items there are: none if empty
                    if self.nonempty is None:
                        self.nonempty = DF.ORACLE.decide("nonempty", f"nonempty({self.name})")
                    return iter([T.var(f"{self.name}[k]")] if self.nonempty else [])

            class Len:
                def __init__(self, seq):
                    self.seq = seq

                def __gt__(self, o):
                    if o != 0:
                        raise O.Unsupported("length compared with something other than 0")
                    if self.seq.nonempty is None:
                        self.seq.nonempty = DF.ORACLE.decide("nonempty", f"nonempty({self.seq.name})")
                    return self.seq.nonempty

            def argmin(seq):
                if isinstance(seq, Seq) and seq.nonempty is not True:
                    viol.append(seq.name)
                return T.var(f"argmin({getattr(seq, 'name', 'list')})")
            x, y = Seq("x", True), Seq("y", True)
            xi, yi = Seq("x_interp"), Seq("y_interp")
            ns = {"argmin": argmin, "argrelmin": lambda s_: (Seq(f"argrelmin({s_.name})"),), "len": lambda s_: Len(s_) if isinstance(s_, Seq) else len(s_), "min": min}
            O.load(KE, ["_pick_minimum"], ns)
            try:
                out = ns["_pick_minimum"](x, y, xi, yi)
            except Exception as ex:       # noqa: BLE001
                out = ex
            return out, viol
        for log, (out, viol), facts in DF.explore(once):
            paths += 1
            tag = "[" + ",".join(f"{getattr(w, 'key', w)}={v}" for w, v in log if "nonempty" in str(getattr(w, "key", ""))) + "]"
            ob = sess.check("call-pre", [], z3.BoolVal(not viol), 0, label=f"argmin is applied only to an array the path has shown to be non-empty{tag}")
            if viol:
                ob.detail = f"argmin of possibly empty: {viol}"
            sess.check("post", [], z3.BoolVal(isinstance(out, T)), 0, label=f"_pick_minimum returns the abscissa of a candidate{tag}")
        sess.check("cover", [], z3.BoolVal(paths >= 3), 0, label=f"paths executed: {paths}")
    return (f"{KE}:_pick_minimum", KE, "_pick_minimum", run)


def targets():      # noqa: F811
    return _targets_before_pick_minimum() + [target_pick_minimum()]


_targets_before_generate_parameters = targets


def target_generate_parameters():
    """`_generate_parameters(peaks, disallow_skew)` (peak analysis): the number it returns is the number of parameters lmfit will
    actually VARY -- `_analyze_peaks` drops the smallest peaks until that number does not exceed the number of points, which is
    the up-front refusal that keeps `leastsq` from aborting with "N must not exceed M" after the analysis has started.  Four
    parameters per peak (height, position, skew, width), the skew varied unless skew is disallowed; the real function on a
    recording `Parameters`, one to four peaks (the loop body keeps no state between peaks but the count)."""
    from pyvc import overload as O
    PA = "analysis/drt/peak_analysis"

    def run(sess: Session):
        import math
        for n_peaks, disallow in itertools.product((1, 2, 3, 4), (False, True)):
            added = []

            class Parameters:
                def add(self, name=None, value=None, min=None, max=None, vary=True, **kw):
                    added.append((name, vary))
            ns = {"Parameters": Parameters, "isclose": lambda a, b, **k: math.isclose(a, b, abs_tol=1e-8), "enumerate": enumerate, "len": len, "dict": dict}
            O.load(PA, ["_generate_parameters"], ns)
            peaks = [(0.1 + 0.2 * k, 0.5 + 0.1 * k) for k in range(n_peaks)]
            out = ns["_generate_parameters"](peaks, disallow)
            tag = f"[{n_peaks} peak(s), disallow_skew={disallow}]"
            ok = isinstance(out, tuple) and len(out) == 2 and isinstance(out[0], Parameters)
            sess.check("post", [], z3.BoolVal(ok), 0, label=f"returns (parameters, number of variables){tag}")
            if not ok:
                continue
            varied = sum(1 for _, v in added if v)
            ob = sess.check("post", [], z3.BoolVal(out[1] == varied), 0, label=f"the number of variables is the number of parameters that are varied{tag}")
            if out[1] != varied:
                ob.detail = f"returned {out[1]}, varied {varied}"
            names = sorted(n for n, _ in added)
            want = sorted(f"{p}_{k}" for k in range(n_peaks) for p in ("h", "p", "alpha", "sigma"))
            sess.check("post", [], z3.BoolVal(names == want and all(v is (not disallow) for n, v in added if n.startswith("alpha_"))), 0, label=f"height, position, skew and width per peak; the skew is varied unless disallowed{tag}")
        try:
            ns["_generate_parameters"]([], False)
            refused = False
        except ValueError:
            refused = True
        sess.check("post", [], z3.BoolVal(refused), 0, label="no peak to analyse is refused with ValueError")
    return (f"{PA}:_generate_parameters", PA, "_generate_parameters", run)


def targets():      # noqa: F811
    return _targets_before_generate_parameters() + [target_generate_parameters()]



_WEIGHTS_REPRO = '''import numpy as np
from pyimpspec.analysis.zhit.weights import _generate_weights, _initialize_window_functions
_initialize_window_functions()
log_f = np.log10(np.logspace(4, -1, 51))
for center, width in ((1.53, 0.02), (0.25, 0.04), (2.0, 0.5), (1.5, 3.0)):
    w = _generate_weights(log_f, "hann", center, width)      # must not raise, whatever the width
    assert len(w) == len(log_f) and all(0.0 <= v <= 1.0 for v in w), (center, width, w)
'''


def target_generate_weights():
    """zhit/weights._generate_weights(log_f, window, center, width): the abscissae handed to the interpolator of the window function
    are the grid points inside [center - width/2, center + width/2] with BOTH end points added when they are not grid points -- for
    every window, also one so narrow that no grid point falls inside it (then the two end points alone) -- so nothing is indexed
    that may be empty and the interpolator always gets a strictly ascending sequence of at least two points that spans the window.
    Real function on symbolic numbers (contracts/domain.Num): whether a grid point lies inside the window, and whether it coincides
    with an end point, are questions answered both ways; grids of 0, 1 and 2 candidate points."""
    from pyvc import overload as O
    from . import dataflow as DF
    from . import domain as D
    WT = "analysis/zhit/weights"

    def run(sess: Session):
        paths = {"ok": 0, "raised": 0}
        raised = []
        for n_grid in (0, 1, 2):
            box = {}

            def once():
                box.clear()
                center, width = D.Num.var("center"), D.Num.var("width")
                grid = [D.Num.var(f"grid{k}") for k in range(n_grid)]

                class Akima:
                    def __init__(self, x, y):
                        box["x"] = list(x)
                        box["M"] = y

                    def __call__(self, lf):
                        return 0.5
                ns = {"Akima1DInterpolator": Akima, "_WINDOW_FUNCTIONS": {"hann": lambda M: ("window", M)}, "zeros": lambda shape, dtype=None: type("W", (list,), {"__lt__": lambda s_, o: s_, "__gt__": lambda s_, o: s_})(), "log": lambda g: g, "log10": lambda g: g,
                      "logspace": lambda a, b, num=None: list(grid), "floor": lambda v: 0, "ceil": lambda v: 1, "int": int, "len": len, "enumerate": enumerate,
                      "where": lambda c: (type("Ix", (list,), {"size": 0})(),), "float64": float, "ZHITError": type("ZHITError", (Exception,), {}), "sorted": sorted}
                O.load(WT, ["_generate_weights"], ns)
                log_f = type("A", (list,), {"shape": (0,)})()
                try:
                    ns["_generate_weights"](log_f, "hann", center, width)
                    return None
                except (IndexError, ValueError) as ex:
                    return ex
            for log, res, facts in DF.explore(once, max_paths=512):
                lo, hi = z3.Real("center") - z3.Real("width") / 2, z3.Real("center") + z3.Real("width") / 2
                hyps = list(facts) + [z3.Real("width") > 0] + [z3.Real(f"grid{k}") < z3.Real(f"grid{k + 1}") for k in range(n_grid - 1)]
                solver = z3.Solver()
                solver.add(*hyps)
                if solver.check() != z3.sat:
                    continue            # (answers that contradict each other, or a grid that is not ascending)
                tag = f"[{n_grid} candidate grid points; " + ", ".join(f"{w.key}={v}" for w, v in log)[:150] + "]"
                if res is not None:
                    paths["raised"] += 1
                    raised.append(f"{type(res).__name__}: {res} {tag}")
                    continue
                paths["ok"] += 1
                xs = [v.e if isinstance(v, D.Num) else z3.RealVal(v) for v in box.get("x", [])]
                sess.check("post", hyps, z3.BoolVal(len(xs) >= 2), 0, label=f"{tag}the interpolator gets at least two abscissae")
                if len(xs) >= 2:
                    sess.check("post", hyps, z3.And(xs[0] == lo, xs[-1] == hi), 0, label=f"{tag}the abscissae start at center - width/2 and end at center + width/2")
                    sess.check("post", hyps, z3.And(*[xs[k] < xs[k + 1] for k in range(len(xs) - 1)]), 0, label=f"{tag}the abscissae are strictly ascending")
                    sess.check("post", [], z3.BoolVal(box.get("M") == ("window", len(xs))), 0, label=f"{tag}one window value per abscissa")
            ob = sess.check("exc-free", [], z3.BoolVal(not raised), 0, label=f"[{n_grid} candidate grid points]no IndexError / ValueError on any feasible path, for every window of positive width")
            if raised:
                ob.detail = "; ".join(raised[:3])
                ob.replay = {"input": "a window narrower than the spacing of the grid", "repro": _WEIGHTS_REPRO}
            del raised[:]
        sess.check("cover", [], z3.BoolVal(paths["ok"] >= 6), 0, label=f"feasible paths: {paths['ok']}")
    return (f"{WT}:_generate_weights", WT, "_generate_weights", run)


_targets_before_weights = targets


def targets():      # noqa: F811
    return _targets_before_weights() + [target_generate_weights()]
