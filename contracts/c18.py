"""C18 proof layer, part 1: pyimpspec/progress.py -- class invariant 0 <= _i <= _total, total >= 1, and every
notification delivered to callbacks carries 0 <= progress <= 1 and a message.  Part 2: ghost step accounting of
the analysis entry points (increments on every path <= total)."""
from __future__ import annotations

import ast

import z3

from pyvc import builtins as B
from pyvc.core import Session, find_def
from pyvc.symex import Contract, Executor, Raised, State, Unsupported
from pyvc.values import NONE, FuncV, Obj, PyDict, Ref, StrV, TupleV, fresh

MOD = "progress"


def _executor(sess, notifications):
    ex = Executor(sess, MOD)
    B.install(ex)

    def update_contract(ex_, st, recv, args, kwargs, line):
        # pyimpspec.progress._update(*args, **kwargs): forwards to every registered callback
        kw = dict(kwargs)
        if "**" in kw:
            extra = st.deref(kw.pop("**"))
            if isinstance(extra, PyDict):
                kw = {**extra.items, **kw}
        p = kw.get("progress")
        ex_.oblige("call-pre", st, z3.BoolVal(p is not None and "message" in kw), line, "notification-has-progress-and-message")
        if p is not None:
            p = ex_.lift(p)
            ex_.oblige("call-pre", st, z3.And(p >= 0, p <= 1), line, "0<=progress<=1")
        notifications.append(line)
        return [(NONE, st)]
    ex.functions["_update"] = update_contract
    ex.consts["_update"] = ("builtin", lambda ex_, st, a, kw, node: update_contract(ex_, st, None, a, kw, node.lineno))
    return ex


def ginv(rp):
    """global invariant of _RECENT_PROGRESS: negative (= nothing reported yet) or in [0, 1]"""
    return z3.Or(rp < 0, z3.And(rp >= 0, rp <= 1))


def pinv(i, total):
    return z3.And(0 <= i, i <= total, total >= 1)


def _new_progress(st: State):
    i, total = fresh("_i", z3.IntSort()), fresh("_total", z3.IntSort())
    me = st.alloc(Obj("Progress", {"_i": i, "_total": total, "_message": StrV(note="msg"),
                                   "_args": st.alloc(TupleV([])), "_kwargs": st.alloc(PyDict({}))}))
    return me, i, total


def _call(ex, qual, st, me, args=(), kwargs=None):
    fn = find_def(MOD, qual)
    node = ast.parse("f()").body[0].value
    node.lineno = fn.lineno
    return ex.call_funcv(FuncV(fn, MOD, qualname=qual, bound_self=me), list(args), kwargs or {}, None, st, node)


def target_update_every():
    qual = "_update_every_N_percent"

    def run(sess: Session):
        notes = []
        ex = _executor(sess, notes)
        st = State()
        i, total = fresh("i", z3.IntSort()), fresh("total", z3.IntSort())
        rp = fresh("RP", z3.RealSort())
        force = fresh("force", z3.BoolSort())
        st.globals["_RECENT_PROGRESS"] = rp
        st.pc += [pinv(i, total), ginv(rp)]
        outs = _call(ex, qual, st, None, kwargs={"i": i, "total": total, "message": StrV(note="m"), "force": force})
        n = 0
        for val, s1 in outs:
            if isinstance(val, Raised):
                sess.check("exc-free", s1.pc, z3.BoolVal(False), val.exc.line, label=val.exc.name)
                continue
            n += 1
            sess.check("post", s1.pc, ginv(s1.globals["_RECENT_PROGRESS"]), 0, label="global-invariant")
            sess.check("canary", s1.pc, z3.BoolVal(False), 0, label="ensures-False", expect_refuted=True)
        sess.check("cover", [], z3.BoolVal(n >= 3 and len(notes) >= 2), 0, label="paths-and-notifications")
    return (f"{MOD}:{qual}", MOD, qual, run)


def target_method(name: str):
    qual = f"Progress.{name}"

    def run(sess: Session):
        notes = []
        ex = _executor(sess, notes)
        ex.inline["_update"] = (MOD, "Progress._update")
        ex.inline["increment"] = (MOD, "Progress.increment")
        ex.consts["_update_every_N_percent"] = FuncV(find_def(MOD, "_update_every_N_percent"), MOD, qualname="_update_every_N_percent")
        st = State()
        me, i, total = _new_progress(st)
        rp = fresh("RP", z3.RealSort())
        st.globals["_RECENT_PROGRESS"] = rp
        st.pc += [pinv(i, total), ginv(rp)]
        args, kwargs = [], {}
        step = None
        if name == "increment":
            step = fresh("step", z3.IntSort())
            st.pc.append(step >= 0)
            kwargs = {"step": step, "force": fresh("force", z3.BoolSort())}
        elif name == "set":
            step = fresh("newi", z3.IntSort())
            st.pc.append(step >= 0)
            args = [step]
        elif name == "set_message":
            # the only form used by the library: set_message(message[, force=...]) -- i and total keep their defaults
            args = [StrV(note="new message")]
        elif name == "__exit__":
            args = [NONE, NONE, NONE]
        outs = _call(ex, qual, st, me, args=args, kwargs=kwargs)
        n = nr = 0
        for val, s1 in outs:
            o = s1.deref(me)
            if isinstance(val, Raised):
                nr += 1
                sess.check("exc-class", s1.pc, z3.BoolVal(val.exc.name == "ValueError"), val.exc.line, label=val.exc.name)
                # raises only if the step would pass the total
                if name in ("increment", "__exit__"):
                    sess.check("post", s1.pc, i + (step if step is not None else 1) > total, val.exc.line, label="raises-only-past-total")
                elif name == "set":
                    sess.check("post", s1.pc, step > total, val.exc.line, label="raises-only-past-total")
                else:
                    sess.check("exc-free", s1.pc, z3.BoolVal(False), val.exc.line, label="no-raise")
                continue
            n += 1
            sess.check("post", s1.pc, pinv(o.fields["_i"], o.fields["_total"]), 0, label="Inv(0<=_i<=_total)")
            sess.check("post", s1.pc, ginv(s1.globals["_RECENT_PROGRESS"]), 0, label="global-invariant")
            if name in ("increment", "__exit__"):
                sess.check("post", s1.pc, o.fields["_i"] == i + (step if step is not None else 1), 0, label="_i-advanced")
            sess.check("canary", s1.pc, z3.BoolVal(False), 0, label="ensures-False", expect_refuted=True)
        sess.check("cover", [], z3.BoolVal(n >= 1 and (nr >= 1 or name in ("set_message", "__enter__"))), 0, label="exits-reachable")
    return (f"{MOD}:{qual}", MOD, qual, run)


def target_registry():
    """register/unregister keep _CALLBACKS a map from fresh positive ints"""
    def run(sess: Session):
        from pyvc.values import DictV
        ex = _executor(sess, [])
        st = State()
        cb = DictV.symbolic("cbs", z3.IntSort(), z3.IntSort())
        counter = fresh("_COUNTER", z3.IntSort())
        cell = st.alloc(cb)
        st.globals["_CALLBACKS"] = cell
        st.globals["_COUNTER"] = counter
        k = fresh("k", z3.IntSort())
        inv = lambda d, c: z3.And(c >= 0, z3.ForAll([k], z3.Implies(d.has(k), z3.And(k >= 1, k <= c))))
        st.pc.append(inv(cb, counter))
        fn = find_def(MOD, "register")
        node = ast.parse("f()").body[0].value
        node.lineno = fn.lineno
        for val, s1 in ex.call_funcv(FuncV(fn, MOD, qualname="register"), [fresh("callback", z3.IntSort())], {}, None, st, node):
            if isinstance(val, Raised):
                sess.check("exc-free", s1.pc, z3.BoolVal(False), val.exc.line, label=val.exc.name)
                continue
            d1 = s1.deref(s1.globals["_CALLBACKS"])
            sess.check("post", s1.pc, inv(d1, s1.globals["_COUNTER"]), 0, label="callbacks-keyed-by-positive-ints")
            sess.check("post", s1.pc, z3.And(z3.Not(cb.has(val)), d1.has(val), val >= 1), 0, label="identifier-fresh")
            sess.check("frame", s1.pc, z3.ForAll([k], z3.Implies(cb.has(k), z3.And(d1.has(k), d1.get(k) == cb.get(k)))), 0, label="other-callbacks-kept")
    return (f"{MOD}:register", MOD, "register", run)


def targets():
    ts = [target_update_every()]
    for m in ("increment", "set", "set_message", "__exit__", "__enter__"):
        ts.append(target_method(m))
    ts.append(target_registry())
    return ts
