"""Result-assembly contracts for the DRT entry points (C08): what is handed to the result constructor is consistent with the data.

Decided on the real AST of the entry point by a small may-analysis, for every path through the function (`flip(flip(x))` is read as `x`: the Loewner method reverses the data and reverses it back):

  frequencies   every definition of the name passed as `frequencies=` is `data.get_frequencies()`;
  residuals     `residuals=` is `_calculate_residuals(Z_exp, Z_fit)` (arguments matched to the helper's real signature) where
                Z_fit is the very expression passed as `impedances=` and every definition of Z_exp is `data.get_impedances()`;
  chi-squared   `pseudo_chisqr=` is either that call of `_calculate_pseudo_chisqr` written in place, or a name all of whose
                definitions are that call AND which is never stale: on no path is the model impedance (or Z_exp) reassigned after
                the last computation of the statistic (states {fresh, maybe-stale} propagated through if / for / while / with /
                try, loops to a fixed point).

The helpers themselves (`_calculate_residuals`, `_calculate_pseudo_chisqr`) are proved in contracts/c08.py.  Where an entry point
takes a statistic from elsewhere (BHT: from the attempt that won; m(RQ)fit: the residuals of the inner circuit fit) there is no
obligation and the bounded layer is the only check; this is said in the evidence."""
from __future__ import annotations

import ast
from typing import Dict, List, Optional

import z3

from pyvc import core
from pyvc.core import Session

UTIL = "analysis/utility"


def _norm_call(call: ast.AST, helper: str) -> Optional[Dict[str, str]]:
    """{parameter: source} of a call of the helper, arguments matched to its real signature"""
    if not (isinstance(call, ast.Call) and isinstance(call.func, ast.Name) and call.func.id == helper):
        return None
    fn = core.find_def(UTIL, helper)
    params = [a.arg for a in fn.args.posonlyargs + fn.args.args]
    out = {}
    for i, a in enumerate(call.args):
        if i < len(params):
            out[params[i]] = ast.unparse(a)
    for k in call.keywords:
        if k.arg:
            out[k.arg] = ast.unparse(k.value)
    return out


def _defs(fn: ast.FunctionDef, name: str) -> List[ast.AST]:
    """right-hand sides of every binding of `name` in the function (None for bindings that are not plain assignments)"""
    out = []
    for n in ast.walk(fn):
        if isinstance(n, (ast.Assign, ast.AnnAssign)) and getattr(n, "value", None) is not None:
            targets = n.targets if isinstance(n, ast.Assign) else [n.target]
            for t in targets:
                if isinstance(t, ast.Name) and t.id == name:
                    out.append(n.value)
                elif any(isinstance(x, ast.Name) and x.id == name and isinstance(x.ctx, ast.Store) for x in ast.walk(t)):
                    out.append(None)
        elif isinstance(n, ast.AugAssign) and isinstance(n.target, ast.Name) and n.target.id == name:
            out.append(None)
        elif isinstance(n, (ast.For, ast.comprehension)) and any(isinstance(x, ast.Name) and x.id == name for x in ast.walk(n.target)):
            out.append(None)
        elif isinstance(n, ast.withitem) and n.optional_vars is not None and any(isinstance(x, ast.Name) and x.id == name for x in ast.walk(n.optional_vars)):
            out.append(None)
    return out


def _stale_at(fn: ast.FunctionDef, ctor_stmt: ast.stmt, stat: str, inputs: List[str], helper: str, want: Dict[str, str]) -> Optional[bool]:
    """may the statistic `stat` be stale (never computed, or an input reassigned after its last computation) when ctor_stmt is
    reached?  Abstract state: a set of (stale?, {flag: bool}) where flags are local names that are only ever assigned the
    constants True/False -- enough to follow `done = False ... if not done: <compute>` and `assert done`.  None if ctor_stmt
    is not reached."""
    flag_names = set()
    assigned: Dict[str, List[ast.AST]] = {}
    for n in ast.walk(fn):
        if isinstance(n, (ast.Assign, ast.AnnAssign)) and getattr(n, "value", None) is not None:
            for t in (n.targets if isinstance(n, ast.Assign) else [n.target]):
                if isinstance(t, ast.Name):
                    assigned.setdefault(t.id, []).append(n.value)
    for name, vals in assigned.items():
        if all(isinstance(v, ast.Constant) and isinstance(v.value, bool) for v in vals):
            flag_names.add(name)
    at_ctor: List[bool] = []

    def targets_of(s):
        if isinstance(s, ast.Assign):
            return s.targets
        if isinstance(s, (ast.AnnAssign, ast.AugAssign)):
            return [s.target]
        return []

    def assigns(s: ast.stmt, name: str) -> bool:
        return any(isinstance(x, ast.Name) and x.id == name and isinstance(x.ctx, ast.Store) for t in targets_of(s) for x in ast.walk(t))

    def truth(test: ast.AST, env) -> Optional[bool]:
        if isinstance(test, ast.Name) and test.id in flag_names and test.id in dict(env):
            return dict(env)[test.id]
        if isinstance(test, ast.UnaryOp) and isinstance(test.op, ast.Not):
            v = truth(test.operand, env)
            return None if v is None else not v
        if isinstance(test, ast.BoolOp):
            vs = [truth(v, env) for v in test.values]
            if isinstance(test.op, ast.And):
                return False if any(v is False for v in vs) else (True if all(v is True for v in vs) else None)
            return True if any(v is True for v in vs) else (False if all(v is False for v in vs) else None)
        return None

    # block(body, states) -> (normal exits, break exits, continue exits); a state is (stale, frozenset(flag items))
    def block(body, states):
        brk, cont = set(), set()
        for s in body:
            states, b, c = stmt(s, states)
            brk |= b
            cont |= c
            if not states:
                break
        return states, brk, cont

    def stmt(s, states):
        if not states:
            return states, set(), set()
        if s is ctor_stmt:
            at_ctor.extend(st for st, _ in states)
            return states, set(), set()
        if isinstance(s, (ast.Return, ast.Raise)):
            return set(), set(), set()
        if isinstance(s, ast.Break):
            return set(), set(states), set()
        if isinstance(s, ast.Continue):
            return set(), set(), set(states)
        if isinstance(s, ast.Assert):
            return {(st, env) for st, env in states if truth(s.test, env) is not False}, set(), set()
        if targets_of(s):
            out = set()
            for st, env in states:
                e = dict(env)
                for t in targets_of(s):
                    if isinstance(t, ast.Name) and t.id in flag_names and isinstance(getattr(s, "value", None), ast.Constant):
                        e[t.id] = s.value.value
                if assigns(s, stat):
                    st = not (isinstance(s, (ast.Assign, ast.AnnAssign)) and _norm_call(s.value, helper) == want)
                elif any(assigns(s, n) for n in inputs):
                    st = True
                out.add((st, frozenset(e.items())))
            return out, set(), set()
        if isinstance(s, ast.If):
            yes = {(st, env) for st, env in states if truth(s.test, env) is not False}
            no = {(st, env) for st, env in states if truth(s.test, env) is not True}
            a, b1, c1 = block(s.body, yes)
            b_, b2, c2 = block(s.orelse, no)
            return a | b_, b1 | b2, c1 | c2
        if isinstance(s, (ast.For, ast.While)):
            seen = set(states)
            frontier = set(states)
            exits = set(states) if not (isinstance(s, ast.While) and isinstance(s.test, ast.Constant) and s.test.value is True) else set()
            for _ in range(8):
                end, brk, cont = block(s.body, frontier)
                exits |= brk
                nxt = (end | cont) - seen
                exits |= end | cont if not (isinstance(s, ast.While) and isinstance(s.test, ast.Constant) and s.test.value is True) else set()
                if not nxt:
                    break
                seen |= nxt
                frontier = nxt
            out, b, c = block(s.orelse, exits)
            return out, b, c
        if isinstance(s, ast.With):
            return block(s.body, states)
        if isinstance(s, ast.Try):
            end, b, c = block(s.body, states)
            outs = set(end)
            for h in s.handlers:
                he, hb, hc = block(h.body, states | end)
                outs |= he
                b |= hb
                c |= hc
            oe, ob, oc = block(s.orelse, end)
            outs = (outs - end) | oe if s.orelse else outs
            fe, fb, fc = block(s.finalbody, outs) if s.finalbody else (outs, set(), set())
            return fe, b | ob | fb, c | oc | fc
        return states, set(), set()
    block(fn.body, {(True, frozenset())})
    if not at_ctor:
        return None
    return any(at_ctor)


def _fold(fn: ast.FunctionDef, name: str) -> Optional[str]:
    """source of the value of `name` when all its definitions are consecutive rebinding statements of ONE block
    (`x = g(d)`, `x = h(x)`, ...): the definitions folded into each other, with flip(flip(e)) == e"""
    holder = None
    for n in ast.walk(fn):
        body_lists = [getattr(n, f) for f in ("body", "orelse", "finalbody") if isinstance(getattr(n, f, None), list)]
        for body in body_lists:
            ds = [s for s in body if isinstance(s, (ast.Assign, ast.AnnAssign)) and getattr(s, "value", None) is not None
                  and any(isinstance(t, ast.Name) and t.id == name for t in (s.targets if isinstance(s, ast.Assign) else [s.target]))]
            if ds:
                if holder is not None:
                    return None
                holder = ds
    if holder is None or len(holder) != len(_defs(fn, name)):
        return None
    cur: Optional[ast.AST] = None

    class Sub(ast.NodeTransformer):
        def visit_Name(self, n):
            return cur if (n.id == name and cur is not None) else n
    import copy
    for s in holder:
        v = copy.deepcopy(s.value)
        if cur is None and any(isinstance(x, ast.Name) and x.id == name for x in ast.walk(v)):
            return None
        cur = Sub().visit(v)
    src = ast.unparse(cur)
    while src.startswith("flip(flip(") and src.endswith("))"):
        src = src[len("flip(flip("):-2]
    return src


def check_entry(sess: Session, module: str, fname: str, ctor: str, skip: Dict[str, str]):
    fn = core.find_def(module, fname)
    ctor_stmt, ctor_call = None, None
    for n in ast.walk(fn):
        if isinstance(n, (ast.Return, ast.Assign)) and isinstance(getattr(n, "value", None), ast.Call) and isinstance(n.value.func, ast.Name) and n.value.func.id == ctor:
            ctor_stmt, ctor_call = n, n.value
    tag = f"{fname}: "
    if ctor_call is None:
        sess.unsupported(f"{fname}: no `{ctor}(...)` result constructor found", fn.lineno)
        return
    kw = {k.arg: k.value for k in ctor_call.keywords if k.arg}
    data_param = fn.args.args[0].arg if fname != "calculate_drt_mrq_fit" else "data"

    def all_defs_are(name_node: ast.AST, want_src: str) -> bool:
        if ast.unparse(name_node) == want_src:
            return True
        if not isinstance(name_node, ast.Name):
            return False
        ds = _defs(fn, name_node.id)
        if bool(ds) and all(d is not None and ast.unparse(d) == want_src for d in ds):
            return True
        return _fold(fn, name_node.id) == want_src
    # frequencies
    f = kw.get("frequencies")
    sess.check("post", [], z3.BoolVal(f is not None and all_defs_are(f, f"{data_param}.get_frequencies()")), ctor_call.lineno, label=tag + f"frequencies = {data_param}.get_frequencies() (every definition of what is passed)")
    imp = kw.get("impedances")
    imp_src = ast.unparse(imp) if imp is not None else None
    # residuals
    if "residuals" in skip:
        sess.assumptions.append(f"{fname}: residuals {skip['residuals']} (no obligation; bounded layer only)")
    else:
        r = _norm_call(kw.get("residuals"), "_calculate_residuals")
        ok = r is not None and r.get("Z_fit") == imp_src and "Z_exp" in r
        if r is None:
            # computed some other way (a helper, a precomputed name): not judged here
            sess.unsupported(f"{fname}: residuals are not a direct call of _calculate_residuals ({ast.unparse(kw.get('residuals'))[:60] if kw.get('residuals') is not None else 'missing'})", ctor_call.lineno)
        else:
            sess.check("post", [], z3.BoolVal(bool(ok)), ctor_call.lineno, label=tag + "residuals = _calculate_residuals(Z_exp, <what is passed as impedances>)")
        if ok:
            zexp = ast.parse(r["Z_exp"], mode="eval").body
            sess.check("post", [], z3.BoolVal(all_defs_are(zexp, f"{data_param}.get_impedances()")), ctor_call.lineno, label=tag + f"the Z_exp of the residuals is {data_param}.get_impedances() (every definition)")
    # chi-squared
    if "pseudo_chisqr" in skip:
        sess.assumptions.append(f"{fname}: pseudo_chisqr {skip['pseudo_chisqr']} (no obligation; bounded layer only)")
    else:
        c = kw.get("pseudo_chisqr")
        inline = _norm_call(c, "_calculate_pseudo_chisqr")
        if inline is not None:
            ok = inline.get("Z_fit") == imp_src and "Z_exp" in inline
            sess.check("post", [], z3.BoolVal(bool(ok)), ctor_call.lineno, label=tag + "pseudo_chisqr = _calculate_pseudo_chisqr(Z_exp, <what is passed as impedances>)")
            if ok:
                zexp = ast.parse(inline["Z_exp"], mode="eval").body
                sess.check("post", [], z3.BoolVal(all_defs_are(zexp, f"{data_param}.get_impedances()")), ctor_call.lineno, label=tag + f"the Z_exp of the statistic is {data_param}.get_impedances() (every definition)")
        elif isinstance(c, ast.Name) and isinstance(imp, ast.Name):
            ds = _defs(fn, c.id)
            forms = [_norm_call(d, "_calculate_pseudo_chisqr") if d is not None else None for d in ds]
            ok = bool(forms) and all(fm is not None and fm.get("Z_fit") == imp.id and "Z_exp" in fm for fm in forms) and len({fm["Z_exp"] for fm in forms if fm}) == 1
            if not forms or any(fm is None for fm in forms):
                sess.unsupported(f"{fname}: a definition of {c.id} is not a direct call of _calculate_pseudo_chisqr", ctor_call.lineno)
                ok = False
            else:
                sess.check("post", [], z3.BoolVal(ok), ctor_call.lineno, label=tag + "every definition of the statistic is _calculate_pseudo_chisqr(Z_exp, <the name passed as impedances>)")
            if ok:
                zexp_src = forms[0]["Z_exp"]
                zexp = ast.parse(zexp_src, mode="eval").body
                sess.check("post", [], z3.BoolVal(all_defs_are(zexp, f"{data_param}.get_impedances()")), ctor_call.lineno, label=tag + f"the Z_exp of the statistic is {data_param}.get_impedances() (every definition)")
                inputs = [imp.id] + ([zexp.id] if isinstance(zexp, ast.Name) else [])
                stale = _stale_at(fn, ctor_stmt, c.id, inputs, "_calculate_pseudo_chisqr", forms[0])
                sess.check("post", [], z3.BoolVal(stale is False), ctor_call.lineno, label=tag + "the statistic is never stale: no path reassigns the model impedance after the last computation of pseudo_chisqr")
        else:
            sess.unsupported(f"{fname}: pseudo_chisqr is neither a direct call of _calculate_pseudo_chisqr nor a name defined by one", ctor_call.lineno)


DRT = [
    ("analysis/drt/tr_nnls", "calculate_drt_tr_nnls", "TRNNLSResult", {}),
    ("analysis/drt/tr_rbf", "calculate_drt_tr_rbf", "TRRBFResult", {}),
    ("analysis/drt/lm", "calculate_drt_lm", "LMResult", {}),
    ("analysis/drt/bht", "calculate_drt_bht", "BHTResult", {"pseudo_chisqr": "is the statistic of the winning attempt, computed in _hilbert_transform_process"}),
    ("analysis/drt/mrq_fit", "calculate_drt_mrq_fit", "MRQFitResult", {"residuals": "are those of the inner circuit fit (fit.residuals)"}),
]


def target_drt_assembly():
    def run(sess: Session):
        for module, fname, ctor, skip in DRT:
            check_entry(sess, module, fname, ctor, skip)
    return ("analysis/drt/__init__:result assembly of the DRT entry points", "analysis/drt/lm", "calculate_drt_lm", run)
