"""C11 proof layer: Z-HIT reconstruction arithmetic (real `_reconstruct` under an assumed quadrature contract), the offset
residual (zero weight => no influence; scaling), the clamp of `_generate_weights`.  Interpolators, smoothers, scipy.quad and
lmfit are outside the verifier: bounded layer only."""
from __future__ import annotations

import ast

import z3

from pyvc import core
from pyvc import overload as O
from pyvc.core import Session
from pyvc.overload import SQ, sym
from . import lemmas as L

REC = "analysis/zhit/reconstruction"
OFF = "analysis/zhit/offset"
WGT = "analysis/zhit/weights"


class _Ctx:
    def __enter__(self):
        return self

    def __exit__(self, *a):
        return False


def target_reconstruct():
    qual = "_reconstruct"

    def run(sess: Session):
        for admittance in (False, True):
            ctx = L.fresh_ctx([])
            P = ctx.P
            calls = []
            ls, l0 = sym("ln_w_s"), sym("ln_w_0")
            I, D = sym("Integral"), sym("Derivative")

            def quad(func, a, b, epsabs=None, limit=None):
                calls.append((func, a, b))
                return (I if (a is ls and b is l0) else SQ.of(0) if a is b else sym("I_other"), 0.0)
            ns = L.load(REC, [qual], {"quad": quad, "catch_warnings": _Ctx, "filterwarnings": lambda *a, **k: None, "IntegrationWarning": Warning,
                                         "isnan": lambda x: False, "array": lambda x: x, "enumerate": enumerate})
            interp = object()
            res, sm, ip = ns[qual](([ls, l0], interp, lambda x: D, "smoothing", "interpolation", admittance))
            sess.check("post", [], z3.BoolVal(len(res) == 2 and sm == "smoothing" and ip == "interpolation"), 0, label=f"[Y={admittance}]one value per frequency, labels passed through")
            pi = ns["pi"]
            # postcondition of the property: ln|X|(w) = 2/pi * int_{ln w_s}^{ln w} phi d ln w' + gamma * dphi/dlnw, gamma = -pi/6, both representations
            want = 2 / pi * I + (-pi / 6) * D
            sess.check_qeq("post", P, res[1], want, 0, label=f"[Y={admittance}]ln|X| == 2/pi*Integral + (-pi/6)*Derivative")
            sess.check("post", [], z3.BoolVal(all(c[0] is interp for c in calls) and calls[-1][1] is ls and calls[-1][2] is l0), 0, label=f"[Y={admittance}]quadrature of the interpolated phase from ln(w_start) to ln(w)")
            # constant phase phi: Integral = phi*(l0-ls), Derivative = 0  =>  ln|X| = 2 phi/pi (ln w - ln w_s)
            phi = sym("phi")
            ctx.P.hyps += [z3.Real("Integral") == z3.Real("phi") * (z3.Real("ln_w_0") - z3.Real("ln_w_s")), z3.Real("Derivative") == 0]
            sess.check("lemma", P.hyps, P.eq_goal(res[1], 2 * phi / pi * (l0 - ls)), 0, label=f"[Y={admittance}]constant phase: ln|X| == (2 phi/pi)(ln w - ln w_s)")
            sess.check("canary", P.hyps, P.eq_goal(res[1], pi / 2 * I), 0, label="pi/2*I", expect_refuted=True)
        sess.assumptions.append("scipy.integrate.quad returns the integral of the interpolator (exact for the lemma); derivator is its derivative")
    return (f"{REC}:{qual}", REC, qual, run)


def target_offset():
    qual = "_offset_residual"

    def run(sess: Session):
        ctx = L.fresh_ctx([])
        P = ctx.P

        class Params:
            def __init__(self, off):
                self.off = off

            def valuesdict(self):
                return {"offset": self.off}
        ns = L.load(OFF, [qual])
        rec, off, lm, w, lc = sym("rec"), sym("offset"), sym("ln_mod"), sym("w"), sym("ln_c")
        r = ns[qual](Params(off), rec, lm, w)
        sess.check_qeq("post", P, r, w * (rec + off - lm) * (rec + off - lm), 0, label="residual == w*((rec+offset)-ln|X|)^2")
        r0 = ns[qual](Params(off), rec, lm, SQ.of(0))
        sess.check_qeq("post", P, r0, SQ.of(0), 0, label="zero weight => zero residual for every offset and every data value")
        r2 = ns[qual](Params(off + lc), rec, lm + lc, w)
        sess.check_qeq("lemma", P, r2, r, 0, label="residual(offset+ln c, ln|cX|) == residual(offset, ln|X|)  (offset shifts by ln c under scaling)")
        sess.assumptions.append("lmfit.minimize returns the minimiser of sum(_offset_residual) (unique: weighted mean)")
    return (f"{OFF}:{qual}", OFF, qual, run)


def target_adjust_offset():
    """_adjust_offset: X_fit = rect(exp(ln_modulus + offset), phase), chi from the same X_fit (EUF glue)"""
    qual = "_adjust_offset"

    def run(sess: Session):
        from . import dataflow as DF
        for adm in (False, True):
            ns = {"_calculate_modulus_offset": DF.opaque("offset"), "rect": DF.opaque("rect"), "exp": DF.opaque("exp"),
                  "_calculate_pseudo_chisqr": DF.opaque("_calculate_pseudo_chisqr")}
            O.load(OFF, [qual], ns)
            lnm, ph, lne, w, X = (DF.T.var(n) for n in ("ln_modulus", "phase", "ln_modulus_exp", "weights", "X_exp"))
            chi, Xfit, s, i, win = ns[qual]((lnm, ph, lne, w, X, adm, "s", "i", "w"))
            off = DF.opaque("offset")(lnm, lne, w)
            DF.eq_check(sess, f"[Y={adm}]X_fit == rect(exp(ln_modulus+offset), phase)", Xfit, DF.opaque("rect")(DF.opaque("exp")(lnm + off), ph))
            k = -1 if adm else 1
            DF.eq_check(sess, f"[Y={adm}]chi == chisqr(X_exp**s, X_fit**s)", chi, DF.opaque("_calculate_pseudo_chisqr")(Z_exp=X ** k, Z_fit=Xfit ** k))
            sess.check("post", [], z3.BoolVal((s, i, win) == ("s", "i", "w")), 0, label=f"[Y={adm}]labels passed through")
    return (f"{OFF}:{qual}", OFF, qual, run)


def targets():
    from . import purity
    pure = purity.target([
        (WGT, ["_generate_weights", "_generate_window_options"], ()),
        (OFF, ["_offset_residual", "_calculate_modulus_offset", "_adjust_offset", "_adjust_modulus_offset"], ()),
        (REC, ["_reconstruct", "_reconstruct_modulus_data"], ()),
        ("analysis/zhit/smoothing/__init__", ["_smooth_phase", "_generate_smoothing_options"], ()),
        ("analysis/zhit/interpolation", ["_interpolate_phase", "_generate_interpolation_options"], ()),
    ], title="stage functions are pure (no module-level state)")
    return [target_reconstruct(), target_offset(), target_adjust_offset(), pure]


def target_offset_weights():
    """_calculate_modulus_offset: the offset is fitted by minimising _offset_residual (weights * squared error, proved above) with
    EXACTLY the weights it was given -- on every path; with that, a point of weight zero contributes nothing to the offset.  The
    function refuses an all-zero or a negative weight array and a shape mismatch, nothing else."""
    from . import dataflow as DF
    from .dataflow import T, opaque
    qual = "_calculate_modulus_offset"

    def run(sess: Session):
        n = 0

        def once():
            calls = []

            class Parameters:
                def add(self, *a, **k):
                    pass

            class Fit:
                params = type("P", (), {"valuesdict": lambda s: {"offset": T.var("offset*")}})()

            def minimize(fcn, params, args=(), **kw):
                calls.append((fcn, args, kw))
                return Fit()
            ns = {"where": opaque("where"), "Parameters": Parameters, "minimize": minimize, "MinimizerResult": None, "len": lambda x: T.var("len"),
                  "ZHITError": type("ZHITError", (Exception,), {}), "_offset_residual": "THE-RESIDUAL"}
            O.load(OFF, [qual], ns)
            fit_, exp_, w = T.var("ln_modulus_fit"), T.var("ln_modulus_exp"), T.var("weights")
            err, out = None, None
            try:
                out = ns[qual](fit_, exp_, w)
            except ns["ZHITError"] as ex:
                err = ex
            return calls, out, err, (fit_, exp_, w)
        for log, (calls, out, err, (fit_, exp_, w)), facts in DF.explore(once):
            n += 1
            tag = "[" + ",".join(f"{a}={'T' if v else 'F'}" for a, v in log) + "]"
            if err is not None:
                sess.check("post", [], z3.BoolVal(not calls), 0, label=f"a refusal happens before anything is fitted{tag}")
                continue
            ok = len(calls) == 1 and calls[0][0] == "THE-RESIDUAL" and len(calls[0][1]) == 3
            sess.check("post", [], z3.BoolVal(ok), 0, label=f"one minimisation of _offset_residual with (reconstruction, ln|Z|, weights){tag}")
            if ok:
                DF.eq_check(sess, f"the weights of the minimisation are the weights that were passed in, unchanged{tag}", calls[0][1][2], w)
                DF.eq_check(sess, f"the reconstruction handed to the minimisation is the one passed in{tag}", calls[0][1][0], fit_)
                DF.eq_check(sess, f"the experimental ln|Z| handed to the minimisation is the one passed in{tag}", calls[0][1][1], exp_)
        sess.check("cover", [], z3.BoolVal(n >= 4), 0, label=f"paths={n}")
    return (f"{OFF}:{qual}", OFF, qual, run)


_targets_c11_core = targets


def targets():      # noqa: F811
    return _targets_c11_core() + [target_offset_weights()]
