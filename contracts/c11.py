"""C11 proof layer: Z-HIT reconstruction arithmetic (real `_reconstruct` under an assumed quadrature contract), the offset
residual (zero weight => no influence; scaling), the clamp of `_generate_weights`.  Interpolators, smoothers, scipy.quad and
lmfit are outside the verifier: bounded layer only."""
from __future__ import annotations

import ast

import z3

from pyvc import core
from pyvc import overload as O
from pyvc.core import Session
from pyvc.overload import SQ, sym
from . import lemmas as L

REC = "analysis/zhit/reconstruction"
OFF = "analysis/zhit/offset"
WGT = "analysis/zhit/weights"


class _Ctx:
    def __enter__(self):
        return self

    def __exit__(self, *a):
        return False


def target_reconstruct():
    qual = "_reconstruct"

    def run(sess: Session):
        for admittance in (False, True):
            ctx = L.fresh_ctx([])
            P = ctx.P
            calls = []
            ls, l0 = sym("ln_w_s"), sym("ln_w_0")
            I, D = sym("Integral"), sym("Derivative")

            def quad(func, a, b, epsabs=None, limit=None):
                calls.append((func, a, b))
                return (I if (a is ls and b is l0) else SQ.of(0) if a is b else sym("I_other"), 0.0)
            ns = L.load(REC, [qual], {"quad": quad, "catch_warnings": _Ctx, "filterwarnings": lambda *a, **k: None, "IntegrationWarning": Warning,
                                         "isnan": lambda x: False, "array": lambda x: x, "enumerate": enumerate})
            interp = object()
            res, sm, ip = ns[qual](([ls, l0], interp, lambda x: D, "smoothing", "interpolation", admittance))
            sess.check("post", [], z3.BoolVal(len(res) == 2 and sm == "smoothing" and ip == "interpolation"), 0, label=f"[Y={admittance}]one value per frequency, labels passed through")
            pi = ns["pi"]
            # postcondition of the property: ln|X|(w) = 2/pi * int_{ln w_s}^{ln w} phi d ln w' + gamma * dphi/dlnw, gamma = -pi/6, both representations
            want = 2 / pi * I + (-pi / 6) * D
            sess.check_qeq("post", P, res[1], want, 0, label=f"[Y={admittance}]ln|X| == 2/pi*Integral + (-pi/6)*Derivative")
            sess.check("post", [], z3.BoolVal(all(c[0] is interp for c in calls) and calls[-1][1] is ls and calls[-1][2] is l0), 0, label=f"[Y={admittance}]quadrature of the interpolated phase from ln(w_start) to ln(w)")
            # constant phase phi: Integral = phi*(l0-ls), Derivative = 0  =>  ln|X| = 2 phi/pi (ln w - ln w_s)
            phi = sym("phi")
            ctx.P.hyps += [z3.Real("Integral") == z3.Real("phi") * (z3.Real("ln_w_0") - z3.Real("ln_w_s")), z3.Real("Derivative") == 0]
            sess.check("lemma", P.hyps, P.eq_goal(res[1], 2 * phi / pi * (l0 - ls)), 0, label=f"[Y={admittance}]constant phase: ln|X| == (2 phi/pi)(ln w - ln w_s)")
            sess.check("canary", P.hyps, P.eq_goal(res[1], pi / 2 * I), 0, label="pi/2*I", expect_refuted=True)
        sess.assumptions.append("scipy.integrate.quad returns the integral of the interpolator (exact for the lemma); derivator is its derivative")
    return (f"{REC}:{qual}", REC, qual, run)


def target_offset():
    qual = "_offset_residual"

    def run(sess: Session):
        ctx = L.fresh_ctx([])
        P = ctx.P

        class Params:
            def __init__(self, off):
                self.off = off

            def valuesdict(self):
                return {"offset": self.off}
        ns = L.load(OFF, [qual])
        rec, off, lm, w, lc = sym("rec"), sym("offset"), sym("ln_mod"), sym("w"), sym("ln_c")
        r = ns[qual](Params(off), rec, lm, w)
        sess.check_qeq("post", P, r, w * (rec + off - lm) * (rec + off - lm), 0, label="residual == w*((rec+offset)-ln|X|)^2")
        r0 = ns[qual](Params(off), rec, lm, SQ.of(0))
        sess.check_qeq("post", P, r0, SQ.of(0), 0, label="zero weight => zero residual for every offset and every data value")
        r2 = ns[qual](Params(off + lc), rec, lm + lc, w)
        sess.check_qeq("lemma", P, r2, r, 0, label="residual(offset+ln c, ln|cX|) == residual(offset, ln|X|)  (offset shifts by ln c under scaling)")
        sess.assumptions.append("lmfit.minimize returns the minimiser of sum(_offset_residual) (unique: weighted mean)")
    return (f"{OFF}:{qual}", OFF, qual, run)


def target_adjust_offset():
    """_adjust_offset: X_fit = rect(exp(ln_modulus + offset), phase), chi from the same X_fit (EUF glue)"""
    qual = "_adjust_offset"

    def run(sess: Session):
        from . import dataflow as DF
        for adm in (False, True):
            ns = {"_calculate_modulus_offset": DF.opaque("offset"), "rect": DF.opaque("rect"), "exp": DF.opaque("exp"),
                  "_calculate_pseudo_chisqr": DF.opaque("_calculate_pseudo_chisqr")}
            O.load(OFF, [qual], ns)
            lnm, ph, lne, w, X = (DF.T.var(n) for n in ("ln_modulus", "phase", "ln_modulus_exp", "weights", "X_exp"))
            chi, Xfit, s, i, win = ns[qual]((lnm, ph, lne, w, X, adm, "s", "i", "w"))
            off = DF.opaque("offset")(lnm, lne, w)
            DF.eq_check(sess, f"[Y={adm}]X_fit == rect(exp(ln_modulus+offset), phase)", Xfit, DF.opaque("rect")(DF.opaque("exp")(lnm + off), ph))
            k = -1 if adm else 1
            DF.eq_check(sess, f"[Y={adm}]chi == chisqr(X_exp**s, X_fit**s)", chi, DF.opaque("_calculate_pseudo_chisqr")(Z_exp=X ** k, Z_fit=Xfit ** k))
            sess.check("post", [], z3.BoolVal((s, i, win) == ("s", "i", "w")), 0, label=f"[Y={adm}]labels passed through")
    return (f"{OFF}:{qual}", OFF, qual, run)


def targets():
    from . import purity
    pure = purity.target([
        (WGT, ["_generate_weights", "_generate_window_options"], ()),
        (OFF, ["_offset_residual", "_calculate_modulus_offset", "_adjust_offset", "_adjust_modulus_offset"], ()),
        (REC, ["_reconstruct", "_reconstruct_modulus_data"], ()),
        ("analysis/zhit/smoothing/__init__", ["_smooth_phase", "_generate_smoothing_options"], ()),
        ("analysis/zhit/interpolation", ["_interpolate_phase", "_generate_interpolation_options"], ()),
    ], title="stage functions are pure (no module-level state)")
    return [target_reconstruct(), target_offset(), target_adjust_offset(), pure]


def target_offset_weights():
    """_calculate_modulus_offset: the offset is fitted by minimising _offset_residual (weights * squared error, proved above) with
    EXACTLY the weights it was given -- on every path; with that, a point of weight zero contributes nothing to the offset.  The
    function refuses an all-zero or a negative weight array and a shape mismatch, nothing else."""
    from . import dataflow as DF
    from .dataflow import T, opaque
    qual = "_calculate_modulus_offset"

    def run(sess: Session):
        n = 0

        def once():
            calls = []

            class Parameters:
                def add(self, *a, **k):
                    pass

            class Fit:
                params = type("P", (), {"valuesdict": lambda s: {"offset": T.var("offset*")}})()

            def minimize(fcn, params, args=(), **kw):
                calls.append((fcn, args, kw))
                return Fit()
            ns = {"where": opaque("where"), "Parameters": Parameters, "minimize": minimize, "MinimizerResult": None, "len": lambda x: T.var("len"),
                  "ZHITError": type("ZHITError", (Exception,), {}), "_offset_residual": "THE-RESIDUAL"}
            O.load(OFF, [qual], ns)
            fit_, exp_, w = T.var("ln_modulus_fit"), T.var("ln_modulus_exp"), T.var("weights")
            err, out = None, None
            try:
                out = ns[qual](fit_, exp_, w)
            except ns["ZHITError"] as ex:
                err = ex
            return calls, out, err, (fit_, exp_, w)
        for log, (calls, out, err, (fit_, exp_, w)), facts in DF.explore(once):
            n += 1
            tag = "[" + ",".join(f"{a}={'T' if v else 'F'}" for a, v in log) + "]"
            if err is not None:
                sess.check("post", [], z3.BoolVal(not calls), 0, label=f"a refusal happens before anything is fitted{tag}")
                continue
            ok = len(calls) == 1 and calls[0][0] == "THE-RESIDUAL" and len(calls[0][1]) == 3
            sess.check("post", [], z3.BoolVal(ok), 0, label=f"one minimisation of _offset_residual with (reconstruction, ln|Z|, weights){tag}")
            if ok:
                DF.eq_check(sess, f"the weights of the minimisation are the weights that were passed in, unchanged{tag}", calls[0][1][2], w)
                DF.eq_check(sess, f"the reconstruction handed to the minimisation is the one passed in{tag}", calls[0][1][0], fit_)
                DF.eq_check(sess, f"the experimental ln|Z| handed to the minimisation is the one passed in{tag}", calls[0][1][1], exp_)
        sess.check("cover", [], z3.BoolVal(n >= 4), 0, label=f"paths={n}")
    return (f"{OFF}:{qual}", OFF, qual, run)


_targets_c11_core = targets


def targets():      # noqa: F811
    return _targets_c11_core() + [target_offset_weights()]


# ------------------------------------------------------------------------------------------------ the smoothing / interpolation stages
_targets_c11_weights = targets


def target_stage_dispatch():
    """`_smooth_phase` and `_interpolate_phase`: each documented method name is handed to exactly the library routine it names, with
    exactly the data and options it is given and nothing else -- in particular the interpolants are built from (ln omega, phase)
    alone, with the library's own end conditions (an end condition such as `bc_type="clamped"` bends the phase where the spectrum
    is cut off, and the integral of the phase is what becomes the modulus); 'none' returns the phase as it is; an unknown name is
    refused with ZHITError.  `_generate_smoothing_options` / `_generate_interpolation_options`: 'auto' tries every documented
    method, each (interpolation, smoothing) pair is built from THAT smoothing's phase, and the simulated phase is the interpolant
    evaluated at the measured ln omega.  The real functions run on EUF terms with recording library stand-ins."""
    from . import dataflow as DF
    from .dataflow import T

    def run(sess: Session):
        SM, IN = "analysis/zhit/smoothing/__init__", "analysis/zhit/interpolation"
        calls = []

        # an option passed with the library's own default value changes nothing (stating a default is a harmless edit)
        LIB_DEFAULTS = {"CubicSpline": {"bc_type": "not-a-knot", "axis": 0, "extrapolate": None}, "PchipInterpolator": {"axis": 0, "extrapolate": None},
                        "Akima1DInterpolator": {"axis": 0, "extrapolate": None}, "savgol_filter": {"deriv": 0, "delta": 1.0, "axis": -1, "mode": "interp", "cval": 0.0},
                        "lowess": {"delta": 0.0, "is_sorted": False, "missing": "drop", "xvals": None}}

        def lib(name):
            def f(*a, **k):
                k = {q: v for q, v in k.items() if not (q in LIB_DEFAULTS.get(name, {}) and not isinstance(v, T) and v == LIB_DEFAULTS[name][q])}
                calls.append((name, a, k))
                return T.var(f"{name}.result")
            return f

        class ZHITError(Exception):
            pass
        phase, lnw, N, P, IT = T.var("phase"), T.var("ln_omega"), T.var("num_points"), T.var("polynomial_order"), T.var("num_iterations")
        ns = {"savgol_filter": lib("savgol_filter"), "lowess": lib("lowess"), "whithend": lib("whithend"), "modsinc": lib("modsinc"), "ZHITError": ZHITError,
              "len": lambda x: DF.opaque("len")(x)}
        O.load(SM, ["_smooth_phase"], ns)
        sm = ns["_smooth_phase"]
        flen = N / DF.opaque("len")(phase)
        want = {
            "savgol": ("savgol_filter", (phase,), {"window_length": N, "polyorder": P}),
            "lowess": ("lowess", (phase, lnw), {"return_sorted": False, "frac": flen, "it": IT}),
            "whithend": ("whithend", (phase,), {"degree": P, "m": N}),
            "modsinc": ("modsinc", (phase,), {"degree": P, "m": N, "is_MS1": False}),
        }

        def same(a, b):
            s = z3.Solver()
            s.add(z3.Not(DF.tv(a) == DF.tv(b)))
            return s.check() == z3.unsat
        del calls[:]
        out = sm("none", N, P, IT, lnw, phase)
        sess.check("post", [], z3.BoolVal(out is phase and not calls), 0, label="_smooth_phase['none'] returns the phase as it is")
        for name, (fn, a, k) in want.items():
            del calls[:]
            out = sm(name, N, P, IT, lnw, phase)
            ok = len(calls) == 1 and calls[0][0] == fn and len(calls[0][1]) == len(a) and all(same(x, y) for x, y in zip(calls[0][1], a)) \
                and sorted(calls[0][2]) == sorted(k) and all(same(calls[0][2][q], k[q]) for q in k)
            ob = sess.check("post", [], z3.BoolVal(ok), 0, label=f"_smooth_phase[{name!r}] calls {fn} with exactly the data and options it is given")
            if not ok:
                ob.detail = f"calls: {[(c[0], len(c[1]), sorted(c[2])) for c in calls]}"
            sess.check("post", [], z3.BoolVal(len(calls) == 1 and isinstance(out, T) and str(out.e) == f"{fn}.result"), 0, label=f"_smooth_phase[{name!r}] returns what {fn} returns")
        try:
            sm("spline", N, P, IT, lnw, phase)
            refused = False
        except ZHITError:
            refused = True
        sess.check("post", [], z3.BoolVal(refused), 0, label="_smooth_phase refuses an unknown method with ZHITError")

        # interpolation
        flip = DF.opaque("flip")
        import functools
        ns = {"Akima1DInterpolator": lib("Akima1DInterpolator"), "CubicSpline": lib("CubicSpline"), "PchipInterpolator": lib("PchipInterpolator"), "flip": flip, "ZHITError": ZHITError,
              "partial": functools.partial, "functools": functools}
        O.load(IN, ["_interpolate_phase"], ns)
        ip = ns["_interpolate_phase"]
        x, y = flip(lnw), flip(phase)
        wanti = {"akima": ("Akima1DInterpolator", {"method": "akima"}), "makima": ("Akima1DInterpolator", {"method": "makima"}), "cubic": ("CubicSpline", {}), "pchip": ("PchipInterpolator", {})}
        for name, (fn, k) in wanti.items():
            del calls[:]
            out = ip(name, lnw, phase)
            ok = len(calls) == 1 and calls[0][0] == fn and len(calls[0][1]) == 2 and same(calls[0][1][0], x) and same(calls[0][1][1], y) and calls[0][2] == k
            ob = sess.check("post", [], z3.BoolVal(ok), 0, label=f"_interpolate_phase[{name!r}] builds {fn} from (ln omega, phase), both reversed to ascending order, and no other option")
            if not ok:
                ob.detail = f"calls: {[(c[0], [str(DF.tv(v))[:40] for v in c[1]], c[2]) for c in calls]}"
        try:
            ip("linear", lnw, phase)
            refused = False
        except ZHITError:
            refused = True
        sess.check("post", [], z3.BoolVal(refused), 0, label="_interpolate_phase refuses an unknown method with ZHITError")

        # the option generators
        class Prog:
            def __init__(self):
                self.n = 0

            def set_message(self, m):
                pass

            def increment(self):
                self.n += 1
        made = []

        def smooth_stub(s, n, p, it, w, ph):
            made.append((s, n, p, it, w, ph))
            return T.var(f"smoothed[{s}]")
        ns = {"_smooth_phase": smooth_stub}
        O.load(SM, ["_generate_smoothing_options"], ns)
        for choice, names in (("auto", ["none", "lowess", "modsinc", "savgol", "whithend"]), ("savgol", ["savgol"])):
            del made[:]
            prog = Prog()
            out = ns["_generate_smoothing_options"](choice, N, P, IT, lnw, phase, prog)
            ok = sorted(out) == sorted(names) and all(str(out[s].e) == f"smoothed[{s}]" for s in names) and \
                all(m[1] is N and m[2] is P and m[3] is IT and m[4] is lnw and m[5] is phase for m in made) and sorted(m[0] for m in made) == sorted(names)
            sess.check("post", [], z3.BoolVal(ok), 0, label=f"_generate_smoothing_options[{choice}]: one entry per method, each the smoothed MEASURED phase with the given options")
        built = []

        def interp_stub(i, w, ph):
            built.append((i, w, ph))
            return lambda v, i=i, ph=ph: ("interp", i, str(DF.tv(ph)), v)
        ns = {"_interpolate_phase": interp_stub, "array": lambda v: ("array", v), "map": lambda f, xs: ("map", f, xs), "list": lambda m: m}
        O.load(IN, ["_generate_interpolation_options"], ns)
        smoothed = {"none": T.var("p_none"), "savgol": T.var("p_savgol")}
        for choice, names in (("auto", ["akima", "makima", "cubic", "pchip"]), ("pchip", ["pchip"])):
            del built[:]
            prog = Prog()
            opts, sim = ns["_generate_interpolation_options"](choice, lnw, dict(smoothed), prog)
            ok = sorted(opts) == sorted(names) and sorted(sim) == sorted(names)
            for i in names:
                for s, ph in smoothed.items():
                    got = opts.get(i, {}).get(s)
                    ok = ok and callable(got) and got("v") == ("interp", i, str(DF.tv(ph)), "v")
                    sv = sim.get(i, {}).get(s)
                    ok = ok and isinstance(sv, tuple) and sv[0] == "array" and sv[1][0] == "map" and sv[1][1] is got and sv[1][2] is lnw
            ok = ok and all(b[1] is lnw for b in built) and prog.n == len(names) * len(smoothed)
            sess.check("post", [], z3.BoolVal(ok), 0, label=f"_generate_interpolation_options[{choice}]: every (interpolation, smoothing) pair is built from that smoothing's phase and evaluated at the measured ln omega")
    return ("analysis/zhit/interpolation:smoothing and interpolation stages hand the data to the named routine unchanged", "analysis/zhit/interpolation", "_interpolate_phase", run)


def targets():      # noqa: F811
    return _targets_c11_weights() + [target_stage_dispatch()]


# ------------------------------------------------------------------------------------------------ Whittaker-Henderson: the penalty matrix
_targets_c11_stages = targets


def target_whithend_matrix():
    """`_make_D_prime_D_matrix(order, size)` for every order 1..5 and EVERY size >= order: band d of the result, position p, is
    (D'D)[p][p+d] where D is the (size-order) x size matrix of the order-th finite difference (row k holds the binomial
    coefficients with alternating sign at columns k..k+order) -- i.e. sum over k of D[k][p] D[k][p+d], including the truncated
    sums near both ends and the mirrored second half the routine fills by symmetry; band d has size-d entries; orders outside
    1..5 and sizes below the order are refused.  `_times_lambda_plus_identity(b, lambda)`: band 0 becomes 1 + lambda b, the other
    bands lambda b, entry by entry.  Real functions run by CPython on a symbolic size (pyvc.hoare): the loop over positions is cut
    at an invariant, the coefficient loop (at most order+1 trips) is executed."""
    import math
    from pyvc import hoare as H
    WH = "analysis/zhit/smoothing/whittaker_henderson"

    def run(sess: Session):
        I = z3.IntSort()
        space = H.NodeSpace([])
        ns = H.base_namespace(space)
        specs = H.LoopSpecs()
        vc = H.VC(specs, space)
        fn_ast = core.find_def(WH, "_make_D_prime_D_matrix")
        real = H.build_function(fn_ast, ns, vc, bounded_whiles={("_make_D_prime_D_matrix", 1)})
        st = {}
        counts = {"paths": 0}

        def coeff(order, t):
            return (-1) ** (order - t) * math.comb(order, t) if 0 <= t <= order else 0

        def defval(order, d, p, size):
            """(D'D)[p][p+d] = sum_k D[k][p] D[k][p+d]; with t = p - k only t in 0..order can contribute"""
            terms = []
            for t in range(0, order + 1):
                cc = coeff(order, t) * coeff(order, t + d)
                if cc:
                    k = p - t
                    terms.append(z3.If(z3.And(k >= 0, k < size - order), z3.RealVal(cc), z3.RealVal(0)))
            return z3.Sum(terms) if terms else z3.RealVal(0)

        @specs.add("_make_D_prime_D_matrix", 3)
        def _(env):
            out, d, order, size, p = env.loc["out"], env.loc["d"], st["order"], st["size"], st["p"]
            res = []
            for dd, lst in enumerate(out):
                if dd == d:
                    length = size - d
                    filled = z3.Or(p < env.i, p > length - 1 - env.i)
                    res.append((f"band {d}: the positions filled so far (both ends inwards) hold (D'D)[p][p+{d}]",
                                z3.Implies(z3.And(0 <= p, p < length, filled), z3.Select(lst.arr, p) == defval(order, d, p, size))))
                    res.append((f"band {d} keeps its length", lst.len == length))
                else:
                    l0, a0 = env.entry[lst.name]
                    res.append((f"band {dd} is not touched while band {d} is filled", z3.And(lst.len == l0, lst.arr == a0)))
            return res
        no_raise = None
        from .diagrams import make_no_raise
        no_raise = make_no_raise(WH)
        for order in range(1, 6):
            n0 = 0

            def go(c, order=order):
                counts["paths"] += 1
                size, p = z3.Int("size"), z3.Int("p")
                c.assume(size >= order)
                st.update(order=order, size=size, p=p)
                ok, out = no_raise("_make_D_prime_D_matrix", lambda: real(order, H.Rv(size)))
                if not ok:
                    return
                c.canary(f"_make_D_prime_D_matrix[order={order}], at return")
                shape = isinstance(out, list) and len(out) == order + 1 and all(isinstance(b, H.SymList) for b in out)
                c.check(f"order {order}: the result has one band per distance 0..{order} from the diagonal", z3.BoolVal(shape), "post")
                if not shape:
                    return
                for d, b in enumerate(out):
                    c.check(f"order {order}: band {d} has size-{d} entries", b.len == size - d, "post")
                    c.check(f"order {order}: band {d} holds (D'D)[p][p+{d}] at every position p, for every size",
                            z3.Implies(z3.And(0 <= p, p < size - d), z3.Select(b.arr, p) == defval(order, d, p, size)), "post")
            n0 = len(sess.obligations)
            H.explore(sess, [], go)
            # z3's counter-model (a size, and where the model has one a position) is replayed on the real function
            for ob in sess.obligations[n0:]:
                if ob.status == "refuted" and ob.model and not ob.replay:
                    try:
                        size_v = int(str(ob.model.get("size", "")).replace("?", ""))
                    except ValueError:
                        continue
                    if not (order <= size_v <= 4000):
                        continue
                    ob.replay = {"repro": "import numpy as np\nfrom math import comb\nfrom pyimpspec.analysis.zhit.smoothing.whittaker_henderson import _make_D_prime_D_matrix\n"
                                          f"order, size = {order}, {size_v}\n"
                                          "D = np.zeros((size - order, size))\nfor k in range(size - order):\n    for t in range(order + 1):\n        D[k, k + t] = (-1) ** (order - t) * comb(order, t)\n"
                                          "M = D.T @ D\nout = _make_D_prime_D_matrix(order, size)\nassert len(out) == order + 1, len(out)\n"
                                          "for d, band in enumerate(out):\n    want = [M[p, p + d] for p in range(size - d)]\n    assert list(band) == want, (d, list(band), want)\n"}
        # refusals (concrete arguments: the real function is simply called)
        for order, size, why in ((0, 5, "order below 1"), (6, 9, "order above 5"), (3, 2, "size below the order")):
            def go_r(c, order=order, size=size, why=why):
                try:
                    real(order, size)
                    refused = False
                except ValueError:
                    refused = True
                c.check(f"_make_D_prime_D_matrix refuses {why} with ValueError", z3.BoolVal(refused), "post")
            H.explore(sess, [], go_r)

        # _times_lambda_plus_identity
        real_t = H.build_function(core.find_def(WH, "_times_lambda_plus_identity"), ns, vc)

        def band_inv(which):
            def inv(env):
                b, lm, q = env.loc["b"], st["lmbd"], st["p"]
                res = []
                d_now = 0 if which == 1 else env.loc["d"]
                for dd, lst in enumerate(b):
                    l0, a0 = st["b0"][dd]
                    res.append((f"band {dd} keeps its length", lst.len == l0))
                    old = z3.Select(a0, q)
                    new = (1 + old * lm) if dd == 0 else old * lm
                    if dd == d_now:
                        done = q < env.i
                    else:
                        done = z3.BoolVal(dd < d_now) if which == 2 else z3.BoolVal(False)
                        if which == 2 and dd == 0:
                            done = z3.BoolVal(True)
                    res.append((f"band {dd}: entries visited so far are scaled, the others are as they were",
                                z3.Implies(z3.And(0 <= q, q < l0), z3.Select(lst.arr, q) == z3.If(done, new, old))))
                return res
            return inv
        specs.inv[("_times_lambda_plus_identity", 1)] = band_inv(1)
        specs.inv[("_times_lambda_plus_identity", 3)] = band_inv(2)

        def go_t(c):
            counts["paths"] += 1
            lm, q = z3.Real("lmbd"), z3.Int("p")
            bands = []
            for dd in range(3):
                lst = H.SymList(f"band{dd}")
                lst.havoc()
                bands.append(lst)
            st.update(lmbd=lm, p=q, b0=[(x.len, x.arr) for x in bands])
            ok, out = no_raise("_times_lambda_plus_identity", lambda: real_t(bands, H.Rv(lm)))
            if not ok:
                return
            c.canary("_times_lambda_plus_identity, at return")
            c.check("_times_lambda_plus_identity returns the band matrix it was given", z3.BoolVal(out is bands), "post")
            for dd, lst in enumerate(bands):
                l0, a0 = st["b0"][dd]
                old = z3.Select(a0, q)
                c.check(f"_times_lambda_plus_identity: band {dd} becomes {'1 + lambda b' if dd == 0 else 'lambda b'}, entry by entry, same length",
                        z3.And(lst.len == l0, z3.Implies(z3.And(0 <= q, q < l0), z3.Select(lst.arr, q) == ((1 + old * lm) if dd == 0 else old * lm))), "post")
        H.explore(sess, [], go_t)
        sess.check("cover", [], z3.BoolVal(counts["paths"] >= 20), 0, label=f"paths executed: {counts['paths']}")
        sess.assumptions.append("floating-point rounding of the coefficient products is not modelled (they are small integers: exact in binary64)")
    return (f"{WH}:_make_D_prime_D_matrix / _times_lambda_plus_identity", WH, "_make_D_prime_D_matrix", run)


def targets():      # noqa: F811
    return _targets_c11_stages() + [target_whithend_matrix()]


_targets_before_window_options = targets


def target_window_options():
    """`_generate_window_options`: custom weights are used as they are (one option, "custom"); a named window gives exactly
    `_generate_weights(log_f, window, center, width)` with the caller's log-frequencies, centre and width -- not clamped, shifted or
    rescaled: the points outside `center +- width/2` must stay at weight zero whatever the data range --; "auto" gives one such entry
    per known window function.  Real function on EUF terms with a recording `_generate_weights` (E3)."""
    from . import dataflow as DF
    from .dataflow import T
    WGT_ = "analysis/zhit/weights"

    def run(sess: Session):
        class Prog:
            def __init__(self):
                self.n = 0

            def set_message(self, m):
                pass

            def increment(self):
                self.n += 1
        table = {"boxcar": object(), "hann": object(), "triang": object()}
        for mode in ("custom", "named", "auto"):
            calls = []

            def gen(log_f, window, center, width):
                calls.append((log_f, window, center, width))
                return T.var(f"weights[{window}]")

            class LogF:
                """the log-frequencies: whatever is asked of them (min, max, ...) is an opaque term"""
                e = z3.Const("log_f", DF.V)

                def min(self):
                    return T.var("min(log_f)")

                def max(self):
                    return T.var("max(log_f)")
            log_f, center, width, custom = T.var("log_f"), T.var("center"), T.var("width"), T.var("custom_weights")
            log_f.__dict__ if False else None
            ns = {"_WINDOW_FUNCTIONS": dict(table), "_initialize_window_functions": lambda: None, "_generate_weights": gen, "len": len, "min": min, "max": max, "float": lambda x: x}
            O.load(WGT_, ["_generate_window_options"], ns)
            prog = Prog()
            DF.reset_fallback(True)
            out = ns["_generate_window_options"](custom if mode == "custom" else None, log_f, "auto" if mode == "auto" else "hann", center, width, prog)
            tag = f" [{mode}]"
            if mode == "custom":
                sess.check("post", [], z3.BoolVal(isinstance(out, dict) and list(out) == ["custom"] and out["custom"] is custom and not calls and prog.n == 1), 0, label="custom weights are the only option, as given" + tag)
                continue
            names = ["hann"] if mode == "named" else list(table)
            ok = isinstance(out, dict) and list(out) == names and len(calls) == len(names) and prog.n == len(names)
            sess.check("post", [], z3.BoolVal(ok), 0, label="one option per requested window function, one step each" + tag)
            if not ok:
                continue
            for (lf, w, c_, wd), name in zip(calls, names):
                sess.check("post", [], z3.BoolVal(w == name and str(out[name].e) == f"weights[{name}]"), 0, label=f"the option of window {name} is _generate_weights of that window" + tag)
                DF.eq_check(sess, f"window {name}: the weights are generated on the caller's log-frequencies" + tag, lf, log_f)
                DF.eq_check(sess, f"window {name}: with the caller's centre (not clamped into the data range)" + tag, c_, center)
                DF.eq_check(sess, f"window {name}: with the caller's width" + tag, wd, width)
    return (f"{WGT_}:_generate_window_options", WGT_, "_generate_window_options", run)


def targets():      # noqa: F811
    return _targets_before_window_options() + [target_window_options()]
