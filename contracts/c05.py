"""C05 proof layer: pyimpspec/data/data_set.py:DataSet against the abstract view [(f_i, Z_i, m_i)] (DESIGN C05)."""
from __future__ import annotations

import ast
import itertools
import numpy

import z3

from pyvc import builtins as B
from pyvc import npmodel as NP
from pyvc.core import Session, find_def, strip_docstring
from pyvc.npmodel import Cx, FilterV, rel
from pyvc.symex import Executor, LoopSpec, Raised, State, Unsupported, _same
from pyvc.values import NONE, DictV, FuncV, ListV, Obj, Opt, PyDict, Ref, StrV, TupleV, fresh

MOD = "data/data_set"
I, Bo, R = z3.IntSort(), z3.BoolSort(), z3.RealSort()


def executor(sess) -> Executor:
    ex = Executor(sess, MOD, "DataSet")
    B.install(ex)
    NP.install(ex)
    ex.empty_dict_sorts = (I, Bo)
    for m in ("get_mask", "get_frequencies", "get_impedances", "set_mask"):
        ex.inline[m] = (MOD, f"DataSet.{m}")
    ex.consts["uuid4"] = ("builtin", lambda ex_, st, a, kw, n: [(st.alloc(Obj("uuid", {"hex": StrV(note="uuid")})), st)])
    ex.loops[("DataSet.set_mask", "i in list(mask.keys())")] = LoopSpec(invariant=_set_mask_inv, modifies=["mask", "i"])
    return ex


def _set_mask_inv(ex, st, entry, ghost):
    """while deleting out-of-range keys from the private copy: keys already visited are in range, all others untouched"""
    cur: DictV = st.deref(st.loc["mask"])
    d0: DictV = ghost["iter_dict"]
    done = ghost["done"]
    n = st.deref(st.loc["self"]).fields["_num_points"]
    k = fresh("k", I)
    return z3.ForAll([k], z3.And(cur.has(k) == z3.And(d0.has(k), z3.Or(z3.Not(z3.Select(done, k)), z3.And(k >= 0, k < n))),
                                 z3.Implies(cur.has(k), cur.get(k) == d0.get(k))))


def new_dataset(st: State, tag="d"):
    n = fresh(tag + ".n", I)
    f = ListV(fresh(tag + ".f", z3.ArraySort(I, R)), z3.IntVal(0), n)
    Z = ListV(fresh(tag + ".Z", z3.ArraySort(I, Cx)), z3.IntVal(0), n)
    m = DictV.symbolic(tag + ".mask", I, Bo)
    me = st.alloc(Obj("DataSet", {"_frequencies": st.alloc(f), "_impedances": st.alloc(Z), "_mask": st.alloc(m), "_num_points": n,
                                  "_path": StrV(note="path"), "_label": StrV(note="label"), "uuid": StrV(note="uuid")}))
    k = fresh("k", I)
    st.pc += [n >= 1, z3.ForAll([k], m.has(k) == z3.And(k >= 0, k < n))]
    return me, n, f, Z, m


def wf(st: State, me, n):
    o = st.deref(me)
    f, Z, m = st.deref(o.fields["_frequencies"]), st.deref(o.fields["_impedances"]), st.deref(o.fields["_mask"])
    k = fresh("k", I)
    return z3.And(f.length() == n, Z.length() == n, o.fields["_num_points"] == n, z3.ForAll([k], m.has(k) == z3.And(k >= 0, k < n)))


def _call(ex, qual, st, me, args=(), kwargs=None, starkw=None, body=None):
    fn = find_def(MOD, qual)
    if body is not None:
        fn = ast.FunctionDef(name=fn.name, args=fn.args, body=body, decorator_list=fn.decorator_list, lineno=fn.lineno, col_offset=0)
    node = ast.parse("f()").body[0].value
    node.lineno = fn.lineno
    return ex.call_funcv(FuncV(fn, MOD, qualname=qual, bound_self=me), list(args), kwargs or {}, starkw, st, node)


def unchanged_arrays(pre: State, post: State, me):
    o0, o1 = pre.deref(me), post.deref(me)
    return z3.BoolVal(all(_same(pre.deref(o0.fields[n]), post.deref(o1.fields[n])) for n in ("_frequencies", "_impedances")) and _same(o0.fields["_num_points"], o1.fields["_num_points"]))


def target_set_mask():
    qual = "DataSet.set_mask"

    def run(sess: Session):
        ex = executor(sess)
        st = State()
        me, n, f, Z, m0 = new_dataset(st)
        arg = DictV.symbolic("arg", I, Bo)
        argref = st.alloc(arg)
        pre = st.clone()
        outs = _call(ex, qual, st, me, args=[argref])
        k = fresh("k", I)
        cnt = 0
        for val, s1 in outs:
            if isinstance(val, Raised):
                sess.check("exc-free", s1.pc, z3.BoolVal(False), val.exc.line, label=val.exc.name)
                continue
            cnt += 1
            m1: DictV = s1.deref(s1.deref(me).fields["_mask"])
            empty = z3.Not(z3.Exists([k], arg.has(k)))
            spec = z3.ForAll([k], z3.Implies(z3.And(k >= 0, k < n), m1.get(k) == z3.If(empty, z3.BoolVal(False), z3.If(arg.has(k), arg.get(k), m0.get(k)))))
            sess.check("post", s1.pc, spec, 0, label="view:mask-updated-pointwise")
            sess.check("post", s1.pc, wf(s1, me, n), 0, label="well-formed(keys=0..n-1)")
            sess.check("frame", s1.pc, s1.deref(argref).same_as(arg), 0, label="argument-dict-not-modified")
            sess.check("frame", s1.pc, unchanged_arrays(pre, s1, me), 0, label="frequencies-impedances-untouched")
            sess.check("canary", s1.pc, z3.BoolVal(False), 0, label="ensures-False", expect_refuted=True)
        sess.check("cover", [], z3.BoolVal(cnt >= 2), 0, label="empty-and-non-empty-paths")
    return (f"{MOD}:{qual}", MOD, qual, run)


def target_get_mask():
    qual = "DataSet.get_mask"

    def run(sess: Session):
        ex = executor(sess)
        st = State()
        me, n, f, Z, m0 = new_dataset(st)
        for val, s1 in _call(ex, qual, st, me):
            if isinstance(val, Raised):
                sess.check("exc-free", s1.pc, z3.BoolVal(False), val.exc.line, label=val.exc.name)
                continue
            sess.check("frame", s1.pc, z3.BoolVal(isinstance(val, Ref) and val.addr != s1.deref(me).fields["_mask"].addr), 0, label="returns-a-copy")
            sess.check("post", s1.pc, s1.deref(val).same_as(m0), 0, label="equals-mask")
    return (f"{MOD}:{qual}", MOD, qual, run)


def target_getters():
    """get_frequencies / get_impedances(masked): same selection predicate, = (m_i == masked); False/True partition the view"""
    def run(sess: Session):
        preds = {}
        for g in ("get_frequencies", "get_impedances"):
            for mode in ("none", "bool"):
                ex = executor(sess)
                st = State()
                me, n, f, Z, m0 = new_dataset(st)
                b = fresh("masked", Bo)
                arg = NONE if mode == "none" else b
                for val, s1 in _call(ex, f"DataSet.{g}", st, me, kwargs={"masked": arg}):
                    if isinstance(val, Raised):
                        sess.check("exc-free", s1.pc, z3.BoolVal(False), val.exc.line, label=f"{g}:{val.exc.name}")
                        continue
                    v = s1.deref(val)
                    src = f if g == "get_frequencies" else Z
                    if mode == "none":
                        i = fresh("i", I)
                        ok = isinstance(v, ListV)
                        sess.check("post", s1.pc, z3.And(z3.BoolVal(ok), v.length() == n, z3.ForAll([i], z3.Implies(z3.And(i >= 0, i < n), rel(v, i) == rel(src, i)))) if ok else z3.BoolVal(False), 0, label=f"{g}(None)=whole-view")
                    else:
                        ok = isinstance(v, FilterV) and _same(v.src, src)
                        sess.check("post", s1.pc, z3.BoolVal(ok), 0, label=f"{g}(b)-filters-own-array")
                        if ok:
                            i = fresh("i", I)
                            spec = z3.ForAll([i], z3.Implies(z3.And(i >= 0, i < n), z3.Select(v.pred, i) == (m0.get(i) == b)))
                            sess.check("post", s1.pc, spec, 0, label=f"{g}(b)-selects-exactly-m_i==b")
                            # partition: every index is selected by exactly one of masked=False / masked=True
                            pT = z3.substitute(z3.Select(v.pred, i), (b, z3.BoolVal(True)))
                            pF = z3.substitute(z3.Select(v.pred, i), (b, z3.BoolVal(False)))
                            sess.check("lemma", s1.pc, z3.ForAll([i], z3.Implies(z3.And(i >= 0, i < n), z3.Xor(pT, pF))), 0, label=f"{g}:masked/unmasked-partition")
    return (f"{MOD}:DataSet.get_frequencies/get_impedances", MOD, "DataSet.get_frequencies", run)


def target_pass(which: str):
    qual = f"DataSet.{which}"

    def run(sess: Session):
        ex = executor(sess)
        st = State()
        me, n, f, Z, m0 = new_dataset(st)
        cutoff = fresh("cutoff", R)
        pre = st.clone()

        def invariant(ex_, s, entry, ghost):
            cur: DictV = s.deref(s.loc["mask"])
            i = ghost["i"]
            k = fresh("k", I)
            hit = (lambda k_: rel(f, k_) > cutoff) if which == "low_pass" else (lambda k_: rel(f, k_) < cutoff)
            return z3.ForAll([k], z3.And(cur.has(k) == m0.has(k),
                                         z3.Implies(z3.And(k >= 0, k < n), cur.get(k) == z3.Or(m0.get(k), z3.And(k < i - ghost["lo"], hit(k))))))
        ex.loops[(qual, "i, f in enumerate(self.get_frequencies(masked=None))")] = LoopSpec(invariant=invariant, modifies=["mask", "i", "f"])
        k = fresh("k", I)
        cnt = 0
        for val, s1 in _call(ex, qual, st, me, args=[cutoff]):
            if isinstance(val, Raised):
                sess.check("exc-free", s1.pc, z3.BoolVal(False), val.exc.line, label=val.exc.name)
                continue
            cnt += 1
            m1: DictV = s1.deref(s1.deref(me).fields["_mask"])
            hit = (rel(f, k) > cutoff) if which == "low_pass" else (rel(f, k) < cutoff)
            # (an all-False result of the loop would make set_mask() reset -- which is the same all-False mask)
            sess.check("post", s1.pc, z3.ForAll([k], z3.Implies(z3.And(k >= 0, k < n), m1.get(k) == z3.Or(m0.get(k), hit))), 0, label="m_i' = m_i or beyond-cutoff (strict)")
            sess.check("post", s1.pc, wf(s1, me, n), 0, label="well-formed")
            sess.check("frame", s1.pc, unchanged_arrays(pre, s1, me), 0, label="frequencies-impedances-untouched")
            sess.check("canary", s1.pc, z3.BoolVal(False), 0, label="ensures-False", expect_refuted=True)
        sess.check("cover", [], z3.BoolVal(cnt >= 1), 0, label="normal-exit")
    return (f"{MOD}:{qual}", MOD, qual, run)


def target_init():
    """DataSet.__init__ from `if frequencies[-1] > frequencies[0]` to the end (the validation prologue of type/shape checks
    is dropped and listed as abstracted): view = desc(zip(f, Z, mask.get(i, False))); the caller's mask is not modified."""
    qual = "DataSet.__init__"

    def run(sess: Session):
        fn = find_def(MOD, qual)
        body = strip_docstring(fn.body)
        start = None
        for idx, s in enumerate(body):
            if isinstance(s, ast.If) and "frequencies[-1]" in ast.unparse(s.test):
                start = idx
        if start is None:
            # the ordering step may have been moved into a helper: start after the leading validation / normalisation `if`s
            k = 0
            while k < len(body) and isinstance(body[k], ast.If) and any(w in ast.unparse(body[k].test) for w in ("isinstance(", "_is_", ".shape", " is None")):
                k += 1
            if 0 < k < len(body):
                start = k
        if start is None:
            sess.unsupported("ordering branch of DataSet.__init__ not found", fn.lineno)
            return
        sess.abstracted.append("DataSet.__init__: validation prologue (type/shape/uniqueness checks raising TypeError/ValueError) before the ordering branch")
        for mask_mode in ("dict", "none"):
            ex = executor(sess)
            st = State()
            n = fresh("n", I)
            f = ListV(fresh("f", z3.ArraySort(I, R)), z3.IntVal(0), n)
            Z = ListV(fresh("Z", z3.ArraySort(I, Cx)), z3.IntVal(0), n)
            st.pc.append(n >= 1)
            m0 = DictV.symbolic("mask", I, Bo) if mask_mode == "dict" else DictV.empty(I, Bo)
            mref = st.alloc(m0)
            me = st.alloc(Obj("DataSet", {}))
            fref, zref = st.alloc(f), st.alloc(Z)

            def invariant(ex_, s, entry, ghost):
                # (pinned, defective loop shape) the intended invariant: indices below i already hold the mirrored flags
                cur: DictV = s.deref(s.loc["mask"])
                i = ghost["i"]
                k = fresh("k", I)
                return z3.ForAll([k], z3.Implies(z3.And(k >= 0, k < i), cur.get(k) == z3.If(m0.has(n - 1 - k), m0.get(n - 1 - k), z3.BoolVal(False))))
            ex.loops[(qual, "i in range(0, frequencies.size)")] = LoopSpec(invariant=invariant, modifies=["mask", "i", "j", "flag"])
            outs = _call(ex, qual, st, me, kwargs={"frequencies": fref, "impedances": zref, "mask": mref, "path": StrV(note="p"), "label": StrV(note="l"), "uuid": StrV(note="u")}, body=body[start:])
            k = fresh("k", I)
            cnt = 0
            for val, s1 in outs:
                if isinstance(val, Raised):
                    sess.check("exc-free", s1.pc, z3.BoolVal(False), val.exc.line, label=val.exc.name)
                    continue
                cnt += 1
                o = s1.deref(me)
                f1, Z1, m1 = s1.deref(o.fields["_frequencies"]), s1.deref(o.fields["_impedances"]), s1.deref(o.fields["_mask"])
                asc = rel(f, n - 1) > rel(f, 0)
                srcidx = z3.If(asc, n - 1 - k, k)
                inr = z3.And(k >= 0, k < n)
                sess.check("post", s1.pc, z3.And(f1.length() == n, Z1.length() == n, z3.ForAll([k], z3.Implies(inr, z3.And(rel(f1, k) == rel(f, srcidx), rel(Z1, k) == rel(Z, srcidx))))), 0, label=f"[{mask_mode}]view:f,Z=desc(input)")
                sess.check("post", s1.pc, z3.ForAll([k], z3.Implies(inr, m1.get(k) == z3.If(m0.has(srcidx), m0.get(srcidx), z3.BoolVal(False)))), 0, label=f"[{mask_mode}]view:mask-follows-its-point")
                sess.check("post", s1.pc, wf(s1, me, n), 0, label=f"[{mask_mode}]well-formed")
                sess.check("frame", s1.pc, s1.deref(mref).same_as(m0), 0, label=f"[{mask_mode}]caller-mask-not-modified")
                sess.check("canary", s1.pc, z3.BoolVal(False), 0, label="ensures-False", expect_refuted=True)
            sess.check("cover", [], z3.BoolVal(cnt >= 2), 0, label=f"[{mask_mode}]ascending-and-descending-paths")
    return (f"{MOD}:{qual}", MOD, qual, run)


def target_parse():
    """DataSet._parse: total on dicts lacking the optional keys; the argument dict is not modified (so an export imports any number of times)"""
    qual = "DataSet._parse"

    def run(sess: Session):
        shapes = {
            "full-v2": ["version", "path", "label", "frequencies", "real_impedances", "imaginary_impedances", "mask", "uuid"],
            "minimal": ["frequencies", "real_impedances", "imaginary_impedances"],
            "no-version": ["path", "label", "frequencies", "real_impedances", "imaginary_impedances", "mask", "uuid"],
            "no-uuid(duplicate)": ["version", "path", "label", "frequencies", "real_impedances", "imaginary_impedances", "mask"],
            # the first file-format version: other names for the three columns (migrated by _parse_v1)
            "full-v1": ["version", "path", "label", "frequency", "real", "imaginary", "mask"],
            "minimal-v1": ["version", "frequency", "real", "imaginary"],
        }
        for name, keys in shapes.items():
            ex = executor(sess)
            st = State()
            n = fresh("n", I)
            st.pc.append(n >= 1)
            fr = ListV(fresh("f", z3.ArraySort(I, R)), z3.IntVal(0), n)
            re = ListV(fresh("re", z3.ArraySort(I, R)), z3.IntVal(0), n)
            im = ListV(fresh("im", z3.ArraySort(I, R)), z3.IntVal(0), n)
            m0 = DictV.symbolic("mask", I, Bo)
            vals = {"version": z3.IntVal(1 if name.endswith("-v1") else 2), "path": StrV(note="p"), "label": StrV(note="l"), "uuid": StrV(note="u"), "frequencies": st.alloc(fr),
                    "real_impedances": st.alloc(re), "imaginary_impedances": st.alloc(im), "mask": st.alloc(m0)}
            vals.update(frequency=vals["frequencies"], real=vals["real_impedances"], imaginary=vals["imaginary_impedances"])
            d = PyDict({k: vals[k] for k in keys})
            dref = st.alloc(d)
            pre = st.clone()
            cnt = 0
            for val, s1 in _call(ex, qual, st, None, args=[dref]):
                if isinstance(val, Raised):
                    sess.check("exc-free", s1.pc, z3.BoolVal(False), val.exc.line, label=f"[{name}]{val.exc.name}")
                    continue
                cnt += 1
                sess.check("frame", s1.pc, z3.BoolVal(_same(s1.deref(dref), d)), 0, label=f"[{name}]argument-dict-not-modified")
                out = s1.deref(val)
                ok = isinstance(out, PyDict) and set(out.items) == {"path", "label", "frequencies", "impedances", "mask", "uuid"}
                sess.check("post", s1.pc, z3.BoolVal(ok), 0, label=f"[{name}]result-keys=constructor-arguments")
                if ok:
                    Zo, fo = s1.deref(out.items["impedances"]), s1.deref(out.items["frequencies"])
                    i = fresh("i", I)
                    sess.check("post", s1.pc, z3.And(Zo.length() == n, fo.length() == n, z3.ForAll([i], z3.Implies(z3.And(i >= 0, i < n), z3.And(rel(fo, i) == rel(fr, i), rel(Zo, i) == Cx.mk(rel(re, i), rel(im, i)))))), 0, label=f"[{name}]f,Z rebuilt point by point")
                    mo = s1.deref(out.items["mask"])
                    if "mask" in keys:
                        sess.check("post", s1.pc, z3.BoolVal(isinstance(mo, DictV)) if not isinstance(mo, DictV) else mo.same_as(m0), 0, label=f"[{name}]mask-kept")
                    else:
                        sess.check("post", s1.pc, z3.BoolVal(isinstance(mo, PyDict) and not mo.items), 0, label=f"[{name}]mask-defaults-to-empty")
            sess.check("cover", [], z3.BoolVal(cnt >= 1), 0, label=f"[{name}]normal-exit")
        sess.assumptions.append("JSON string keys of an imported mask: int(str(i)) == i is assumed (int(k) is modelled on integer keys)")
    return (f"{MOD}:{qual}", MOD, qual, run)


def target_to_dict():
    """DataSet.to_dict: the export is the view, point by point, with a private copy of the mask; nothing of the data set changes.
    Together with _parse (keys/values rebuilt point by point, argument untouched) and __init__ this is export -> import = identity."""
    qual = "DataSet.to_dict"

    def run(sess: Session):
        ex = executor(sess)
        ex.consts["VERSION"] = z3.IntVal(2)
        st = State()
        me, n, f, Z, m0 = new_dataset(st)
        pre = st.clone()
        cnt = 0
        for val, s1 in _call(ex, qual, st, me):
            if isinstance(val, Raised):
                sess.check("exc-free", s1.pc, z3.BoolVal(False), val.exc.line, label=val.exc.name)
                continue
            cnt += 1
            out = s1.deref(val)
            ok = isinstance(out, PyDict) and set(out.items) == {"version", "path", "label", "frequencies", "real_impedances", "imaginary_impedances", "mask", "uuid"}
            sess.check("post", s1.pc, z3.BoolVal(ok), 0, label="keys")
            if not ok:
                continue
            fo, ro, io = (s1.deref(out.items[k]) for k in ("frequencies", "real_impedances", "imaginary_impedances"))
            i = fresh("i", I)
            okl = all(isinstance(x, ListV) for x in (fo, ro, io))
            sess.check("post", s1.pc, z3.And(fo.length() == n, ro.length() == n, io.length() == n, z3.ForAll([i], z3.Implies(z3.And(i >= 0, i < n), z3.And(
                rel(fo, i) == rel(f, i), rel(ro, i) == Cx.re(rel(Z, i)), rel(io, i) == Cx.im(rel(Z, i)))))) if okl else z3.BoolVal(False), 0, label="f, Re Z, Im Z exported point by point, same order")
            mo = s1.deref(out.items["mask"])
            sess.check("post", s1.pc, mo.same_as(m0) if isinstance(mo, DictV) else z3.BoolVal(False), 0, label="mask exported as is")
            sess.check("frame", s1.pc, z3.BoolVal(isinstance(out.items["mask"], Ref) and out.items["mask"].addr != s1.deref(me).fields["_mask"].addr), 0, label="exported mask is a copy")
            sess.check("frame", s1.pc, z3.And(wf(s1, me, n), unchanged_arrays(pre, s1, me), s1.deref(s1.deref(me).fields["_mask"]).same_as(m0)), 0, label="data set unchanged")
            sess.check("post", s1.pc, z3.BoolVal(out.items["uuid"] is s1.deref(me).fields["uuid"] and out.items["label"] is s1.deref(me).fields["_label"] and out.items["path"] is s1.deref(me).fields["_path"]), 0, label="path, label, uuid exported")
        sess.check("cover", [], z3.BoolVal(cnt == 1), 0, label="one normal exit")
    return (f"{MOD}:{qual}", MOD, qual, run)


def target_subtract():
    """DataSet.subtract_impedances(z): Z_i := Z_i - z_i (array of the same length) or Z_i - z (one value); f and mask untouched"""
    qual = "DataSet.subtract_impedances"

    def run(sess: Session):
        for shape in ("array", "scalar"):
            ex = executor(sess)
            ex.consts["_is_complex_array"] = ("builtin", lambda ex_, st_, a, kw, nd: [(z3.BoolVal(True), st_)])
            st = State()
            me, n, f, Z, m0 = new_dataset(st)
            if shape == "array":
                arg = st.alloc(ListV(fresh("z", z3.ArraySort(I, Cx)), z3.IntVal(0), n))
            else:
                arg = fresh("z", Cx)
            pre = st.clone()
            try:
                outs = _call(ex, qual, st, me, args=[arg])
            except Unsupported as u:
                sess.unsupported(f"[{shape}] {u}")
                continue
            for val, s1 in outs:
                if isinstance(val, Raised):
                    sess.check("exc-free", s1.pc, z3.BoolVal(False), val.exc.line, label=f"[{shape}]{val.exc.name}")
                    continue
                o = s1.deref(me)
                Z1 = s1.deref(o.fields["_impedances"])
                i = fresh("i", I)
                zi = rel(st.deref(arg), i) if shape == "array" else arg
                want = Cx.mk(Cx.re(rel(Z, i)) - Cx.re(zi), Cx.im(rel(Z, i)) - Cx.im(zi))
                sess.check("post", s1.pc, z3.And(Z1.length() == n, z3.ForAll([i], z3.Implies(z3.And(i >= 0, i < n), rel(Z1, i) == want))) if isinstance(Z1, ListV) else z3.BoolVal(False), 0, label=f"[{shape}]Z_i := Z_i - z_i, index by index")
                f1 = s1.deref(o.fields["_frequencies"])
                sess.check("frame", s1.pc, z3.And(z3.BoolVal(_same(f1, f)), s1.deref(o.fields["_mask"]).same_as(m0), o.fields["_num_points"] == n), 0, label=f"[{shape}]frequencies, mask, size untouched")
    return (f"{MOD}:{qual}", MOD, qual, run)


def targets():
    return [target_set_mask(), target_get_mask(), target_getters(), target_pass("low_pass"), target_pass("high_pass"), target_init(), target_parse(), target_to_dict(), target_subtract()]


# ------------------------------------------------------------------------------------------------ duplicate / from_dict / average (data flow)
def target_duplicate_average():
    """DataSet.from_dict / duplicate / average as glue: from_dict(d) == DataSet(**_parse(d)); duplicate(data, label) imports
    data.to_dict() without its uuid and with the label replaced iff one is given (nothing else touched, the original's own export
    dictionary is what is modified, not the data set); average takes ALL points (masked=None) of every data set, refuses differing
    frequency grids, and builds the result from the first grid and the mean over the data sets (axis 0) in the given order."""
    from pyvc import overload as O

    def run(sess: Session):
        # from_dict
        ns = {}
        O.load(MOD, ["DataSet.from_dict"], ns)
        calls = []

        class Cls:
            def __init__(self, **kw):
                calls.append(("ctor", kw))

            @staticmethod
            def _parse(d):
                calls.append(("_parse", d))
                return {"frequencies": "F*", "impedances": "Z*", "mask": "M*"}
        d = {"frequencies": [1], "real_impedances": [2]}
        out = ns["from_dict"].__func__(Cls, d) if hasattr(ns["from_dict"], "__func__") else ns["from_dict"](Cls, d)
        sess.check("post", [], z3.BoolVal(isinstance(out, Cls) and calls == [("_parse", d), ("ctor", {"frequencies": "F*", "impedances": "Z*", "mask": "M*"})]), 0, label="from_dict(d) == cls(**cls._parse(d)), the very dictionary handed on")
        # duplicate
        for label in (None, "copy"):
            ns = {"isinstance": lambda a, b: True, "str": str}
            O.load(MOD, ["DataSet.duplicate"], ns)
            exported = {"version": 2, "path": "p", "label": "old", "frequencies": "F", "real_impedances": "R", "imaginary_impedances": "I", "mask": "M", "uuid": "U"}
            got = []

            class Data:
                n = 0

                def to_dict(self):
                    Data.n += 1
                    return exported

            class Cls2:
                @classmethod
                def from_dict(cls, dd):
                    got.append(dict(dd))
                    return "NEW"
            fn = ns["duplicate"]
            fn = fn.__func__ if hasattr(fn, "__func__") else fn
            out = fn(Cls2, Data(), label=label) if label is not None else fn(Cls2, Data())
            want = {k: v for k, v in {**exported_copy(exported), "label": (label if label is not None else "old")}.items() if k != "uuid"}
            sess.check("post", [], z3.BoolVal(out == "NEW" and Data.n == 1 and got == [want]), 0, label=f"duplicate(label={label!r}): import of the export without uuid, label replaced iff given")
        # average
        for same in (True, False):
            recorded = {}

            class DS:
                def __init__(self, name):
                    self.name = name

                def get_frequencies(self, masked=False):
                    recorded.setdefault("f", []).append((self.name, masked))
                    return ("f", self.name)

                def get_impedances(self, masked=False):
                    recorded.setdefault("Z", []).append((self.name, masked))
                    return ("Z", self.name)
            made = []

            class Cls3:
                def __init__(self, **kw):
                    made.append(kw)
            sets = [DS("a"), DS("b"), DS("c")]
            ns = {"isinstance": lambda a, b: True, "list": list, "map": map, "all": all, "str": str, "allclose": lambda x, y: recorded.setdefault("cmp", []).append((x, y)) or same,
                  "array": lambda x: ("array", tuple(x)), "mean": lambda x, axis=None: ("mean", x, axis)}
            O.load(MOD, ["DataSet.average"], ns)
            fn = ns["average"]
            fn = fn.__func__ if hasattr(fn, "__func__") else fn
            err = None
            try:
                fn(Cls3, sets, label="L")
            except ValueError as ex:
                err = ex
            sess.check("post", [], z3.BoolVal(recorded.get("f") == [(n, None) for n in "abc"] and recorded.get("Z") == [(n, None) for n in "abc"]), 0, label=f"average[grids equal={same}]: all points (masked=None) of every data set, frequencies and impedances alike")
            if same:
                ok = err is None and made == [{"frequencies": ("f", "a"), "impedances": ("mean", ("array", (("Z", "a"), ("Z", "b"), ("Z", "c"))), 0), "label": "L"}]
                sess.check("post", [], z3.BoolVal(ok), 0, label="average: result = cls(first grid, mean over the data sets (axis 0) in order, label)")
                sess.check("post", [], z3.BoolVal(recorded.get("cmp") == [(("f", "a"), ("f", "b")), (("f", "a"), ("f", "c"))]), 0, label="average: every other grid is compared with the first one")
            else:
                sess.check("post", [], z3.BoolVal(isinstance(err, ValueError) and not made), 0, label="average: differing grids are refused (ValueError), nothing is built")
    return (f"{MOD}:DataSet.from_dict/duplicate/average", MOD, "DataSet.duplicate", run)


def exported_copy(d):
    return dict(d)


_targets_c05_core = targets


def targets():      # noqa: F811
    return _targets_c05_core() + [target_duplicate_average()]


_targets_before_observers = targets


def targets():      # noqa: F811
    from . import purity
    return _targets_before_observers() + [purity.target_observers(["data/data_set"], "DataSet observers keep no state")]


def _count_disagreement(get_num_points, m):
    flags = (False, True, numpy.bool_(False), numpy.bool_(True))
    for n in (1, 2, 3):
        for combo in itertools.product(flags, repeat=n):
            mask = dict(enumerate(combo))
            kept = n if m is None else sum(1 for v in combo if bool(v) == bool(m))

            class Me:
                # the representation of a data set of n points with this mask (invariants of __init__ / set_mask)
                _mask = mask
                _num_points = n
                _impedances = numpy.zeros(n, dtype=complex)
                _frequencies = numpy.logspace(3, 0, n)

                def get_mask(self):
                    return dict(mask)

                def get_impedances(self, masked=False):
                    return [0j] * (n if masked is None else sum(1 for v in combo if bool(v) == bool(masked)))
                get_frequencies = get_impedances
            try:
                got = get_num_points(Me(), masked=m)
            except (AttributeError, NameError) as e:
                # the method uses a part of the data set this stand-in does not have: nothing can be concluded
                raise O.Unsupported(f"get_num_points left the modelled representation of a data set: {type(e).__name__}: {e}")
            except Exception as e:      # noqa: BLE001
                got = f"{type(e).__name__}: {e}"
            if isinstance(got, tuple) and got[0] == "len":
                got = len(got[1])
            if got != kept:
                return mask, got, kept
    return None


def target_derived_views():
    """the derived views get_magnitudes / get_phases / get_num_points / get_nyquist_data / get_bode_data: every part of what they
    return is computed from get_frequencies(masked=m) / get_impedances(masked=m) with the SAME m that was asked for -- so frequency,
    modulus and phase of one row belong to one physical point, for the masked, unmasked and full view alike"""
    from pyvc import overload as O
    from . import dataflow as DF
    from .dataflow import T, opaque

    def run(sess: Session):
        for m, mask_state in itertools.product((False, True, None), ({0: False, 1: False}, {0: True, 1: False})):
            calls = []

            class Me:
                # (what the mask currently is must not matter to which subset a view asks for: both "nothing masked" and
                # "something masked" are run)
                _mask = dict(mask_state)
                # (representation invariant of DataSet, established by __init__ and never reassigned: the stored count is the
                # number of points of the full view)
                _num_points = ("len", T.var("Z[None]"))

                def get_mask(self):
                    return dict(mask_state)

                def get_frequencies(self, masked=False):
                    calls.append(("f", masked))
                    return T.var(f"f[{masked}]")

                def get_impedances(self, masked=False):
                    calls.append(("Z", masked))
                    return T.var(f"Z[{masked}]")

                def get_magnitudes(self, masked=False):
                    calls.append(("mag", masked))
                    return T(DF.fn("abs", 1)(DF.tv(T.var(f"Z[{masked}]"))))

                def get_phases(self, masked=False):
                    calls.append(("phase", masked))
                    return opaque("angle")(T.var(f"Z[{masked}]"), deg=True)
            ns = {"abs": lambda x: abs(x), "angle": opaque("angle"), "len": lambda x: ("len", x)}
            O.load(MOD, ["DataSet.get_magnitudes", "DataSet.get_phases", "DataSet.get_num_points", "DataSet.get_nyquist_data", "DataSet.get_bode_data"], ns)
            Zm, fm = T.var(f"Z[{m}]"), T.var(f"f[{m}]")
            tag = f"[masked={m}, {'some' if any(mask_state.values()) else 'no'} point masked]"
            calls.clear()
            DF.eq_check(sess, f"get_magnitudes == |get_impedances(masked)|{tag}", ns["get_magnitudes"](Me(), masked=m), abs(Zm))
            DF.eq_check(sess, f"get_phases == angle(get_impedances(masked), deg=True){tag}", ns["get_phases"](Me(), masked=m), opaque("angle")(Zm, deg=True))
            ns.update(_is_boolean=lambda o: isinstance(o, (bool, numpy.bool_)), sum=sum)
            try:
                n = ns["get_num_points"](Me(), masked=m)
            except (TypeError, AttributeError):
                n = None
            if isinstance(n, tuple) and n[0] == "len":
                sess.check("post", [], z3.BoolVal(n[1].e.eq(Zm.e)), 0, label=f"get_num_points == len(get_impedances(masked)){tag}")
                sess.check("post", [], z3.BoolVal(all(c[1] is m for c in calls) and len(calls) in (2, 3)), 0, label=f"the simple views ask for the requested subset only{tag}")
            else:
                # the count is computed some other way: the symbolic argument does not apply, so the real method is run on every
                # mask of up to three points whose flags are of the two accepted kinds (bool, numpy.bool_); a disagreement with
                # the number of points the view keeps is a real input, agreement everywhere leaves the obligation undecided
                stub_len, ns["len"] = ns["len"], len        # (the enumeration runs on concrete values: the real len)
                try:
                    bad = _count_disagreement(ns["get_num_points"], m)
                finally:
                    ns["len"] = stub_len
                if bad is None:
                    sess.unsupported(f"get_num_points does not take the length of get_impedances(masked); its own counting agrees on every mask of up to three points, which proves nothing{tag}")
                else:
                    ob = sess.check("post", [], z3.BoolVal(False), 0, label=f"get_num_points == len(get_impedances(masked)){tag}")
                    ob.detail = f"witness: mask={bad[0]!r} masked={m}: get_num_points gives {bad[1]}, the view keeps {bad[2]} points"
            calls.clear()
            re_, nim = ns["get_nyquist_data"](Me(), masked=m)
            DF.eq_check(sess, f"get_nyquist_data[0] == Re Z of the requested subset{tag}", re_, Zm.real)
            DF.eq_check(sess, f"get_nyquist_data[1] == -Im Z of the requested subset{tag}", nim, -Zm.imag)
            sess.check("post", [], z3.BoolVal(all(c[1] is m for c in calls) and calls), 0, label=f"get_nyquist_data asks for the requested subset only{tag}")
            calls.clear()
            f_, mag, nph = ns["get_bode_data"](Me(), masked=m)
            DF.eq_check(sess, f"get_bode_data[0] == frequencies of the requested subset{tag}", f_, fm)
            DF.eq_check(sess, f"get_bode_data[1] == |Z| of the requested subset{tag}", mag, abs(Zm))
            DF.eq_check(sess, f"get_bode_data[2] == -phase (degrees) of the requested subset{tag}", nph, -opaque("angle")(Zm, deg=True))
            sess.check("post", [], z3.BoolVal(all(c[1] is m for c in calls) and calls), 0, label=f"get_bode_data asks for the requested subset only (all three parts){tag}")
    return (f"{MOD}:DataSet.get_bode_data / get_nyquist_data / get_magnitudes / get_phases", MOD, "DataSet.get_bode_data", run)


_targets_c05_with_observers = targets


def targets():      # noqa: F811
    from . import frames
    return _targets_c05_with_observers() + [target_derived_views(), frames.target_data_set_constructors()]


_targets_before_dataframe = targets


def target_to_dataframe():
    """`DataSet.to_dataframe` (what `parse` prints and what every table export starts from): the five columns, in order, hold the
    frequencies, Re Z, Im Z, |Z| and the phase in degrees of the SAME requested subset (`masked`), the imaginary part and the phase
    negated exactly when asked; the default headers are such that the table can be parsed back (their role is recognised by
    `_detect_columns`: checked against the documented alias table); custom headers must be five distinct non-blank strings."""
    from pyvc import overload as O
    from . import dataflow as DF
    from .dataflow import T, opaque
    from . import c06

    def run(sess: Session):
        for masked, neg_im, neg_ph in itertools.product((False, None), (False, True), (False, True)):
            asked = []

            class Me:
                def get_frequencies(self, masked=False):
                    asked.append(("f", masked))
                    return T.var(f"f[{masked}]")

                def get_impedances(self, masked=False):
                    asked.append(("Z", masked))
                    return T.var(f"Z[{masked}]")
            ns = {"DataFrame": lambda d: d, "abs": lambda x: abs(x), "angle": opaque("angle"), "isinstance": isinstance}
            O.load(MOD, ["DataSet.to_dataframe"], ns)
            out = ns["to_dataframe"](Me(), masked=masked, negative_imaginary=neg_im, negative_phase=neg_ph)
            tag = f"[masked={masked}, negative_imaginary={neg_im}, negative_phase={neg_ph}]"
            ok = isinstance(out, dict) and len(out) == 5
            sess.check("post", [], z3.BoolVal(ok and all(m is masked for _, m in asked)), 0, label=f"five columns, all computed from the requested subset{tag}")
            if not ok:
                continue
            cols = list(out.values())
            Z, f = T.var(f"Z[{masked}]"), T.var(f"f[{masked}]")
            DF.eq_check(sess, f"column 1 = frequencies{tag}", cols[0], f)
            DF.eq_check(sess, f"column 2 = Re Z{tag}", cols[1], Z.real)
            DF.eq_check(sess, f"column 3 = Im Z (negated iff asked){tag}", cols[2], Z.imag * (-1 if neg_im else 1))
            DF.eq_check(sess, f"column 4 = |Z|{tag}", cols[3], abs(Z))
            DF.eq_check(sess, f"column 5 = phase in degrees (negated iff asked){tag}", cols[4], opaque("angle")(Z, deg=True) * (-1 if neg_ph else 1))
            heads = [h.lower() for h in out]
            roles = []
            for h in heads:
                role = [r for r, al in c06.DOCUMENTED_ALIASES.items() if any(h.startswith(a) for a in sorted(al, key=len, reverse=True))]
                roles.append(role)
            sess.check("post", [], z3.BoolVal("frequency" in roles[0] and "real" in roles[1] and "imaginary" in roles[2]), 0, label=f"the default headers of the first three columns start with a documented alias of their role{tag}")
        ns = {"DataFrame": lambda d: d, "abs": lambda x: abs(x), "angle": opaque("angle"), "isinstance": isinstance}
        O.load(MOD, ["DataSet.to_dataframe"], ns)

        class Me2:
            def get_frequencies(self, masked=False):
                return T.var("f")

            def get_impedances(self, masked=False):
                return T.var("Z")
        for bad, exc, why in ((["a", "b", "c", "d"], ValueError, "four headers"), (["a", "b", "c", "d", " a "], ValueError, "a repeated header (after stripping)"),
                              (["a", "b", "c", "d", 5], TypeError, "a header that is not a string"), ("abcde", TypeError, "headers that are not a list")):
            try:
                ns["to_dataframe"](Me2(), columns=bad)
                refused = False
            except exc:
                refused = True
            sess.check("post", [], z3.BoolVal(refused), 0, label=f"custom headers: {why} refused with {exc.__name__}")
    return (f"{MOD}:DataSet.to_dataframe", MOD, "DataSet.to_dataframe", run)


def targets():      # noqa: F811
    return _targets_before_dataframe() + [target_to_dataframe()]
