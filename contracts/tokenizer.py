"""Sidecar model + contracts of pyimpspec/circuit/tokenizer.py:Tokenizer (C04, C03, C15).

`_chars` is an array window over integer character codes, tokens are kind codes; helpers peek/pop/consume/accept/ignore/push
are inlined.  Loop invariant for every scanning loop: `_chars` is a suffix window of the same array with the same end,
`_index` advanced by exactly the number of consumed characters, and (where the loop keeps a local `char`) char == peek(0).
"""
from __future__ import annotations

import ast
import string

import z3

from pyvc import builtins as B
from pyvc.core import Session, find_def
from pyvc.symex import Contract, Executor, LoopSpec, Raised, State, Unsupported
from pyvc.values import NONE, Char, ClassV, Exc, FuncV, ListV, NoneV, Obj, Opt, PyDict, Ref, StrV, fresh

MOD = "circuit/tokenizer"
I = z3.IntSort()

TOKEN_CLASSES = ["Identifier", "Label", "Number", "FixedNumber", "LBracket", "RBracket", "LParen", "RParen", "LCurly", "RCurly",
                 "Equals", "ForwardSlash", "Percent", "Comma", "Colon", "Exclamation"]
KIND = {n: i + 1 for i, n in enumerate(TOKEN_CLASSES)}
SPECIAL = {"[": "LBracket", "]": "RBracket", "(": "LParen", ")": "RParen", "{": "LCurly", "}": "RCurly", "=": "Equals",
           "/": "ForwardSlash", "%": "Percent", ",": "Comma", ":": "Colon", "!": "Exclamation"}
ALLOWED_EXC = {"UnexpectedCharacter", "ValueError"}


class TokClass:
    """a token class object whose identity may depend on the scanned character: kind is a z3 Int"""

    def __init__(self, kind):
        self.kind = kind if z3.is_expr(kind) else z3.IntVal(kind)


def special_table_from_source():
    """the character -> token class table, read from Tokenizer.__init__ (so an edit of the table is seen)"""
    fn = find_def(MOD, "Tokenizer.__init__")
    for st in ast.walk(fn):
        if isinstance(st, ast.AnnAssign) and isinstance(st.target, ast.Attribute) and st.target.attr == "_special_characters":
            return {ast.literal_eval(k): v.id for k, v in zip(st.value.keys, st.value.values)}
    raise LookupError("_special_characters table not found")


def new_tokenizer(st: State, nonempty=True):
    arr = fresh("orig", z3.ArraySort(I, I))
    lo, hi = fresh("lo", I), fresh("hi", I)
    tarr = fresh("tokkinds", z3.ArraySort(I, I))
    tn = fresh("ntok", I)
    chars = ListV(arr, lo, hi, wrap=Char)
    toks = ListV(tarr, z3.IntVal(0), tn)
    table = special_table_from_source()
    me = st.alloc(Obj("Tokenizer", {
        "_original": StrV(note="original"), "_chars": st.alloc(chars), "_tokens": st.alloc(toks), "_value": StrV(note="value"),
        "_index": fresh("idx", I), "_start": fresh("start", I), "_end": fresh("end", I),
        "_special_characters": st.alloc(PyDict({k: TokClass(KIND[v]) for k, v in table.items()})),
    }))
    st.pc += [lo >= 0, (lo < hi) if nonempty else (lo <= hi), tn >= 0]
    k = fresh("k", I)
    st.pc.append(z3.ForAll([k], z3.And(z3.Select(arr, k) >= 0, z3.Select(arr, k) < 1114112)))
    return me, chars, toks


def as_opt(v):
    if isinstance(v, NoneV):
        return Opt(z3.BoolVal(True), Char(z3.IntVal(0)))
    if isinstance(v, Char):
        return Opt(z3.BoolVal(False), v)
    return v


def scan_invariant(uses_char: bool):
    def inv(ex, st, entry, ghost):
        me = st.loc["self"]
        c1: ListV = st.deref(st.deref(me).fields["_chars"])
        c0: ListV = entry.deref(entry.deref(me).fields["_chars"])
        idx1, idx0 = st.deref(me).fields["_index"], entry.deref(me).fields["_index"]
        conj = [c1.hi == c0.hi, c1.lo >= c0.lo, c1.lo <= c1.hi, idx1 - c1.lo == idx0 - c0.lo,
                z3.BoolVal(c1.arr.eq(c0.arr))]
        if uses_char:
            c = as_opt(st.loc["char"])
            conj.append(c.is_none == (c1.length() <= 0))
            conj.append(z3.Implies(z3.Not(c.is_none), c.val.code == z3.Select(c1.arr, c1.lo)))
        return z3.And(*conj)
    return inv


def scan_variant(ex, st, ghost):
    me = st.loc["self"]
    c: ListV = st.deref(st.deref(me).fields["_chars"])
    return c.length()


def prep_char(ex, st):
    st.loc["char"] = as_opt(st.loc["char"])


def scan_spec(uses_char: bool, extra=()):
    mods = ["self._chars:window", "self._index", "self._value", "self._start"] + (["char"] if uses_char else []) + list(extra)
    return LoopSpec(invariant=scan_invariant(uses_char), variant=scan_variant, modifies=mods, prepare=prep_char if uses_char else None)


def b_type(ex, st, args, kwargs, node):
    v = args[0]
    if isinstance(v, NoneV):
        return [(ClassV("NoneType"), st)]
    if z3.is_expr(v) and z3.is_int(v):
        return [(TokClass(v), st)]
    raise Unsupported("type() of this value")


def b_float_of_text(ex, st, args, kwargs, node):
    """float(<scanned text>): a float, or ValueError for text such as '1e' (an allowed exception class)"""
    s2 = st.clone()
    return [(Raised(Exc("ValueError", node.lineno)), s2), (fresh("flt", z3.RealSort()), st)]


def make_executor(sess: Session) -> Executor:
    ex = Executor(sess, MOD, "Tokenizer")
    ex.empty_list_sort = I
    B.install(ex)
    ex.consts.update({"ascii_letters": string.ascii_letters, "ascii_lowercase": string.ascii_lowercase, "digits": string.digits,
                      "whitespace": string.whitespace, "type": ("builtin", b_type), "float": ("builtin", b_float_of_text)})
    for n in TOKEN_CLASSES:
        ex.consts[n] = TokClass(KIND[n])
    ex.classes["UnexpectedCharacter"] = ClassV("UnexpectedCharacter")
    for m in ("peek", "pop", "consume", "accept", "ignore", "push", "identifier_or_label", "number", "main_loop"):
        ex.inline[m] = (MOD, f"Tokenizer.{m}")
    # identity / equality of token classes
    orig_identical = ex.identical

    def identical(l, r, st):
        if isinstance(l, TokClass) or isinstance(r, TokClass):
            if isinstance(l, TokClass) and isinstance(r, TokClass):
                return l.kind == r.kind
            return z3.BoolVal(False)
        return orig_identical(l, r, st)
    ex.identical = identical
    orig_sub = ex.subscript

    def subscript(base, idx, st, node):
        c = st.deref(base)
        if isinstance(c, PyDict) and isinstance(idx, (Char, Opt)):
            ch = idx.val if isinstance(idx, Opt) else idx
            kind = z3.IntVal(0)
            conds = []
            for k, v in c.items.items():
                kind = z3.If(ch.code == ord(k), v.kind, kind)
                conds.append(ch.code == ord(k))
            ex.oblige("exc-free", st, z3.Or(*conds), getattr(node, "lineno", 0), "KeyError")
            st.pc.append(z3.Or(*conds))
            return (TokClass(kind), st)
        return orig_sub(base, idx, st, node)
    ex.subscript = subscript
    orig_call = ex.call

    def call(f, args, kwargs, starkw, st, node):
        if isinstance(f, TokClass):
            # Class(start, end, value): Identifier.__post_init__ may raise ValueError (an allowed class); otherwise the token (= its kind)
            outs = []
            s2 = st.clone()
            s2.pc.append(f.kind == KIND["Identifier"])
            if ex.feasible(s2):
                outs.append((Raised(Exc("ValueError", getattr(node, "lineno", 0))), s2))
            outs.append((f.kind, st))
            return outs
        return orig_call(f, args, kwargs, starkw, st, node)
    ex.call = call
    Q = "Tokenizer."
    ex.loops[(Q + "identifier_or_label", "char is not None")] = scan_spec(True, ["num_curly_scopes"])
    ex.loops[(Q + "identifier_or_label", "char is not None and char in valid_chars")] = scan_spec(True)
    ex.loops[(Q + "number", "self.peek(0) is not None and self.peek(0) in digits")] = scan_spec(False)
    return ex
