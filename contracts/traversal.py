"""C16 (shared with C20): completeness of the traversals the numbering is built on, for every connection tree (pyvc.hoare, E5).

`Connection._get_all_items_recursive`, `Connection.get_elements(recursive=True)` and `Connection._get_elements_recursive` return
lists of elements.  The lists are modelled as bags (`NodeBag`: how often each node occurs, and the total length); the contracts
say that EVERY element at or below the connection occurs EXACTLY ONCE and nothing else occurs -- which is what makes the
identifier map of `generate_element_identifiers` (C16's E1 contract: its keys are the elements of this list, numbered in list
order) total on the circuit, the fact the diagram contracts of C20 lean on.  The order of the list is E1's business.

Container elements: `_get_elements_recursive` also queues the sub-circuits of containers and appends what they hold; those
elements are not part of the connection tree (a container counts as one element there), so the contract is stated for the
elements of the tree and assumes that a container's sub-circuits hold none of them (no object occurs twice in a circuit)."""
from __future__ import annotations

from typing import Any, Dict, List

import z3

from pyvc import core
from pyvc import hoare as H
from pyvc.core import Session
from pyvc.hoare import NodeS, Rv, child, ctx, is_conn, is_elem, kind, nchild, sub, br
from .diagrams import _isinstance, below, check_wf, make_no_raise, wf

I, R, B = z3.IntSort(), z3.RealSort(), z3.BoolSort()
ARR = z3.ArraySort(NodeS, I)
dups = z3.Function("duplicates_in", ARR, I)


class NodeBag:
    """a list of nodes, as a bag: cnt[e] = occurrences of e, total = length"""

    def __init__(self, name="bag", items=(), symbolic=False):
        c = ctx()
        n = next(c.fresh)
        self.name = f"{name}!{n}"
        if symbolic:
            self.cnt, self.total = z3.Const(f"{name}.cnt!{n}", ARR), z3.Int(f"{name}.total!{n}")
        else:
            self.cnt, self.total = z3.K(NodeS, z3.IntVal(0)), z3.IntVal(0)
        c.state["bag:" + self.name] = self
        for x in items:
            self.append(x)

    # list interface
    def append(self, x):
        if not isinstance(x, H.NodeBase):
            raise H.Unsupported("something that is not a node is appended to a list of nodes")
        self.cnt = z3.Store(self.cnt, x.t, z3.Select(self.cnt, x.t) + 1)
        self.total = z3.simplify(self.total + 1)

    def extend(self, other):
        if not isinstance(other, NodeBag):
            raise H.Unsupported("a list of nodes is extended by something that is not one")
        c = ctx()
        new = z3.Const(f"cnt!{next(c.fresh)}", ARR)
        e = z3.Const("e", NodeS)
        c.assume(z3.ForAll([e], z3.Select(new, e) == z3.Select(self.cnt, e) + z3.Select(other.cnt, e), patterns=[z3.Select(new, e)]))
        self.cnt = new
        self.total = z3.simplify(self.total + other.total)

    def __contains__(self, x):
        return ctx().decide(z3.Select(self.cnt, x.t) >= 1, "already in the list")

    def __bool__(self):
        return ctx().decide(self.total > 0, "the list is not empty")

    def length(self):
        return Rv(self.total)

    def pop(self, k=-1):
        """some node of the bag (the order is not modelled)"""
        c = ctx()
        if not c.decide(self.total > 0, "the list is not empty"):
            raise H.SymIndexError("pop from empty list")
        x = z3.Const(f"popped!{next(c.fresh)}", NodeS)
        c.assume(z3.Select(self.cnt, x) >= 1)
        self.cnt = z3.Store(self.cnt, x, z3.Select(self.cnt, x) - 1)
        self.total = z3.simplify(self.total - 1)
        return self.space.node_of(x)

    def snapshot(self):
        return (self.cnt, self.total)

    def havoc(self):
        c = ctx()
        n = next(c.fresh)
        self.cnt, self.total = z3.Const(f"cnt!{n}", ARR), z3.Int(f"total!{n}")
        e = z3.Const("e", NodeS)
        # what holds of every list: no negative count, and no item occurs more often than the list is long
        c.assume(self.total >= 0, z3.ForAll([e], z3.And(z3.Select(self.cnt, e) >= 0, z3.Select(self.cnt, e) <= self.total), patterns=[z3.Select(self.cnt, e)]))

    def __iter__(self):
        raise H.Unsupported("iteration over a list of nodes")


class BagSet:
    def __init__(self, bag):
        self.bag = bag

    def length(self):
        return Rv(self.bag.total - dups(self.bag.cnt))


def exactly_the_elements_below(bag, n, e):
    return z3.Select(bag.cnt, e) == z3.If(below(n, e), 1, 0)


def target_traversals():
    def run(sess: Session):
        sess.assumptions.append(H.TREE_ASSUMPTION)
        sess.assumptions.append("the sub-circuits of a container element hold no element of the enclosing connection tree (no object occurs twice in a circuit); "
                                "the order of the returned lists is not modelled here (C16's E1 contracts)")
        space = H.NodeSpace(["Container"], generic_element="PlainElement")
        Container = space.element_classes["Container"]
        NodeBag.space = space
        ns = H.base_namespace(space)
        ns["isinstance"] = _isinstance(space)
        ns["Container"] = Container
        base_len, base_set, base_filter = ns["len"], ns["set"], ns["filter"]
        ns["set"] = lambda x=(): BagSet(x) if isinstance(x, NodeBag) else base_set(x)
        st: Dict[str, Any] = {}
        counts = {"paths": 0}
        specs = H.LoopSpecs()
        vc = H.VC(specs, space)
        vc.factories = {"items": lambda items: NodeBag("items", items), "elements": lambda items: NodeBag("elements", items)}
        no_raise = make_no_raise("circuit/base")
        base = H.tree_axioms()

        def result_of(n_term, label):
            """stand-in for a recursive call on child connection n: a new list with every element below it exactly once"""
            c = ctx()
            check_wf(f"{label} is called on a well-formed connection", n_term)
            bag = NodeBag("sub", symbolic=True)
            e = z3.Const("e", NodeS)
            c.assume(bag.total >= 0, z3.ForAll([e], exactly_the_elements_below(bag, n_term, e), patterns=[z3.Select(bag.cnt, e)]))
            return bag

        space.Connection._get_all_items_recursive = lambda self: result_of(self.t, "_get_all_items_recursive")
        space.Connection.get_elements = lambda self, recursive=True: result_of(self.t, "get_elements")

        def fold_inv(varname):
            def inv(env):
                bag = env.loc[varname]
                n, e0 = st["n"], st["e0"]
                done = z3.And(sub(n, e0), e0 != n, br(n, e0) < env.i, is_elem(e0))
                return [("every element below a visited child is in the list exactly once, nothing else is", z3.Select(bag.cnt, e0) == z3.If(done, 1, 0)),
                        ("the list is not shorter than nothing", bag.total >= 0)]
            return inv

        for qual, var, args in (("Connection._get_all_items_recursive", "items", ()), ("Connection.get_elements", "elements", (True,))):
            label = qual
            specs.inv[(label, 1)] = fold_inv(var)
            real = H.build_function(core.find_def("circuit/base", qual), ns, vc, label=label)

            def go(c, real=real, label=label, args=args):
                counts["paths"] += 1
                t, e0 = z3.Const("node", NodeS), z3.Const("e0", NodeS)
                c.assume(wf(t), is_conn(t), z3.Not(H.is_wire(t)), H.descent(t, e0))
                c.skolems.append(e0)
                n = space.node_of(t)
                st.update(n=t, e0=e0)
                ok, out = no_raise(label, lambda: real(n, *args))
                if not ok:
                    return
                c.canary(f"{label}, at return")
                isbag = isinstance(out, NodeBag)
                c.check(f"{label} returns the list it built", z3.BoolVal(isbag), "post")
                if isbag:
                    c.check(f"{label}: every element at or below the connection is in the list exactly once, and nothing else is", exactly_the_elements_below(out, t, e0), "post")
            H.explore(sess, base, go)

        # ---- _get_elements_recursive: the work list
        def sub_elements(self):
            """what a container's sub-circuit (a connection outside the tree) contributes: none of the tree's elements"""
            c = ctx()
            bag = NodeBag("outside", symbolic=True)
            c.assume(bag.total >= 0, z3.Select(bag.cnt, st["e0"]) == 0)
            e = z3.Const("e", NodeS)
            c.assume(z3.ForAll([e], z3.And(z3.Select(bag.cnt, e) >= 0, z3.Implies(z3.Select(bag.cnt, e) >= 1, is_elem(e))), patterns=[z3.Select(bag.cnt, e)]))
            return bag
        space.Connection._get_elements_recursive = sub_elements

        class SubcircuitValues:
            """`element.get_subcircuits().values()` filtered for None: connections outside the tree, as a bag of connections"""

        def get_subcircuits(self):
            c = ctx()
            outer = self

            class D(dict):
                def values(self_inner):
                    bag = NodeBag("subcircuits", symbolic=True)
                    e = z3.Const("e", NodeS)
                    c.assume(bag.total >= 0, z3.ForAll([e], z3.And(z3.Select(bag.cnt, e) >= 0, z3.Implies(z3.Select(bag.cnt, e) >= 1, z3.And(is_conn(e), z3.Not(sub(st["n"], e))))), patterns=[z3.Select(bag.cnt, e)]))
                    return bag
            return D()
        space.Element.get_subcircuits = get_subcircuits

        def s_filter(f, x):
            if isinstance(x, NodeBag):
                return x            # (`connection is not None`: the bag holds connections only)
            return base_filter(f, x)
        ns["filter"] = s_filter
        # type(self).__bases__[0] is the Connection class
        import types
        ns["type"] = lambda x: types.SimpleNamespace(__bases__=(space.Connection,)) if isinstance(x, space.Connection) else space.sym_type(x)
        label = "Connection._get_elements_recursive"

        @specs.add(label, "w1")
        def _(env):
            q, el = env.loc["queue"], env.loc["elements"]
            n, e0 = st["n"], st["e0"]
            e = z3.Const("e", NodeS)
            return [("an element of the tree is in the result or still queued, exactly once in total", z3.Implies(below(n, e0), z3.Select(el.cnt, e0) + z3.Select(q.cnt, e0) == 1)),
                    ("the result holds elements only", z3.ForAll([e], z3.Implies(z3.Select(el.cnt, e) >= 1, is_elem(e)), patterns=[z3.Select(el.cnt, e)])),
                    ("the result holds no element twice", z3.ForAll([e], z3.And(z3.Select(el.cnt, e) >= 0, z3.Select(el.cnt, e) <= 1), patterns=[z3.Select(el.cnt, e)])),
                    ("the queue holds elements and outside connections only, no negative counts",
                     z3.ForAll([e], z3.And(z3.Select(q.cnt, e) >= 0, z3.Implies(z3.Select(q.cnt, e) >= 1, z3.Or(is_elem(e), z3.And(is_conn(e), z3.Not(sub(n, e)))))), patterns=[z3.Select(q.cnt, e)])),
                    ("lengths are not negative", z3.And(q.total >= 0, el.total >= 0))]
        real_r = H.build_function(core.find_def("circuit/base", label), ns, vc, label=label)

        def go_r(c):
            counts["paths"] += 1
            t, e0 = z3.Const("node", NodeS), z3.Const("e0", NodeS)
            e = z3.Const("e", NodeS)
            c.assume(wf(t), is_conn(t), z3.Not(H.is_wire(t)), H.descent(t, e0))
            # a set has one member per distinct item: no duplicates <=> len(set(x)) == len(x)
            a = z3.Const("a", ARR)
            c.assume(z3.ForAll([a], dups(a) >= 0, patterns=[dups(a)]))
            c.skolems.append(e0)
            n = space.node_of(t)
            st.update(n=t, e0=e0)
            ok, out = no_raise(label + " (tree without repeated objects)", lambda: real_r(n))
            if not ok:
                return
            c.canary(f"{label}, at return")
            isbag = isinstance(out, NodeBag)
            c.check(f"{label} returns the list it built", z3.BoolVal(isbag), "post")
            if isbag:
                c.check(f"{label}: every element of the connection tree is in the result exactly once", z3.Implies(below(t, e0), z3.Select(out.cnt, e0) == 1), "post")
                c.check(f"{label}: the result holds elements only, none of them twice", z3.And(z3.Select(out.cnt, e0) <= 1, z3.Implies(z3.Select(out.cnt, e0) >= 1, is_elem(e0))), "post")
        # `len(elements) != len(set(elements))`: with no element twice the two lengths agree
        orig_len = ns["len"]

        def s_len(x):
            if isinstance(x, BagSet):
                c = ctx()
                e = z3.Const("e", NodeS)
                nodup = z3.ForAll([e], z3.Select(x.bag.cnt, e) <= 1, patterns=[z3.Select(x.bag.cnt, e)])
                c.assume(z3.Implies(nodup, dups(x.bag.cnt) == 0))
                return x.length()
            return orig_len(x)
        ns["len"] = s_len
        real_r = H.build_function(core.find_def("circuit/base", label), ns, vc, label=label)
        H.explore(sess, base, go_r)
        sess.check("cover", [], z3.BoolVal(counts["paths"] >= 10), 0, label=f"paths executed: {counts['paths']}")
    return ("circuit/base:every element of a connection tree is listed exactly once (_get_all_items_recursive, get_elements, _get_elements_recursive)", "circuit/base", "Connection._get_elements_recursive", run)


def targets():
    return [target_traversals()]
