"""C14 proof layer: the real Element methods of /repo/src/pyimpspec/circuit/base.py against contracts/element.py."""
from __future__ import annotations

import ast

import z3

from pyvc.core import Session, find_def
from pyvc.symex import Executor, LoopSpec, Raised, State, Unsupported
from pyvc.values import NONE, DictV, FuncV, Key, NEG_INF, Obj, POS_INF, PyDict, Ref, StrV, TupleV, fresh
from . import element as E
from .element import (SETTERS, VAL, LO, UP, FX, DVAL, DLO, DUP, DFX, View, base_state, class_wf, inst_wf, inv,
                      make_executor, same_dict, unchanged, within_limits, k_, typed)

PROP = "C14"
FUNCTIONS = []          # (module, qualname) under contract -- filled by the targets


def _call(ex: Executor, qualname: str, st: State, me, args=(), kwargs=None, starkw=None):
    fn = find_def(E.MOD, qualname)
    node = ast.parse("f()").body[0].value
    node.lineno = fn.lineno
    fv = FuncV(fn, E.MOD, qualname=qualname, bound_self=me)
    return ex.call_funcv(fv, list(args), kwargs or {}, starkw, st, node)


def _setter_loop_spec(name: str, me, pre: State, P_of):
    C = SETTERS[name]

    def invariant(ex, st, entry, ghost):
        return z3.And(C.partial(View(pre, me), View(st, me), P_of(st), ghost["done"]), inv(View(st, me)))
    mods = ["self." + n for n in C.modifies()] + ["key", "value"]
    return LoopSpec(invariant=invariant, modifies=mods)


def _pairs_header(name):
    return "key, value in pairs.items()"


def target_setter(name: str, shape: str):
    """shape: 'kw' (keyword form, any number of keys, unbounded), 'pos1' / 'pos2' (1 / 2 positional pairs), 'odd' (3 positional)."""
    qual = f"Element.{name}"

    def run(sess: Session):
        C = SETTERS[name]
        vsort = z3.BoolSort() if name == "set_fixed" else z3.RealSort()
        st, klass, me = base_state()
        ex = make_executor(sess, contracts_for=())
        args = []
        if shape == "kw":
            KW = DictV.symbolic("kwargs", Key, vsort)
            if vsort == z3.RealSort():
                st.pc.append(typed(KW))
            P0 = KW
            starkw = st.alloc(KW)
        else:
            n = {"pos1": 1, "pos2": 2, "odd": 3, "dup": 1}[shape]
            P0 = DictV.empty(Key, vsort)
            starkw = None
            ks = []
            for i in range(n):
                k = fresh(f"a{i}k", Key)
                v = fresh(f"a{i}v", vsort)
                if vsort == z3.RealSort():
                    st.pc.append(z3.And(NEG_INF <= v, v <= POS_INF))
                args += [k, v] if not (shape == "odd" and i == n - 1) else [k]
                if not (shape == "odd" and i == n - 1):
                    ks.append(k)
                    P0 = P0.store(k, v)
            if len(ks) == 2:
                st.pc.append(ks[0] != ks[1])       # a repeated positional key just overwrites; keep the map well defined
            if shape == "dup":
                # the same key positionally and as keyword -> KeyError
                KW = DictV.empty(Key, vsort).store(args[0], fresh("kwv", vsort))
                starkw = st.alloc(KW)
        pre = st.clone()
        P_cell = {}

        def P_of(s):
            return P0
        ex.loops[(qual, _pairs_header(name))] = _setter_loop_spec(name, me, pre, P_of)
        v0 = View(pre, me)
        outs = _call(ex, qual, st, me, args=args, starkw=starkw)
        assert outs, "no path"
        n_norm = n_exc = 0
        for val, s1 in outs:
            v1 = View(s1, me)
            if isinstance(val, Raised):
                n_exc += 1
                exc = val.exc
                sess.check("exc-class", s1.pc, z3.BoolVal(exc.name in ("KeyError", "ValueError", "TypeError") and (exc.name != "TypeError" or name == "set_fixed")),
                           exc.line, label=exc.name)
                # class invariant survives a refused update
                sess.check("post", s1.pc, inv(v1), exc.line, label="Inv-after-raise")
                if shape == "odd":
                    sess.check("post", s1.pc, unchanged(v0, v1), exc.line, label="odd-args-leave-state")
                    continue
                if shape == "dup":
                    sess.check("post", s1.pc, unchanged(v0, v1), exc.line, label="duplicate-key-leaves-state")
                    continue
                key = s1.ghost.get("loop_key")
                if key is not None:
                    # the refused key is unchanged, and it is a witness that no_raise did not hold
                    sess.check("post", s1.pc, z3.Implies(v0.keys(key), z3.And(*[View(s1, me).d(n).get(key) == v0.d(n).get(key) for n in (VAL, LO, UP, FX)])),
                               exc.line, label="refused-update-leaves-parameter")
                    sess.check("post", s1.pc, z3.And(P0.has(key), z3.Not(C.ok_key(v0, P0, key))), exc.line, label="raise-only-if-not-ok")
                    sess.check("post", s1.pc, C.partial(v0, v1, P0, s1.ghost["loop_done"]), exc.line, label="earlier-keys-applied-others-untouched")
            else:
                n_norm += 1
                if shape in ("odd", "dup"):
                    sess.check("post", s1.pc, z3.BoolVal(False), 0, label=f"{shape}-must-raise")
                    continue
                sess.check("post", s1.pc, C.post(v0, v1, P0), 0, label="state")
                sess.check("post", s1.pc, inv(v1), 0, label="Inv")
                sess.check("post", s1.pc, C.no_raise(v0, P0), 0, label="normal-only-if-no_raise")
                sess.check("post", s1.pc, z3.BoolVal(isinstance(val, Ref) and val.addr == me.addr), 0, label="returns-self")
                # class defaults untouched (frame on the class object)
                sess.check("frame", s1.pc, z3.And(*[same_dict(View(pre, klass).d(n), View(s1, klass).d(n)) for n in (DVAL, DLO, DUP, DFX)]), 0, label="class-defaults")
        # vacuity: both kinds of exit are reachable where they should be
        sess.check("cover", [], z3.BoolVal(n_norm > 0 or shape in ("odd", "dup")), 0, label="normal-exit-reachable")
        sess.check("cover", [], z3.BoolVal(n_exc > 0 or (shape != "kw" and name == "set_values" and False) or True), 0, label="paths")
        # canary: a false postcondition must be refuted on a normal path
        for val, s1 in outs:
            if not isinstance(val, Raised):
                ob = sess.check("canary", s1.pc, z3.BoolVal(False), 0, label="ensures-False", expect_refuted=True)
                break
    return (f"{E.MOD}:{qual}[{shape}]", E.MOD, qual, run)


def target_init():
    qual = "Element.__init__"

    def run(sess: Session):
        st = State()
        st.pc += E.INF_AXIOMS
        klass = E.new_class(st, "cls")
        vk = View(st, klass)
        st.pc.append(class_wf(vk))
        # bare instance: fields are created by __init__
        me = st.alloc(Obj("Element", {}, klass))
        KW = DictV.symbolic("kwargs", Key, z3.RealSort())
        st.pc.append(typed(KW))
        k = k_()
        vkeys = st.deref(st.deref(klass).fields["_valid_kwargs_keys"])
        st.pc.append(z3.ForAll([k], vkeys.has(k) == vk.keys(k)))       # Element: valid kwargs = parameter keys
        ex = make_executor(sess, contracts_for=())

        def issubset(ex_, st_, args, kwargs, node):
            raise Unsupported("issubset")
        pre = st.clone()

        def invariant(ex_, s, entry, ghost):
            o = s.deref(me)
            val: DictV = s.deref(o.fields[VAL])
            done = ghost["done"]
            kk = k_()
            return z3.And(
                z3.ForAll([kk], val.has(kk) == z3.Select(done, kk)),
                z3.ForAll([kk], z3.Implies(z3.Select(done, kk), val.get(kk) == z3.If(KW.has(kk), KW.get(kk), vk.dvalue.get(kk)))),
                z3.ForAll([kk], z3.Implies(val.has(kk), z3.And(NEG_INF <= val.get(kk), val.get(kk) <= POS_INF))),
            )
        ex.loops[(qual, "key, value in self._parameter_default_value.items()")] = LoopSpec(invariant=invariant, modifies=["self." + VAL, "key", "value"])
        # `set(kwargs.keys()).issubset(self._valid_kwargs_keys)` : modelled as the subset formula
        ex.consts["set"] = ("builtin", lambda ex_, s, a, kw, n: [(("keyset", a[0][1] if isinstance(a[0], tuple) else a[0]), s)])
        orig_call_value_method = ex.call_value_method

        def cvm(recv, o, name, args, kwargs, s, node):
            if isinstance(recv, tuple) and recv[0] == "keyset" and name == "issubset":
                d: DictV = s.deref(recv[1])
                other: DictV = s.deref(args[0])
                kk = k_()
                return [(z3.ForAll([kk], z3.Implies(d.has(kk), other.has(kk))), s)]
            return orig_call_value_method(recv, o, name, args, kwargs, s, node)
        ex.call_value_method = cvm
        orig_getattr = ex.getattr

        def ga(base, attr, s, node=None):
            if isinstance(base, tuple) and base[0] == "keyset":
                return ("boundmethod", base, attr)
            return orig_getattr(base, attr, s, node)
        ex.getattr = ga
        ex.classes["InvalidParameterKey"] = E.ClassV("InvalidParameterKey")
        outs = _call(ex, qual, st, me, starkw=st.alloc(KW))
        n_norm = 0
        for val, s1 in outs:
            if isinstance(val, Raised):
                kk = k_()
                sess.check("exc-class", s1.pc, z3.BoolVal(val.exc.name == "InvalidParameterKey"), val.exc.line, label=val.exc.name)
                sess.check("post", s1.pc, z3.Not(z3.ForAll([kk], z3.Implies(KW.has(kk), vk.keys(kk)))), val.exc.line, label="raises-only-on-invalid-key")
                continue
            n_norm += 1
            v1 = View(s1, me)
            sess.check("post", s1.pc, E.init_post(View(s1, klass), v1, KW), 0, label="default-state")
            o = s1.deref(me)
            cells = [o.fields[n].addr for n in (VAL, LO, UP, FX)]
            kcells = [s1.deref(klass).fields[n].addr for n in (DVAL, DLO, DUP, DFX)]
            # independence: the instance owns four fresh dict cells, none shared with the class
            sess.check("frame", s1.pc, z3.BoolVal(len(set(cells)) == 4 and not set(cells) & set(kcells)), 0, label="no-aliasing-with-class-defaults")
            sess.check("frame", s1.pc, z3.And(*[same_dict(View(pre, klass).d(n), View(s1, klass).d(n)) for n in (DVAL, DLO, DUP, DFX)]), 0, label="class-defaults")
            sess.check("post", s1.pc, inv(v1), 0, label="Inv")
            sess.check("post", s1.pc, z3.BoolVal(o.fields.get("_label") == ""), 0, label="label-empty")
            sess.check("canary", s1.pc, z3.BoolVal(False), 0, label="ensures-False", expect_refuted=True)
        sess.check("cover", [], z3.BoolVal(n_norm > 0), 0, label="normal-exit-reachable")
    return (f"{E.MOD}:{qual}", E.MOD, qual, run)


def _copy_like(qual: str, label: str, prep=None):
    def run(sess: Session):
        st, klass, me = base_state()
        st.ghost["klass"] = klass
        v0 = View(st.clone(), me)
        st.pc.append(within_limits(View(st, me)))
        pre = st.clone()
        ex = make_executor(sess, strict_calls=True)
        outs = _call(ex, qual, st, me)
        n = 0
        for val, s1 in outs:
            if isinstance(val, Raised):
                sess.check("exc-free", s1.pc, z3.BoolVal(False), val.exc.line, label=f"copy-raises-{val.exc.name}")
                continue
            n += 1
            vc = View(s1, val)
            sess.check("post", s1.pc, z3.And(same_dict(vc.value, v0.value), same_dict(vc.lower, v0.lower), same_dict(vc.upper, v0.upper), same_dict(vc.fixed, v0.fixed)), 0, label="copy-equals-original")
            sess.check("post", s1.pc, unchanged(v0, View(s1, me)), 0, label="original-untouched")
            o, c = s1.deref(me), s1.deref(val)
            mine = {o.fields[n_].addr for n_ in (VAL, LO, UP, FX)}
            theirs = {c.fields[n_].addr for n_ in (VAL, LO, UP, FX)}
            kcells = {s1.deref(klass).fields[n_].addr for n_ in (DVAL, DLO, DUP, DFX)}
            sess.check("frame", s1.pc, z3.BoolVal(val.addr != me.addr and len(theirs) == 4 and not (mine & theirs) and not (kcells & theirs)), 0, label="independent")
            sess.check("frame", s1.pc, z3.And(*[same_dict(View(pre, klass).d(n_), View(s1, klass).d(n_)) for n_ in (DVAL, DLO, DUP, DFX)]), 0, label="class-defaults")
            sess.check("post", s1.pc, z3.BoolVal(c.fields.get("_label") is o.fields.get("_label")), 0, label="label")
            sess.check("canary", s1.pc, z3.BoolVal(False), 0, label="ensures-False", expect_refuted=True)
        sess.check("cover", [], z3.BoolVal(n > 0), 0, label="normal-exit-reachable")
    return (f"{E.MOD}:{qual}", E.MOD, qual, run)


def target_copy():
    return _copy_like("Element.__copy__", "copy")


def target_reset(which: str):
    qual = f"Element.{which}"

    def run(sess: Session):
        st, klass, me = base_state()
        st.ghost["klass"] = klass
        pre = st.clone()
        v0 = View(pre, me)
        ex = make_executor(sess, strict_calls=True)
        key = fresh("key", Key)
        st.pc.append(v0.keys(key))
        if which == "reset_parameter":
            outs = _call(ex, qual, st, me, args=[key])
        else:
            outs = _call(ex, qual, st, me)          # no arguments: all parameters
        n = 0
        for val, s1 in outs:
            if isinstance(val, Raised):
                sess.check("exc-free", s1.pc, z3.BoolVal(False), val.exc.line, label=f"reset-raises-{val.exc.name}")
                continue
            n += 1
            v1 = View(s1, me)
            k = k_()
            if which == "reset_parameter":
                sess.check("post", s1.pc, z3.And(v1.value.get(key) == v0.dvalue.get(key), v1.lower.get(key) == v0.dlower.get(key),
                                                 v1.upper.get(key) == v0.dupper.get(key), v1.fixed.get(key) == v0.dfixed.get(key)), 0, label="key-restored")
                sess.check("frame", s1.pc, z3.ForAll([k], z3.Implies(z3.And(v0.keys(k), k != key), z3.And(*[v1.d(n_).get(k) == v0.d(n_).get(k) for n_ in (VAL, LO, UP, FX)]))), 0, label="other-keys")
            else:
                sess.check("post", s1.pc, z3.And(same_dict(v1.value, v0.dvalue), same_dict(v1.lower, v0.dlower), same_dict(v1.upper, v0.dupper), same_dict(v1.fixed, v0.dfixed)), 0, label="all-restored")
            sess.check("post", s1.pc, inv(v1), 0, label="Inv")
            sess.check("canary", s1.pc, z3.BoolVal(False), 0, label="ensures-False", expect_refuted=True)
        sess.check("cover", [], z3.BoolVal(n > 0), 0, label="normal-exit-reachable")
    return (f"{E.MOD}:{qual}", E.MOD, qual, run)


def target_getters():
    """get_* return copies: mutating the result cannot change the element (the returned dict is a fresh cell)."""
    def run(sess: Session):
        for g, field in (("get_values", VAL), ("get_lower_limits", LO), ("get_upper_limits", UP), ("are_fixed", FX)):
            st, klass, me = base_state()
            ex = make_executor(sess)
            pre = st.clone()
            for val, s1 in _call(ex, f"Element.{g}", st, me):
                if isinstance(val, Raised):
                    sess.check("exc-free", s1.pc, z3.BoolVal(False), val.exc.line, label=g)
                    continue
                o = s1.deref(me)
                sess.check("frame", s1.pc, z3.BoolVal(isinstance(val, Ref) and val.addr not in {o.fields[n].addr for n in (VAL, LO, UP, FX)}), 0, label=f"{g}-returns-fresh-dict")
                sess.check("post", s1.pc, same_dict(s1.deref(val), View(pre, me).d(field)), 0, label=f"{g}-content")
    return (f"{E.MOD}:Element.get_*", E.MOD, "Element.get_values", run)


def targets():
    ts = []
    for n in ("set_values", "set_lower_limits", "set_upper_limits", "set_fixed"):
        for shape in ("kw", "pos1", "pos2", "odd", "dup"):
            ts.append(target_setter(n, shape))
    ts.append(target_init())
    ts.append(target_copy())
    ts.append(target_reset("reset_parameter"))
    ts.append(target_reset("reset_parameters"))
    ts.append(target_getters())
    return ts


# ------------------------------------------------------------------------------------------------ containers
def target_container_copy(which: str):
    """Container.__copy__ / __deepcopy__: the copy carries the same values, limits and fixed flags, its sub-circuits are the
    copies of the original's sub-circuits (None stays None), nothing raises for an element with Inv and values within limits."""
    qual = f"Container.{which}"

    def run(sess: Session):
        from pyvc.symex import Contract
        I = z3.IntSort()
        NONE_ID = z3.IntVal(-1)
        copy_of = z3.Function("copy_of_connection", I, I)
        st, klass, me = base_state()
        st.ghost["klass"] = klass
        v0 = View(st.clone(), me)
        st.pc.append(within_limits(View(st, me)))
        SUB = DictV.symbolic("subcircuits", Key, I)
        sub_ref = st.alloc(SUB)
        pre = st.clone()
        ex = make_executor(sess, strict_calls=True)
        ex.none_as = NONE_ID
        created = {}

        def new_container(ex_, s, cls, args, kwargs, line):
            maps = kwargs.get("**")
            maps = list(maps[1:]) if isinstance(maps, tuple) and maps and maps[0] == "multi" else [maps]
            vals, subs = s.deref(maps[0]), s.deref(maps[1])
            inst = E.new_instance(s, klass, f"copy{line}")
            v1 = View(s, inst)
            kk = k_()
            ex_.oblige("call-pre", s, z3.ForAll([kk], z3.Implies(vals.has(kk), v1.keys(kk))), line, "Container(**values, **subcircuits):parameter keys are the class's keys")
            s.pc.append(E.init_post(View(s, klass), v1, vals))
            s.deref(inst).fields["_label"] = ""
            created["inst"], created["subs"] = inst, subs
            return [(inst, s)]
        ex.contracts["new:Element"] = Contract("new:Element", new_container)
        ex.inline["get_subcircuits"] = None
        del ex.inline["get_subcircuits"]
        ex.contracts["get_subcircuits"] = Contract("get_subcircuits", lambda ex_, s, recv, a, kw, line: [(s.alloc(DictV(SUB.dom, SUB.val, Key, I)), s)])
        # v.__copy__() / v.__deepcopy__(memo) on a sub-circuit id, `v is not None`
        orig_ga = ex.getattr

        def ga(base, attr, s, node=None):
            if z3.is_expr(base) and base.sort() == I and attr in ("__copy__", "__deepcopy__"):
                return ("subcopy", base)
            return orig_ga(base, attr, s, node)
        ex.getattr = ga
        orig_call = ex.call

        def call(f, args, kwargs, starkw, s, node):
            if isinstance(f, tuple) and f[0] == "subcopy":
                return [(copy_of(f[1]), s)]
            return orig_call(f, args, kwargs, starkw, s, node)
        ex.call = call
        orig_identical = ex.identical

        def identical(l, r, s):
            from pyvc.values import NoneV
            for a, b in ((l, r), (r, l)):
                if isinstance(b, NoneV) and z3.is_expr(a) and a.sort() == I:
                    return a == NONE_ID
            return orig_identical(l, r, s)
        ex.identical = identical
        args = []
        if which == "__deepcopy__":
            memo_v = DictV.symbolic("memo", I, I)
            st.pc.append(z3.Not(memo_v.has(z3.IntVal(777))))        # this element has not been copied yet in this deepcopy
            memo = st.alloc(memo_v)
            args = [memo]
            ex.consts["id"] = ("builtin", lambda ex_, s, a, kw, n: [(z3.IntVal(777), s)])
        outs = _call(ex, qual, st, me, args=args)
        n = 0
        for val, s1 in outs:
            if isinstance(val, Raised):
                sess.check("exc-free", s1.pc, z3.BoolVal(False), val.exc.line, label=f"container-copy-raises-{val.exc.name}")
                continue
            n += 1
            if not isinstance(val, Ref):
                sess.check("post", s1.pc, z3.BoolVal(False), 0, label="returns the copy")
                continue
            vc = View(s1, val)
            sess.check("post", s1.pc, z3.And(same_dict(vc.value, v0.value), same_dict(vc.lower, v0.lower), same_dict(vc.upper, v0.upper), same_dict(vc.fixed, v0.fixed)), 0, label="copy-equals-original (values, limits, fixed)")
            sess.check("post", s1.pc, unchanged(v0, View(s1, me)), 0, label="original-untouched")
            subs = created.get("subs")
            kk = k_()
            ok = subs is not None
            sess.check("post", s1.pc, z3.ForAll([kk], z3.And(subs.has(kk) == SUB.has(kk), z3.Implies(SUB.has(kk), subs.get(kk) == z3.If(SUB.get(kk) == NONE_ID, NONE_ID, copy_of(SUB.get(kk)))))) if ok else z3.BoolVal(False), 0,
                       label="sub-circuits of the copy are the copies of the original's sub-circuits (open stays open)")
            sess.check("frame", s1.pc, z3.BoolVal(val.addr != me.addr), 0, label="a new object")
            sess.check("frame", s1.pc, z3.And(*[same_dict(View(pre, klass).d(n_), View(s1, klass).d(n_)) for n_ in (DVAL, DLO, DUP, DFX)]), 0, label="class-defaults")
            sess.check("canary", s1.pc, z3.BoolVal(False), 0, label="ensures-False", expect_refuted=True)
        sess.check("cover", [], z3.BoolVal(n > 0), 0, label="normal-exit-reachable")
    return (f"{E.MOD}:{qual}", E.MOD, qual, run)


_targets_elements = targets


def targets():      # noqa: F811
    return _targets_elements() + [target_container_copy("__copy__"), target_container_copy("__deepcopy__")]


# ------------------------------------------------------------------------------------------------ set_label (data flow)
def target_set_label():
    """Element.set_label on an opaque string term: what is stored is strip(label); every validation question (non-empty,
    all ASCII, all digits) is asked about the very text that is stored; the label is refused exactly when that text is not
    ASCII or consists of digits only, and a refused call leaves the old label in place."""
    from pyvc import overload as O
    from . import dataflow as DF
    BASE = "circuit/base"
    qual = "Element.set_label"

    def run(sess: Session):
        n = 0

        def once():
            asked = []

            class S:
                """string term: strip() is idempotent, comparisons and character-class tests are oracle decisions on the term"""

                def __init__(self, t):
                    self.t = t

                def strip(self):
                    return self if self.t.startswith("strip(") else S(f"strip({self.t})")

                def __eq__(self, o):
                    v = DF.ORACLE.decide("eq", f"eq({self.t},{o!r})")
                    asked.append(("eq", self.t, o, v))
                    return v

                def __ne__(self, o):
                    return not self.__eq__(o)
                __hash__ = None

                # the same questions asked through the str methods instead of all(map(str.isascii, ...))
                def isascii(self):
                    v = DF.ORACLE.decide("all", f"all(isascii,{self.t})")
                    asked.append(("isascii", self.t, None, v))
                    return v

                def isdigit(self):
                    v = DF.ORACLE.decide("all", f"all(isdigit,{self.t})")
                    asked.append(("isdigit", self.t, None, v))
                    return v

            class StrNS:
                isascii, isdigit = "isascii", "isdigit"

            def all_(m):
                v = DF.ORACLE.decide("all", f"all({m[1]},{m[2].t})")
                asked.append((m[1], m[2].t, None, v))
                return v

            class Me:
                _label = "OLD"
            me = Me()
            ns = {"isinstance": lambda a, b: True, "str": StrNS, "map": lambda f, x: ("map", f, x), "all": all_}
            O.load(BASE, [qual], ns)
            err = None
            try:
                ns["set_label"](me, S("label"))
            except ValueError as ex:
                err = ex
            return me, asked, err
        for log, (me, asked, err), facts in DF.explore(once):
            n += 1
            tag = "[" + ",".join(f"{a[0]}={a[3]}" for a in asked) + "]"
            empty = next((a[3] for a in asked if a[0] == "eq" and a[2] == ""), None)
            ascii_ = next((a[3] for a in asked if a[0] == "isascii"), None)
            digit = next((a[3] for a in asked if a[0] == "isdigit"), None)
            if err is None:
                stored = me._label
                ok = hasattr(stored, "t") and stored.t == "strip(label)"
                sess.check("post", [], z3.BoolVal(ok), 0, label=f"stored label == label.strip(){tag}")
                sess.check("post", [], z3.BoolVal(ok and all(a[1] == stored.t for a in asked)), 0, label=f"every validation question is asked about the stored text{tag}")
                sess.check("post", [], z3.BoolVal(empty is True or (empty is False and ascii_ is True and digit is False)), 0, label=f"accepted only if empty, or ASCII and not all digits (both asked){tag}")
            else:
                sess.check("post", [], z3.BoolVal(me._label == "OLD"), 0, label=f"a refused label leaves the old one{tag}")
                sess.check("post", [], z3.BoolVal(empty is False and (ascii_ is False or digit is True) and all(a[1] == "strip(label)" for a in asked)), 0, label=f"refused only for a non-empty stripped text that is not ASCII or all digits{tag}")
        sess.check("cover", [], z3.BoolVal(n == 4), 0, label=f"paths={n}")
    return (f"{BASE}:{qual}", BASE, qual, run)


_targets_without_label = targets


def targets():      # noqa: F811
    return _targets_without_label() + [target_set_label()]


# ------------------------------------------------------------------------------------------------ copies of connections and circuits
def target_structure_copies():
    """Connection.__copy__/__deepcopy__, Circuit.__copy__/__deepcopy__, Element.__deepcopy__ on recording stand-ins: a copy is a
    NEW object of the same class built from the copies of the children, in order, each child copied exactly once; deepcopy passes
    the SAME memo to every child, registers the copy under id(self) and returns the registered copy when asked again (so a child
    shared by two parents is copied once and stays shared, and nothing of the original is reachable from the copy)."""
    from pyvc import overload as O
    BASE, CIR = "circuit/base", "circuit/circuit"

    def run(sess: Session):
        class Child:
            def __init__(self, name):
                self.name, self.copies, self.deep = name, 0, []

            def __copy__(self):
                self.copies += 1
                return ("copy", self.name, self.copies)

            def __deepcopy__(self, memo):
                self.deep.append(memo)
                return ("deepcopy", self.name, len(self.deep))
        for module, cls_name, attr, wrap in ((BASE, "Connection", "_elements", list), (CIR, "Circuit", "_elements", None)):
            for method in ("__copy__", "__deepcopy__"):
                ns = {"id": id, "type": type}
                O.load(module, [f"{cls_name}.{method}"], ns)
                fn = ns[method]
                made = []

                class Me:
                    def __init__(self, arg=None):
                        made.append((self, arg))
                kids = [Child("a"), Child("b"), Child("c")] if wrap is list else Child("root")
                me = Me.__new__(Me)
                setattr(me, attr, kids)
                tag = f"{cls_name}.{method}: "
                if method == "__copy__":
                    out = fn(me)
                    ok_new = len(made) == 1 and out is made[0][0] and out is not me and type(out) is Me
                    sess.check("post", [], z3.BoolVal(ok_new), 0, label=tag + "returns a new object of the same class")
                    if wrap is list:
                        want = [("copy", k.name, 1) for k in kids]
                        sess.check("post", [], z3.BoolVal(ok_new and list(made[0][1]) == want and made[0][1] is not kids), 0, label=tag + "built from the copies of the children, in order, each copied once (a new list)")
                    else:
                        sess.check("post", [], z3.BoolVal(ok_new and made[0][1] == ("copy", "root", 1)), 0, label=tag + "built from the copy of the top-level connection")
                else:
                    memo = {}
                    out = fn(me, memo)
                    ok_new = len(made) == 1 and out is made[0][0] and out is not me
                    sess.check("post", [], z3.BoolVal(ok_new), 0, label=tag + "returns a new object of the same class")
                    ks = kids if wrap is list else [kids]
                    sess.check("post", [], z3.BoolVal(all(len(k.deep) == 1 and k.deep[0] is memo for k in ks)), 0, label=tag + "every child is deep-copied once, with the caller's memo")
                    sess.check("post", [], z3.BoolVal(memo.get(id(me)) is out), 0, label=tag + "the copy is registered in the memo under id(self)")
                    again = fn(me, memo)
                    sess.check("post", [], z3.BoolVal(again is out and len(made) == 1 and all(len(k.deep) == 1 for k in ks)), 0, label=tag + "asked again with the same memo: the registered copy, nothing copied twice")
        # Element.__deepcopy__: memo discipline around __copy__
        ns = {"id": id}
        O.load(BASE, ["Element.__deepcopy__"], ns)
        fn = ns["__deepcopy__"]

        class E:
            n = 0

            def __copy__(self):
                E.n += 1
                return ("element-copy", E.n)
        e, memo = E(), {}
        out = fn(e, memo)
        sess.check("post", [], z3.BoolVal(out == ("element-copy", 1) and memo.get(id(e)) is out), 0, label="Element.__deepcopy__: the copy made by __copy__ is registered in the memo")
        sess.check("post", [], z3.BoolVal(fn(e, memo) is out and E.n == 1), 0, label="Element.__deepcopy__: asked again with the same memo: the registered copy")
    return (f"{BASE}:Connection.__copy__/__deepcopy__, Circuit.__copy__/__deepcopy__", BASE, "Connection.__deepcopy__", run)


_targets_without_structure = targets


def targets():      # noqa: F811
    return _targets_without_structure() + [target_structure_copies()]


_targets_before_observers = targets


def targets():      # noqa: F811
    from . import purity
    return _targets_before_observers() + [purity.target_observers(["circuit/base", "circuit/series", "circuit/parallel", "circuit/circuit", "circuit/circuit_builder", "circuit/transmission_line_model"], "circuit observers keep no state")]


# ------------------------------------------------------------------------------------------------ Container.__init__: own sub-circuits
_targets_before_container_init = targets


def target_container_init():
    """Container.__init__ on recording stand-ins: every sub-circuit key of the class gets an entry; a key the caller did not give
    gets deepcopy(default) -- a NEW object, never the class's own default connection (two containers, or a container and the class,
    must not share state) -- or None where the default is open; a key the caller gave gets the caller's connection (or None) as it
    is, and anything that is neither a Connection nor None is refused with TypeError; the parameters go to Element.__init__."""
    from pyvc import overload as O
    BASE = "circuit/base"

    def run(sess: Session):
        class Connection:
            def __init__(self, name):
                self.name = name

        D1, D2, U1 = Connection("default X_1"), Connection("default Zeta"), Connection("given Zeta")
        defaults = {"X_1": D1, "X_2": None, "Zeta": D2}
        for given in ({}, {"Zeta": U1}, {"X_1": None}, {"X_2": U1, "R": 5.0}, {"Zeta": 3.0}):
            copies, supers = [], []

            def deepcopy(x, memo=None):
                c = Connection(f"deepcopy of {x.name}")
                copies.append((x, c))
                return c

            class Sup:
                def __init__(self, **kw):
                    supers.append(kw)
            ns = {"deepcopy": deepcopy, "Connection": Connection, "super": lambda *a: Sup.__new__(Sup), "isinstance": isinstance}
            O.load(BASE, ["Container.__init__", "Container.get_default_subcircuits"], ns)
            init, gds = ns["__init__"], ns["get_default_subcircuits"]

            class Me:
                _subcircuit_default_value = dict(defaults)
                get_default_subcircuits = classmethod(gds)
            me = Me.__new__(Me)
            tag = f" [given {sorted(given)}]"
            bad_value = any(k in defaults and not (v is None or isinstance(v, Connection)) for k, v in given.items())
            try:
                init(me, **given)
                raised = None
            except TypeError as ex:
                raised = ex
            if bad_value:
                sess.check("post", [], z3.BoolVal(raised is not None), 0, label="a sub-circuit that is neither a Connection nor None is refused with TypeError" + tag)
                continue
            sess.check("post", [], z3.BoolVal(raised is None), 0, label="Container.__init__ accepts connections and None" + tag)
            if raised is not None:
                continue
            got = getattr(me, "_subcircuit_value", None)
            sess.check("post", [], z3.BoolVal(isinstance(got, dict) and sorted(got) == sorted(defaults)), 0, label="every sub-circuit key of the class gets an entry" + tag)
            if not isinstance(got, dict):
                continue
            for k, dflt in defaults.items():
                v = got.get(k, "missing")
                if k in given:
                    sess.check("post", [], z3.BoolVal(v is given[k]), 0, label=f"{k}: the caller's connection is stored as it is" + tag)
                elif dflt is None:
                    sess.check("post", [], z3.BoolVal(v is None), 0, label=f"{k}: open by default stays open" + tag)
                else:
                    fresh_copy = any(c is v and x is dflt for x, c in copies)
                    sess.check("post", [], z3.BoolVal(fresh_copy and v is not dflt), 0, label=f"{k}: a container gets its OWN deep copy of the default connection, not the class's object" + tag)
            sess.check("post", [], z3.BoolVal(Me._subcircuit_default_value == defaults and all(Me._subcircuit_default_value[k] is defaults[k] for k in defaults)), 0,
                       label="the class defaults are left as they were" + tag)
            sess.check("post", [], z3.BoolVal(len(supers) <= 1), 0, label="Element.__init__ is reached through super() at most once" + tag)
    return (f"{BASE}:Container.__init__", BASE, "Container.__init__", run)


def targets():      # noqa: F811
    return _targets_before_container_init() + [target_container_init()]


_targets_before_roundtrip = targets


def targets():      # noqa: F811
    """+ shared with C03: the `to_string + parse` step of the state machine -- `Element.to_string` / `Container.to_string` write
    every value, limit, fixed flag and the label; `Parser.element` applies what it read through the setters above (every fixed flag,
    True and False; limits before values in the order that cannot be refused), and the parser's limit checks refuse a limit only
    when it is given and STRICTLY beyond the value, so a value sitting on its limit (after clamping) survives the round trip"""
    from . import c03
    shared = [t for t in c03.targets() if any(k in t[0] for k in ("Parser.element", "Parser limit checks", "Element.to_string", "Container.to_string"))]
    return _targets_before_roundtrip() + shared


_targets_before_set_subcircuits = targets


def target_set_subcircuits():
    """`Container.set_subcircuits(*args, **kwargs)`: EVERY given (key, connection) pair is stored under its key (positional pairs and
    keywords alike), the sub-circuits that were not named keep what they had; an unknown key is refused with KeyError, something that
    is neither a Connection nor None with TypeError, an odd number of positional arguments with ValueError, a key given both ways with
    KeyError; returns the container.  Real method on recording stand-ins."""
    from pyvc import overload as O
    BASE = "circuit/base"

    def run(sess: Session):
        class Connection:
            def __init__(self, n):
                self.n = n
        A, Bc, Cc, old1, old2, old3 = (Connection(x) for x in ("A", "B", "C", "old X_1", "old X_2", "old Zeta"))
        ns = {"Connection": Connection, "isinstance": isinstance, "len": len, "list": list}
        O.load(BASE, ["Container.set_subcircuits"], ns)
        fn = ns["set_subcircuits"]

        def fresh_me():
            return type("Me", (), {})(), {"X_1": old1, "X_2": old2, "Zeta": old3}
        cases = [("one keyword", (), {"X_1": A}, {"X_1": A}), ("two keywords", (), {"X_1": A, "Zeta": Bc}, {"X_1": A, "Zeta": Bc}), ("three keywords, one open", (), {"X_1": A, "X_2": None, "Zeta": Cc}, {"X_1": A, "X_2": None, "Zeta": Cc}),
                 ("two positional pairs", ("X_1", A, "X_2", Bc), {}, {"X_1": A, "X_2": Bc}), ("a pair and a keyword", ("Zeta", Cc), {"X_1": A}, {"Zeta": Cc, "X_1": A})]
        for name, args, kw, want in cases:
            me, sub = fresh_me()
            me._subcircuit_value = sub
            before = dict(sub)
            try:
                out = fn(me, *args, **kw)
                raised = None
            except Exception as ex:       # noqa: BLE001
                out, raised = None, type(ex).__name__
            tag = f" [{name}]"
            sess.check("post", [], z3.BoolVal(raised is None and out is me), 0, label="connections and None for known keys are accepted; the container is returned" + tag)
            ok = all(me._subcircuit_value.get(k) is v for k, v in want.items()) and all(me._subcircuit_value.get(k) is before[k] for k in before if k not in want) and sorted(me._subcircuit_value) == sorted(before)
            ob = sess.check("post", [], z3.BoolVal(ok), 0, label="every given pair is stored under its key, the other sub-circuits keep what they had" + tag)
            if not ok:
                ob.detail = str({k: getattr(v, "n", v) for k, v in me._subcircuit_value.items()})
        for name, args, kw, exc in (("an unknown key", (), {"Nope": A}, "KeyError"), ("a value that is not a connection", (), {"X_1": 5.0}, "TypeError"), ("an odd number of positional arguments", ("X_1", A, "X_2"), {}, "ValueError"),
                                    ("a key given both ways", ("X_1", A), {"X_1": Bc}, "KeyError")):
            me, sub = fresh_me()
            me._subcircuit_value = sub
            try:
                fn(me, *args, **kw)
                raised = None
            except Exception as ex:       # noqa: BLE001
                raised = type(ex).__name__
            sess.check("post", [], z3.BoolVal(raised == exc), 0, label=f"{name} is refused with {exc}")
    return (f"{BASE}:Container.set_subcircuits", BASE, "Container.set_subcircuits", run)


def targets():      # noqa: F811
    return _targets_before_set_subcircuits() + [target_set_subcircuits()]
