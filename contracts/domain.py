"""Argument-domain contracts: the validation prologue of an entry point refuses nothing inside the documented domain.

The real statements of the function up to the first one that touches the data (a mechanical slice of the working tree's body)
are run by CPython on symbolic numbers: every comparison of a `Num` is a question to the oracle, both answers are explored, and
the answer is recorded as a linear-arithmetic fact.  For every path that ends in `raise`, the obligation is that the facts of the
path contradict the domain -- `domain /\\ facts |= False`, discharged by z3 over the reals -- so a refusal of a value inside the
domain (a `<` where the documentation says `<=`, a forgotten `abs`, a wrong default) leaves a satisfiable formula whose model is
the refused argument combination.  Paths that complete are counted (cover: the domain itself is reachable).

Assumptions: numbers are mathematical reals (no NaN / infinity / rounding); the type predicates of pyimpspec.typing.helpers
are stubs that accept the symbolic numbers (types are fixed by the caller of this contract, only values are symbolic)."""
from __future__ import annotations

import ast
from typing import Any, Callable, Dict, List

import z3

from pyvc import core
from pyvc import overload as O
from pyvc.core import Session
from . import dataflow as DF


class Num:
    """a symbolic real; arithmetic builds z3 terms, comparisons ask the oracle and record the answer as a fact"""

    def __init__(self, e):
        self.e = e if z3.is_expr(e) else z3.RealVal(e)

    @staticmethod
    def var(name: str) -> "Num":
        return Num(z3.Real(name))

    @staticmethod
    def _z(o):
        if isinstance(o, Num):
            return o.e
        if isinstance(o, bool) or not isinstance(o, (int, float)):
            raise O.Unsupported(f"symbolic number combined with {type(o).__name__}")
        return z3.RealVal(repr(o)) if isinstance(o, float) else z3.RealVal(o)

    def __add__(s, o): return Num(s.e + s._z(o))
    def __radd__(s, o): return Num(s._z(o) + s.e)
    def __sub__(s, o): return Num(s.e - s._z(o))
    def __rsub__(s, o): return Num(s._z(o) - s.e)
    def __mul__(s, o): return Num(s.e * s._z(o))
    def __rmul__(s, o): return Num(s._z(o) * s.e)
    def __truediv__(s, o):
        if isinstance(o, Num) or o == 0:
            raise O.Unsupported("division of a symbolic number by a symbolic number or zero")
        return Num(s.e / s._z(o))

    def __neg__(s): return Num(-s.e)
    def __pos__(s): return s
    def __abs__(s): return Num(z3.If(s.e >= 0, s.e, -s.e))

    def _cmp(s, op, o):
        rhs = s._z(o)
        f = {"lt": s.e < rhs, "le": s.e <= rhs, "gt": s.e > rhs, "ge": s.e >= rhs, "eq": s.e == rhs}[op]
        orc = DF.ORACLE
        if orc is None:
            raise O.Unsupported("comparison of a symbolic number outside an exploration")
        v = orc.decide(op, f"{op}({s.e}, {rhs})")
        orc.facts.append(f if v else z3.Not(f))
        return v

    def __lt__(s, o): return s._cmp("lt", o)
    def __le__(s, o): return s._cmp("le", o)
    def __gt__(s, o): return s._cmp("gt", o)
    def __ge__(s, o): return s._cmp("ge", o)
    def __eq__(s, o): return s._cmp("eq", o)
    def __ne__(s, o): return not s._cmp("eq", o)
    __hash__ = None

    def __bool__(s):
        return s != 0

    def __format__(s, spec):
        return f"<{s.e}>"
    __repr__ = __str__ = lambda s: f"<{s.e}>"


class _Stop(Exception):
    """the slice ran to its end: nothing was refused"""


def prologue(module: str, qual: str, stops_at: Callable[[ast.stmt], bool]) -> ast.FunctionDef:
    """the function with its body cut before the first top-level statement for which stops_at holds"""
    fn = core.find_def(module, qual)
    body: List[ast.stmt] = []
    for st in O.strip(fn).body:
        if stops_at(st):
            break
        body.append(st)
    else:
        raise O.Unsupported(f"{module}:{qual}: the end of the argument validation was not found")
    import copy
    cut = copy.copy(O.strip(fn))
    stop = ast.parse("raise __Stop()").body[0]
    cut.body = body + [ast.copy_location(stop, body[-1] if body else fn)]
    for n in ast.walk(cut.body[-1]):
        ast.copy_location(n, cut.body[-1])
    cut.decorator_list = []
    return ast.fix_missing_locations(cut)


def mentions(*names: str) -> Callable[[ast.stmt], bool]:
    """the statement calls a method / function of one of these dotted names (e.g. 'data.get_frequencies')"""
    def pred(st: ast.stmt) -> bool:
        for n in ast.walk(st):
            if isinstance(n, ast.Call):
                try:
                    if ast.unparse(n.func) in names:
                        return True
                except Exception:      # noqa: BLE001
                    pass
        return False
    return pred


TYPE_STUBS: Dict[str, Any] = {
    "_is_floating": lambda x: isinstance(x, (float, Num)), "_is_integer": lambda x: (isinstance(x, int) and not isinstance(x, bool)) or isinstance(x, Num),
    "_is_boolean": lambda x: isinstance(x, bool), "_is_integer_list": lambda x: isinstance(x, list) and all(isinstance(i, int) for i in x),
    "_is_floating_array": lambda x: False, "_is_complex_array": lambda x: False, "_is_floating_list": lambda x: isinstance(x, list),
    "_is_complex": lambda x: isinstance(x, complex),
}


def check_domain(sess: Session, module: str, qual: str, stops_at, make_args: Callable[[], Dict[str, Any]], domain: Callable[[Dict[str, Any]], List[z3.ExprRef]],
                 tag: str, extra_ns: Dict[str, Any] = None, min_complete: int = 1):
    cut = prologue(module, qual, stops_at)
    ns: Dict[str, Any] = dict(TYPE_STUBS)
    ns.update({"__Stop": _Stop, "isinstance": isinstance, "len": len, "abs": abs, "max": max, "min": min})
    ns.update(extra_ns or {})
    exec(compile(ast.Module(body=[cut], type_ignores=[]), f"<{module}:{qual}[argument validation]>", "exec"), ns)
    # helper functions of the same module that the validation calls (a chain of checks extracted into a helper) come from the tree too
    import builtins as _b
    top = {n.name for n in core.module_ast(module).body if isinstance(n, ast.FunctionDef)}
    for n in ast.walk(cut):
        if isinstance(n, ast.Name) and isinstance(n.ctx, ast.Load) and n.id in top and n.id not in ns and not hasattr(_b, n.id):
            O.load(module, [n.id], ns)
    f = ns[cut.name]
    box: Dict[str, Any] = {}

    def once():
        box["args"] = args = make_args()
        try:
            f(**args)
        except _Stop:
            return None
        except (ValueError, TypeError) as ex:
            return ex
        return None
    done = refused = 0
    for log, res, facts in DF.explore(once, max_paths=256):
        dom = domain(box["args"])
        if res is None:
            s = z3.Solver()
            s.add(*dom, *facts)
            if s.check() == z3.sat:
                done += 1
            continue
        refused += 1
        ob = sess.check("post", list(dom) + list(facts), z3.BoolVal(False), getattr(res.__traceback__.tb_next, "tb_lineno", 0) if res.__traceback__ else 0,
                        label=f"{tag}refusal '{type(res).__name__}: {str(res)[:70]}' happens only outside the documented domain")
        m = getattr(ob, "_z3model", None)
        if ob.status == "refuted" and m is not None:
            vals = {k: (m.eval(v.e, model_completion=True).as_decimal(6) if isinstance(v, Num) else v) for k, v in box["args"].items() if not callable(v) and k != "data"}
            ob.detail = f"refused inside the domain: {vals}"
            ob.witness_args = vals
    sess.check("cover", [], z3.BoolVal(done >= min_complete and refused >= 1), 0, label=f"{tag}paths: {done} accept inside the domain, {refused} refuse")
