"""C15 proof layer: the element registry as a map-valued state machine (circuit/registry.py).

State: _ELEMENTS, _DEFAULT_ELEMENTS, _PRIVATE_ELEMENTS : symbol -> class.  Invariant RegInv: every default symbol is registered
with its default class.  Obligations: register_element / remove_elements / reset preserve RegInv, built-ins cannot be
removed or shadowed, and after reset() nothing of a user registration survives (not even in the private table)."""
from __future__ import annotations

import ast

import itertools

import z3

from pyvc import builtins as B
from pyvc.core import Session, find_def
from pyvc.symex import Contract, Executor, LoopSpec, Raised, State, Unsupported
from pyvc.values import NONE, ClassV, DictV, FuncV, Key, Obj, PyDict, PyList, Ref, StrV, TupleV, fresh

MOD = "circuit/registry"
I = z3.IntSort()


def k_():
    return fresh("k", Key)


def reg_inv(E: DictV, D: DictV):
    k = k_()
    return z3.ForAll([k], z3.Implies(D.has(k), z3.And(E.has(k), E.get(k) == D.get(k))))


def new_state():
    st = State()
    E, D, Pv = (DictV.symbolic(n, Key, I) for n in ("_ELEMENTS", "_DEFAULT_ELEMENTS", "_PRIVATE_ELEMENTS"))
    refs = {n: st.alloc(d) for n, d in (("_ELEMENTS", E), ("_DEFAULT_ELEMENTS", D), ("_PRIVATE_ELEMENTS", Pv))}
    st.globals.update(refs)
    st.pc.append(reg_inv(E, D))
    return st, refs, E, D, Pv


def executor(sess):
    ex = Executor(sess, MOD)
    B.install(ex)
    ex.classes["Element"] = ClassV("Element")
    ex.consts["issubclass"] = ("builtin", lambda ex_, st, a, kw, n: [(z3.BoolVal(True), st)])
    return ex


def _call(ex, qual, st, args=(), kwargs=None, starkw=None):
    fn = find_def(MOD, qual)
    node = ast.parse("f()").body[0].value
    node.lineno = fn.lineno
    return ex.call_funcv(FuncV(fn, MOD, qualname=qual), list(args), kwargs or {}, starkw, st, node)


def target_reset():
    qual = "reset"

    def run(sess: Session):
        for elements_flag in (True, False):
            ex = executor(sess)
            st, refs, E, D, Pv = new_state()
            ex.consts["reset_default_parameter_values"] = ("builtin", lambda ex_, s, a, kw, n: [(NONE, s)])
            ex.consts["list"] = ("builtin", lambda ex_, s, a, kw, n: [(("keys_snapshot", s.deref(a[0][1])), s)])

            def inv(ex_, s, entry, ghost, refs=refs, Pv=Pv, D=D):
                P1 = s.deref(refs["_PRIVATE_ELEMENTS"])
                done = ghost["done"]
                k = k_()
                return z3.ForAll([k], z3.And(P1.has(k) == z3.And(Pv.has(k), z3.Or(z3.Not(z3.Select(done, k)), D.has(k))),
                                             z3.Implies(P1.has(k), P1.get(k) == Pv.get(k))))
            ex.loops[(qual, "key in list(_PRIVATE_ELEMENTS.keys())")] = LoopSpec(invariant=inv, modifies=["_PRIVATE_ELEMENTS", "key"])
            outs = _call(ex, qual, st, kwargs={"elements": z3.BoolVal(elements_flag), "default_parameters": z3.BoolVal(True)})
            for val, s1 in outs:
                if isinstance(val, Raised):
                    sess.check("exc-free", s1.pc, z3.BoolVal(False), val.exc.line, label=val.exc.name)
                    continue
                E1, D1, P1 = (s1.deref(refs[n]) for n in ("_ELEMENTS", "_DEFAULT_ELEMENTS", "_PRIVATE_ELEMENTS"))
                sess.check("post", s1.pc, reg_inv(E1, D1), 0, label=f"[elements={elements_flag}]RegInv")
                sess.check("frame", s1.pc, D1.same_as(D), 0, label=f"[elements={elements_flag}]defaults-untouched")
                if elements_flag:
                    sess.check("post", s1.pc, E1.same_as(D), 0, label="registry == built-ins after reset")
                    k = k_()
                    sess.check("post", s1.pc, z3.ForAll([k], z3.Implies(P1.has(k), D.has(k))), 0, label="no user symbol stays in the private table after reset (a later public registration of it must be visible)")
                else:
                    sess.check("frame", s1.pc, E1.same_as(E), 0, label="elements=False leaves the registry alone")
    return (f"{MOD}:{qual}", MOD, qual, run)


def target_register():
    qual = "register_element"

    def run(sess: Session):
        for private in (False, True):
            ex = executor(sess)
            st, refs, E, D, Pv = new_state()
            sym, cls = fresh("symbol", Key), fresh("Class", I)
            ex.consts["_initialize_element"] = ("builtin", lambda ex_, s, a, kw, n: [(TupleV([sym, cls]), s)])
            ex.classes["ElementDefinition"] = ClassV("ElementDefinition")
            ex.isinstance_model = lambda ex_, s, v, c: z3.BoolVal(True) if isinstance(v, Obj) and v.cls == "ElementDefinition" else None
            ex.consts["str"] = ("builtin", lambda ex_, s, a, kw, n: [(a[0], s)])
            orig_cvm = ex.call_value_method

            def cvm(recv, o, name, args, kwargs, s, node, orig_cvm=orig_cvm):
                if z3.is_expr(o) and o.sort() == Key and name == "strip":
                    return [(o, s)]             # symbols are compared after strip(); the id stands for the stripped text
                return orig_cvm(recv, o, name, args, kwargs, s, node)
            ex.call_value_method = cvm
            orig_ga = ex.getattr

            def ga(base, attr, s, node=None, orig_ga=orig_ga):
                if z3.is_expr(base) and base.sort() == Key:
                    return ("boundmethod", base, attr)
                return orig_ga(base, attr, s, node)
            ex.getattr = ga

            def dinv(ex_, s, entry, ghost, D=D, sym=sym, cls=cls):
                done = ghost["done"]
                k = k_()
                return z3.ForAll([k], z3.Implies(z3.Select(done, k), z3.Not(z3.And(D.get(k) == cls, k != sym))))
            ex.loops[(qual, "key, default_class in _DEFAULT_ELEMENTS.items()")] = LoopSpec(invariant=dinv, modifies=["key", "default_class"])
            definition = st.alloc(Obj("ElementDefinition", {"Class": cls, "symbol": sym}))
            kw = st.alloc(PyDict({"private": z3.BoolVal(True)} if private else {}))
            outs = _call(ex, qual, st, args=[definition], starkw=kw)
            n_ok = 0
            for val, s1 in outs:
                E1, D1, P1 = (s1.deref(refs[n]) for n in ("_ELEMENTS", "_DEFAULT_ELEMENTS", "_PRIVATE_ELEMENTS"))
                if isinstance(val, Raised):
                    sess.check("exc-class", s1.pc, z3.BoolVal(val.exc.name == "KeyError"), val.exc.line, label=val.exc.name)
                    kk = k_()
                    sess.check("post", s1.pc, z3.Or(z3.And(E.has(sym), E.get(sym) != cls), z3.Exists([kk], z3.And(D.has(kk), D.get(kk) == cls, kk != sym))), val.exc.line,
                               label="refused only for a symbol bound to another class or a built-in class under a foreign symbol")
                    sess.check("frame", s1.pc, z3.And(E1.same_as(E), P1.same_as(Pv)), val.exc.line, label="refused registration changes nothing")
                    continue
                n_ok += 1
                sess.check("post", s1.pc, reg_inv(E1, D1), 0, label=f"[private={private}]RegInv (built-ins are not shadowed)")
                k = k_()
                sess.check("post", s1.pc, z3.And(E1.has(sym), E1.get(sym) == cls, z3.ForAll([k], z3.Implies(k != sym, z3.And(E1.has(k) == E.has(k), E1.get(k) == E.get(k))))), 0, label="exactly the new symbol is bound")
                sess.check("frame", s1.pc, D1.same_as(D), 0, label="defaults-untouched")
                sess.check("post", s1.pc, z3.ForAll([k], z3.Implies(z3.And(D.has(k), D.get(k) == cls), k == sym)), 0, label="a built-in class is only ever (re-)registered under its own symbol")
                if private:
                    sess.check("post", s1.pc, z3.And(P1.has(sym), P1.get(sym) == cls), 0, label="private flag recorded")
                else:
                    sess.check("frame", s1.pc, P1.same_as(Pv), 0, label="private table untouched")
            sess.check("cover", [], z3.BoolVal(n_ok >= 1), 0, label="normal-exit")
        sess.assumptions.append("_initialize_element is opaque here (class attribute rewriting and the impedance/equation consistency check are covered by the bounded layer)")
    return (f"{MOD}:{qual}", MOD, qual, run)


def target_remove():
    qual = "remove_elements"

    def run(sess: Session):
        ex = executor(sess)
        st, refs, E, D, Pv = new_state()
        elem = fresh("element", I)

        def b_list(ex_, s, a, kw, n):
            v = a[0]
            if isinstance(v, tuple) and v[0] == "values":
                return [(("valueset", s.deref(v[1])), s)]
            if isinstance(v, tuple) and v[0] == "keys":
                return [(("keys_snapshot", s.deref(v[1])), s)]
            raise Unsupported("list()")
        ex.consts["list"] = ("builtin", b_list)
        orig_contains = ex.contains

        def contains(container, item, s, line):
            if isinstance(container, tuple) and container[0] == "valueset":
                d: DictV = container[1]
                k = k_()
                return z3.Exists([k], z3.And(d.has(k), d.get(k) == item))
            return orig_contains(container, item, s, line)
        ex.contains = contains

        def inv(ex_, s, entry, ghost):
            E1, P1 = s.deref(refs["_ELEMENTS"]), s.deref(refs["_PRIVATE_ELEMENTS"])
            k = k_()
            # nothing removed yet (the loop breaks right after its single removal)
            return z3.And(E1.same_as(E), P1.same_as(Pv))
        ex.loops[(qual, "key in list(_ELEMENTS.keys())")] = LoopSpec(invariant=inv, modifies=["key"])
        ex.isinstance_model = lambda ex_, s, v, c: z3.BoolVal(False) if z3.is_expr(v) else None       # `elements` is a single class, not a list
        symbol_of = z3.Function("symbol_of_class", I, Key)      # Class.get_symbol(): whatever the class currently carries (not necessarily its registry key)
        orig_ga = ex.getattr

        def ga(base, attr, s, node=None):
            if z3.is_expr(base) and base.sort() == I and attr == "get_symbol":
                return ("builtin", lambda ex_, s_, a, kw, n: [(symbol_of(base), s_)])
            return orig_ga(base, attr, s, node)
        ex.getattr = ga
        outs = _call(ex, qual, st, args=[elem])
        n_ok = 0
        for val, s1 in outs:
            E1, D1, P1 = (s1.deref(refs[n]) for n in ("_ELEMENTS", "_DEFAULT_ELEMENTS", "_PRIVATE_ELEMENTS"))
            k = k_()
            is_default = z3.Exists([k], z3.And(D.has(k), D.get(k) == elem))
            if isinstance(val, Raised):
                sess.check("exc-class", s1.pc, z3.BoolVal(val.exc.name in ("ValueError", "TypeError")), val.exc.line, label=val.exc.name)
                if val.exc.name == "ValueError":
                    sess.check("post", s1.pc, is_default, val.exc.line, label="refused exactly for a built-in class")
                sess.check("frame", s1.pc, z3.And(E1.same_as(E), P1.same_as(Pv)), val.exc.line, label="refusal changes nothing")
                continue
            n_ok += 1
            sess.check("post", s1.pc, z3.Not(is_default), 0, label="only user-defined classes are ever removed")
            sess.check("post", s1.pc, reg_inv(E1, D1), 0, label="RegInv (built-ins cannot be removed)")
            sess.check("frame", s1.pc, D1.same_as(D), 0, label="defaults-untouched")
            sess.check("post", s1.pc, z3.ForAll([k], z3.Implies(E1.has(k), z3.And(E.has(k), E1.get(k) == E.get(k)))), 0, label="nothing is added or rebound")
            sess.check("post", s1.pc, z3.ForAll([k], z3.Implies(z3.And(E.has(k), z3.Not(E1.has(k))), E.get(k) == elem)), 0, label="only entries of the given class disappear")
        sess.check("cover", [], z3.BoolVal(n_ok >= 1), 0, label="normal-exit")
    return (f"{MOD}:{qual}", MOD, qual, run)


def targets():
    return [target_reset(), target_register(), target_remove()]


def target_get_elements():
    """get_elements(default_only, private): the result is a function of the registry tables AS THEY ARE NOW --
    key in result  <=>  key in (_DEFAULT_ELEMENTS if default_only else _ELEMENTS) and (private or key not in _PRIVATE_ELEMENTS),
    result[key] is _ELEMENTS[key]; nothing is written to module-level state (so nothing can be served from an earlier call)."""
    qual = "get_elements"

    def run(sess: Session):
        from . import purity
        for default_only in (False, True):
            for private in (False, True):
                ex = executor(sess)
                ex.consts["_is_boolean"] = ("builtin", lambda ex_, st_, a, kw, n: [(z3.BoolVal(True), st_)])
                st, refs, E, D, Pv = new_state()
                pre = st.clone()
                tag = f"[default_only={default_only},private={private}]"
                try:
                    outs = _call(ex, qual, st, kwargs={"default_only": z3.BoolVal(default_only), "private": z3.BoolVal(private)})
                except Unsupported as u:
                    sess.unsupported(f"{tag} {u}")
                    continue
                n_ok = 0
                for val, s1 in outs:
                    if isinstance(val, Raised):
                        sess.check("exc-free", s1.pc, z3.BoolVal(False), val.exc.line, label=f"{tag}{val.exc.name}")
                        continue
                    n_ok += 1
                    out = s1.deref(val)
                    if not isinstance(out, DictV):
                        sess.check("post", s1.pc, z3.BoolVal(False), 0, label=f"{tag}returns a dict")
                        continue
                    k = k_()
                    src = D if default_only else E
                    member = z3.And(src.has(k), z3.BoolVal(True) if private else z3.Not(Pv.has(k)))
                    sess.check("post", s1.pc, z3.ForAll([k], out.has(k) == member), 0, label=f"{tag}keys = current table, minus private symbols unless asked for")
                    sess.check("post", s1.pc, z3.ForAll([k], z3.Implies(out.has(k), out.get(k) == E.get(k))), 0, label=f"{tag}values are the currently registered classes")
                    sess.check("frame", s1.pc, z3.And(*[s1.deref(refs[n]).same_as(pre.deref(refs[n])) for n in refs]), 0, label=f"{tag}registry tables unchanged")
                    sess.check("frame", s1.pc, z3.BoolVal(isinstance(val, Ref) and all(val.addr != r.addr for r in refs.values())), 0, label=f"{tag}a new dict, not one of the tables")
                sess.check("cover", [], z3.BoolVal(n_ok >= 1), 0, label=f"{tag}normal exit")
        purity.check(sess, MOD, [qual])
    return (f"{MOD}:{qual}", MOD, qual, run)


_targets_without_get = targets


def targets():      # noqa: F811
    return _targets_without_get() + [target_get_elements()]


def target_set_default_values():
    """Element.set_default_values (what reset() and reset_default_parameter_values() undo): it rebinds the default VALUE of the
    named parameters and nothing else -- the default limits, fixed flags and every other class-level table stay exactly as they
    were, whether the new value lies inside the default limits, below them or above them.  (The registry snapshots and restores
    values only, so anything else this method changed would survive a reset.)"""
    import copy
    import itertools
    from pyvc import overload as O

    def run(sess: Session):
        ns = {"float": float, "list": list, "len": len}
        O.load("circuit/base", ["Element.set_default_values"], ns)
        fn = ns["set_default_values"]
        for where, form in itertools.product(("inside", "below the lower limit", "above the upper limit", "on the lower limit", "on the upper limit"), ("keyword", "positional")):
            new = {"inside": 5.0, "below the lower limit": -3.0, "above the upper limit": 1e9, "on the lower limit": 1.0, "on the upper limit": 100.0}[where]
            cls = type("E", (), {"_parameter_default_value": {"R": 10.0, "Y": 2.0}, "_parameter_default_lower_limit": {"R": 1.0, "Y": 0.0}, "_parameter_default_upper_limit": {"R": 100.0, "Y": 3.0},
                                 "_parameter_default_fixed": {"R": False, "Y": True}, "_parameter_unit": {"R": "ohm", "Y": "S"}, "_valid_kwargs_keys": ["R", "Y"]})
            before = {k: copy.deepcopy(v) for k, v in vars(cls).items() if k.startswith("_") and not k.startswith("__")}
            ids = {k: id(getattr(cls, k)) for k in before}
            if form == "keyword":
                fn(cls, R=new)
            else:
                fn(cls, "R", new)
            after = {k: getattr(cls, k) for k in before}
            tag = f"[new value {where}, {form} form]"
            sess.check("post", [], z3.BoolVal(after["_parameter_default_value"] == {"R": float(new), "Y": 2.0}), 0, label=f"the default value of the named parameter is the new value, the others are untouched{tag}")
            sess.check("frame", [], z3.BoolVal(all(after[k] == before[k] for k in before if k != "_parameter_default_value") and all(id(after[k]) == ids[k] for k in before)), 0,
                       label=f"default limits, fixed flags and all other class tables are unchanged{tag}")
        cls = type("E", (), {"_parameter_default_value": {"R": 10.0}})
        refused = False
        try:
            fn(cls, Q=1.0)
        except KeyError:
            refused = True
        sess.check("post", [], z3.BoolVal(refused and cls._parameter_default_value == {"R": 10.0}), 0, label="an unknown key is refused (KeyError) and nothing is changed")
    return ("circuit/base:Element.set_default_values", "circuit/base", "Element.set_default_values", run)


def target_validate_impedances():
    """registry._validate_impedances: the numeric impedance of a new element at its default values is compared with its symbolic
    expression SEPARATELY for the real and for the imaginary parts (a comparison of the complex numbers is relative to the modulus
    and would let an error in the small component through), at the same frequencies, and a mismatch in either refuses the element
    (ValueError)."""
    from pyvc import overload as O
    from . import dataflow as DF
    from .dataflow import T, opaque

    def run(sess: Session):
        n = 0

        def once():
            asked = []

            def allclose(a, b, *r, **k):
                v = DF.ORACLE.decide("allclose", f"allclose({DF.tv(a)}, {DF.tv(b)})")
                asked.append((a, b, v))
                return v
            Zf, Zs = T.var("Z_func"), T.var("Z_sympy")

            class El:
                def to_sympy(self, substitute=False):
                    return type("Expr", (), {"subs": lambda s, *a: 0})()

                def get_impedances(self, f):
                    return Zf
            made = {"n": 0}

            def array(x, dtype=None):
                made["n"] += 1
                return T.var("f") if made["n"] == 1 else Zs
            ns = {"array": array, "allclose": allclose, "list": lambda x: [], "map": lambda f, x: [], "complex": complex, "Frequency": None, "ComplexImpedance": None}
            O.load("circuit/registry", ["_validate_impedances"], ns)
            err = None
            try:
                ns["_validate_impedances"](El)
            except ValueError as ex:
                err = ex
            return asked, err, Zf, Zs
        for log, (asked, err, Zf, Zs), facts in DF.explore(once):
            n += 1
            tag = "[" + ",".join("T" if v else "F" for _, v in log) + "]"
            pairs = [(str(DF.tv(a)), str(DF.tv(b))) for a, b, _ in asked]
            want_re, want_im = (str(DF.tv(Zf.real)), str(DF.tv(Zs.real))), (str(DF.tv(Zf.imag)), str(DF.tv(Zs.imag)))
            if err is None:
                sess.check("post", [], z3.BoolVal(want_re in pairs and want_im in pairs and all(v for _, _, v in asked)), 0, label=f"accepted only after the real parts AND the imaginary parts were each found close{tag}")
            else:
                sess.check("post", [], z3.BoolVal(any(not v for _, _, v in asked) and all(p_ in (want_re, want_im) for p_ in pairs)), 0, label=f"refused only because the real or the imaginary parts differ{tag}")
        sess.check("cover", [], z3.BoolVal(n >= 3), 0, label=f"paths={n}")
    return ("circuit/registry:_validate_impedances", "circuit/registry", "_validate_impedances", run)


_targets_c15_with_get = targets


def targets():      # noqa: F811
    return _targets_c15_with_get() + [target_set_default_values(), target_validate_impedances()]


_targets_before_snapshots = targets


def target_default_snapshots():
    """`_initialized` and `reset_default_parameter_values` on recording class stand-ins: the snapshot holds, for every element
    class registered at start-up, a COPY of its default values (its own dictionary -- a later `set_default_values` must not reach
    the snapshot); the reset hands exactly the snapshotted values of a class to that class's `set_default_values` -- for every
    start-up class when called without argument, for exactly the listed (or the single given) classes otherwise, whether or not
    they are still registered -- leaves the snapshot itself untouched, and refuses anything that is not an element class or a
    non-empty list of element classes."""
    from pyvc import overload as O
    REG = "circuit/registry"

    def run(sess: Session):
        class Element:
            pass

        def mk(name, defaults):
            calls = []
            live = dict(defaults)

            class K(Element):
                @classmethod
                def get_default_values(cls):
                    return live

                @classmethod
                def set_default_values(cls, *a, **kw):
                    calls.append((a, dict(kw)))
            K.__name__ = name
            K.calls, K.live = calls, live
            return K
        A, Bc, U = mk("A", {"R": 1.0}), mk("B", {"Y": 2.0, "n": 0.5}), mk("User", {"X": 9.0})
        elements = {"A": A, "B": Bc}
        snap_e, snap_p = {}, {}
        ns = {"_ELEMENTS": elements, "_DEFAULT_ELEMENTS": snap_e, "_DEFAULT_ELEMENT_PARAMETERS": snap_p, "Element": Element}
        O.load(REG, ["_initialized"], ns)
        ns["_initialized"]()
        sess.check("post", [], z3.BoolVal(snap_e == elements and snap_e is not elements), 0, label="_initialized: the start-up classes are remembered in a table of their own")
        ok = sorted(snap_p) == ["A", "B"] and snap_p["A"] == {"R": 1.0} and snap_p["B"] == {"Y": 2.0, "n": 0.5} and snap_p["A"] is not A.live and snap_p["B"] is not Bc.live
        sess.check("post", [], z3.BoolVal(ok), 0, label="_initialized: the default values of every start-up class are remembered as a copy (not the class's own dictionary)")
        A.live["R"] = 77.0          # what a later set_default_values does to the class
        sess.check("post", [], z3.BoolVal(snap_p.get("A") == {"R": 1.0}), 0, label="_initialized: changing a class's defaults afterwards does not reach the snapshot")
        # reset
        ns2 = {"_DEFAULT_ELEMENTS": snap_e, "_DEFAULT_ELEMENT_PARAMETERS": snap_p, "Element": Element,
               "get_elements": lambda **kw: dict(snap_e) if kw.get("default_only") else {**snap_e, "User": U}}
        O.load(REG, ["reset_default_parameter_values"], ns2)
        rs = ns2["reset_default_parameter_values"]

        def cleared():
            for k_ in (A, Bc, U):
                del k_.calls[:]
        before = {k_: dict(v) for k_, v in snap_p.items()}
        for arg, want, tag in ((None, {"A", "B"}, "no argument"), ([Bc], {"B"}, "a list with one class"), ([A, Bc], {"A", "B"}, "a list of classes"), (A, {"A"}, "a single class"), ([U], set(), "a user-defined class")):
            cleared()
            try:
                rs(arg) if arg is not None else rs()
                raised = None
            except Exception as ex:       # noqa: BLE001
                raised = type(ex).__name__
            got = {n: k_.calls for n, k_ in (("A", A), ("B", Bc), ("User", U)) if k_.calls}
            ok = raised is None and set(got) == want and all(got[n] == [((), before[n])] for n in want)
            ob = sess.check("post", [], z3.BoolVal(ok), 0, label=f"reset_default_parameter_values[{tag}]: exactly the addressed start-up classes get exactly their snapshotted values, once")
            if not ok:
                ob.detail = f"raised={raised} calls={got!r}"
            sess.check("post", [], z3.BoolVal(snap_p == before and all(snap_p[k_] is not None for k_ in snap_p)), 0, label=f"reset_default_parameter_values[{tag}]: the snapshot is left as it was")
        for bad, exc, tag in (([], "ValueError", "an empty list"), ([int], "TypeError", "a list with a non-element"), (int, "TypeError", "a class that is not an element")):
            cleared()
            try:
                rs(bad)
                raised = None
            except Exception as ex:       # noqa: BLE001
                raised = type(ex).__name__
            sess.check("post", [], z3.BoolVal(raised == exc and not (A.calls or Bc.calls)), 0, label=f"reset_default_parameter_values refuses {tag} with {exc} and resets nothing")
    return (f"{REG}:_initialized / reset_default_parameter_values", REG, "reset_default_parameter_values", run)


def targets():      # noqa: F811
    return _targets_before_snapshots() + [target_default_snapshots()]


_targets_before_static_info = targets


def target_static_information():
    """`_set_element_static_information` (what registration writes into an element class): every table is a NEW dictionary of THIS
    class (a class never writes into the tables it inherited, so changing or resetting one class's defaults cannot reach another),
    every ParameterDefinition field lands in the table of that field under the definition's stripped symbol -- value, lower and
    upper limit, fixed flag, unit, description --, sub-circuit definitions likewise for containers, `_valid_kwargs_keys` is exactly
    the set of those symbols; a blank symbol / name / description, a blank or non-identifier parameter symbol and a symbol used
    twice are refused, the duplicate BEFORE anything is written.  Real function on recording stand-ins with uninterpreted values."""
    from pyvc import overload as O
    from . import dataflow as DF
    from .dataflow import T
    REG = "circuit/registry"

    def run(sess: Session):
        class Element:
            _parameter_default_value = {"inherited": 1.0}
            _parameter_unit = {"inherited": "u"}

        class Container(Element):
            _subcircuit_default_value = {"inherited": None}

        class PD:
            def __init__(self, symbol, tag):
                self.symbol, self.unit, self.description = symbol, f" unit[{tag}] ", f" description[{tag}] "
                self.value, self.lower_limit, self.upper_limit, self.fixed = T.var(f"value[{tag}]"), T.var(f"lower[{tag}]"), T.var(f"upper[{tag}]"), T.var(f"fixed[{tag}]")

        class SD:
            def __init__(self, symbol, tag):
                self.symbol, self.unit, self.description, self.value = symbol, f"unit[{tag}]", f"description[{tag}]", ("connection", tag)
        warned = []
        ns = {"Container": Container, "Element": Element, "warn": lambda *a, **k: warned.append(a), "issubclass": issubclass}
        O.load(REG, ["_set_element_static_information"], ns)
        fn = ns["_set_element_static_information"]
        for is_container in (False, True):
            K = type("K", (Container if is_container else Element,), {})
            ps = [PD(" R ", "R"), PD("Y", "Y")]
            ss = [SD("X_1", "X_1")] if is_container else []
            fn(K, " Sy ", " name ", " description ", " R+Y ", ps, ss)
            tag = "[container]" if is_container else "[element]"
            own = K.__dict__
            tables = ["_parameter_unit", "_parameter_description", "_parameter_default_value", "_parameter_default_lower_limit", "_parameter_default_upper_limit", "_parameter_default_fixed"]
            sess.check("post", [], z3.BoolVal(all(t in own and isinstance(own[t], dict) and sorted(own[t]) == ["R", "Y"] for t in tables)), 0,
                       label=f"every parameter table is a new dictionary of this class with exactly the stripped symbols{tag}")
            sess.check("post", [], z3.BoolVal(Element._parameter_default_value == {"inherited": 1.0} and Element._parameter_unit == {"inherited": "u"} and Container._subcircuit_default_value == {"inherited": None}), 0,
                       label=f"the tables of the base classes are not written to{tag}")
            if not all(t in own and isinstance(own[t], dict) for t in tables):
                continue
            for p, sym in zip(ps, ("R", "Y")):
                DF.eq_check(sess, f"default value of {sym} is the definition's value{tag}", own["_parameter_default_value"].get(sym), p.value)
                DF.eq_check(sess, f"default lower limit of {sym} is the definition's lower limit{tag}", own["_parameter_default_lower_limit"].get(sym), p.lower_limit)
                DF.eq_check(sess, f"default upper limit of {sym} is the definition's upper limit{tag}", own["_parameter_default_upper_limit"].get(sym), p.upper_limit)
                DF.eq_check(sess, f"default fixed flag of {sym} is the definition's flag{tag}", own["_parameter_default_fixed"].get(sym), p.fixed)
                sess.check("post", [], z3.BoolVal(own["_parameter_unit"].get(sym) == p.unit.strip() and own["_parameter_description"].get(sym) == p.description.strip()), 0, label=f"unit and description of {sym} (stripped){tag}")
            want_keys = {"R", "Y"} | ({"X_1"} if is_container else set())
            sess.check("post", [], z3.BoolVal(own.get("_valid_kwargs_keys") == want_keys), 0, label=f"_valid_kwargs_keys is exactly the set of parameter (and sub-circuit) symbols{tag}")
            sess.check("post", [], z3.BoolVal((own.get("_symbol"), own.get("_name"), own.get("_description"), own.get("_equation")) == ("Sy", "name", "description", "R+Y")), 0, label=f"symbol, name, description and equation are stored stripped{tag}")
            if is_container:
                ok = all(t in own for t in ("_subcircuit_unit", "_subcircuit_description", "_subcircuit_default_value")) and own["_subcircuit_default_value"] == {"X_1": ("connection", "X_1")} \
                    and own["_subcircuit_unit"] == {"X_1": "unit[X_1]"} and own["_subcircuit_description"] == {"X_1": "description[X_1]"}
                sess.check("post", [], z3.BoolVal(ok), 0, label="a container gets its own sub-circuit tables with the definition's unit, description and default connection")
            else:
                sess.check("post", [], z3.BoolVal("_subcircuit_default_value" not in own), 0, label="a plain element gets no sub-circuit tables")
        # a class derived from an already registered class (a user-defined variant of a built-in element)
        Parent = type("Parent", (Element,), {})
        fn(Parent, "P", "parent", "d", "e", [PD("R", "pR")], [])
        before = {t: (Parent.__dict__[t], dict(Parent.__dict__[t])) for t in ("_parameter_unit", "_parameter_description", "_parameter_default_value", "_parameter_default_lower_limit", "_parameter_default_upper_limit", "_parameter_default_fixed")}
        Child = type("Child", (Parent,), {})
        fn(Child, "Pc", "child", "d", "e", [PD("Q", "cQ")], [])
        ok_parent = all(Parent.__dict__[t] is obj and Parent.__dict__[t] == snap for t, (obj, snap) in before.items()) and Parent._symbol == "P"
        sess.check("post", [], z3.BoolVal(ok_parent), 0, label="registering a class derived from a registered class leaves the parent's tables (objects and contents) and symbol as they were")
        ok_child = all(t in Child.__dict__ and Child.__dict__[t] is not before[t][0] and sorted(Child.__dict__[t]) == ["Q"] for t in before)
        sess.check("post", [], z3.BoolVal(ok_child), 0, label="the derived class gets tables of its own holding its own parameters only")

        # refusals
        def refused(args, exc):
            K = type("K", (Element,), {})
            try:
                fn(K, *args)
                return False, K
            except exc:
                return True, K
        good = [PD("R", "R")]
        for args, exc, why in (((" ", "n", "d", "e", good, []), ValueError, "a blank symbol"), (("S", " ", "d", "e", good, []), ValueError, "a blank name"), (("S", "n", " ", "e", good, []), ValueError, "a blank description"),
                               (("S", "n", "d", "e", [PD(" ", "x")], []), ValueError, "a blank parameter symbol"), (("S", "n", "d", "e", [PD("1a", "x")], []), KeyError, "a parameter symbol that is not an identifier")):
            ok, _ = refused(args, exc)
            sess.check("post", [], z3.BoolVal(ok), 0, label=f"{why} is refused with {exc.__name__}")
        ok, K = refused(("S", "n", "d", "e", [PD("R", "a"), PD("R", "b")], []), KeyError)
        sess.check("post", [], z3.BoolVal(ok and "_parameter_default_value" not in K.__dict__ and "_symbol" not in K.__dict__), 0, label="a symbol used twice is refused with KeyError before anything is written to the class")
    return (f"{REG}:_set_element_static_information", REG, "_set_element_static_information", run)


def targets():      # noqa: F811
    return _targets_before_static_info() + [target_static_information()]


_targets_before_initialize = targets


def target_initialize_element():
    """`_initialize_element(definition, **kwargs)`: the class named in the definition gets its static information from exactly the
    definition's fields (stripped symbol, name, description, equation; its parameter and sub-circuit definitions -- sub-circuits only
    for a ContainerDefinition), then its docstring, and is then validated (`_validate_impedances`) unless validation is switched off
    by the `validate_impedances` keyword (default: the module's flag); a validation failure PROPAGATES, i.e. the element is not
    registered (the caller binds the symbol only after this function has returned); the symbol is validated before anything is
    written; a ContainerDefinition for a non-container class (and the reverse) is refused.  Returns (stripped symbol, Class)."""
    from pyvc import overload as O
    REG = "circuit/registry"

    def run(sess: Session):
        class Element:
            pass

        class Container(Element):
            pass

        class ElementDefinition:
            def __init__(self, Class, subcircuits=None):
                self.Class, self.symbol, self.name, self.description, self.equation = Class, " Sy ", " name ", " descr ", " eq "
                self.parameters = ["p1", "p2"]
                if subcircuits is not None:
                    self.subcircuits = subcircuits

        class ContainerDefinition(ElementDefinition):
            pass

        class ImpedanceError(Exception):
            pass
        for is_container, validate_kw, flag, fails in itertools.product((False, True), (None, True, False), (True, False), (False, True)):
            log = []
            K = type("K", (Container if is_container else Element,), {})
            d = (ContainerDefinition(K, ["s1"]) if is_container else ElementDefinition(K))

            def validate(C):
                log.append(("validate", C))
                if fails:
                    raise ImpedanceError("mismatch")
            ns = {"ElementDefinition": ElementDefinition, "ContainerDefinition": ContainerDefinition, "Container": Container, "Element": Element, "isinstance": isinstance, "issubclass": issubclass,
                  "_validate_element_symbol": lambda s_: log.append(("symbol", s_)),
                  "_set_element_static_information": lambda C, **kw: log.append(("static", C, kw)),
                  "_set_element_docstring": lambda C, p, s_: log.append(("doc", C, p, s_)),
                  "_validate_impedances": validate, "_VALIDATE_IMPEDANCES": flag, "ImpedanceError": ImpedanceError, "warn": lambda *a, **k: log.append(("warn",))}
            O.load(REG, ["_initialize_element"], ns)
            kw = {} if validate_kw is None else {"validate_impedances": validate_kw}
            try:
                out = ns["_initialize_element"](d, **kw)
                raised = None
            except ImpedanceError as ex:
                out, raised = None, ex
            should_validate = flag if validate_kw is None else validate_kw
            tag = f" [container={is_container}, validate_impedances={validate_kw}, module flag={flag}, impedances {'disagree' if fails else 'agree'}]"
            kinds = [x[0] for x in log]
            sess.check("post", [], z3.BoolVal(kinds[:3] == ["symbol", "static", "doc"] and log[0][1] == "Sy"), 0, label="the stripped symbol is validated first, then the static information is written, then the docstring" + tag)
            st_ = next((x for x in log if x[0] == "static"), None)
            want_kw = {"symbol": "Sy", "name": "name", "description": "descr", "equation": "eq", "parameters": ["p1", "p2"], "subcircuits": (["s1"] if is_container else [])}
            sess.check("post", [], z3.BoolVal(st_ is not None and st_[1] is K and st_[2] == want_kw), 0, label="the class of the definition gets exactly the definition's fields (sub-circuits only for a container definition)" + tag)
            sess.check("post", [], z3.BoolVal(("validate" in kinds) == bool(should_validate) and kinds.count("validate") <= 1 and all(x[1] is K for x in log if x[0] == "validate")), 0,
                       label="the impedance/equation check runs exactly when validation is on (keyword, else the module flag), on this class" + tag)
            if should_validate and fails:
                sess.check("post", [], z3.BoolVal(raised is not None and out is None), 0, label="a failed impedance/equation check propagates: the element is not handed back for registration" + tag)
            else:
                sess.check("post", [], z3.BoolVal(raised is None and out == ("Sy", K)), 0, label="returns (stripped symbol, class)" + tag)
        # definition/class mismatch
        for d in (ContainerDefinition(type("K", (Element,), {}), []), ElementDefinition(type("K", (Container,), {}))):
            log = []
            ns = {"ElementDefinition": ElementDefinition, "ContainerDefinition": ContainerDefinition, "Container": Container, "Element": Element, "isinstance": isinstance, "issubclass": issubclass,
                  "_validate_element_symbol": lambda s_: log.append(1), "_set_element_static_information": lambda C, **kw: log.append(1), "_set_element_docstring": lambda *a: log.append(1),
                  "_validate_impedances": lambda C: log.append(1), "_VALIDATE_IMPEDANCES": True}
            O.load(REG, ["_initialize_element"], ns)
            try:
                ns["_initialize_element"](d)
                refused = False
            except TypeError:
                refused = True
            sess.check("post", [], z3.BoolVal(refused and not log), 0, label=f"a {type(d).__name__} for a class of the other kind is refused before anything is written")
    return (f"{REG}:_initialize_element", REG, "_initialize_element", run)


def targets():      # noqa: F811
    return _targets_before_initialize() + [target_initialize_element()]



_SCAN_REPRO = '''from string import ascii_lowercase, digits
from pyimpspec.circuit.tokenizer import Tokenizer, Identifier
text = %r
legal = ascii_lowercase + digits + "_"      # what register_element allows after the first character of a symbol
k = 1
while k < len(text) and text[k] in legal:
    k += 1
try:
    tokens = Tokenizer().process(text)
except Exception as ex:
    raise SystemExit(f"tokenising {text!r} raised {type(ex).__name__}: {ex} although it starts with the legal symbol {text[:k]!r}")
assert isinstance(tokens[0], Identifier) and tokens[0].value == text[:k], (text, tokens[0], text[:k])
'''


def target_symbol_scan():
    """Tokenizer.identifier_or_label in element position (previous token is not ':', '{' or ','): the Identifier token is the
    first character plus the MAXIMAL run of the characters the registry allows in an element symbol (lower-case ASCII letters,
    digits, '_' -- `_validate_element_symbol`, under contract next to this) -- so every symbol that can be registered is read back
    as one token, and two symbols are split exactly where the next upper-case letter begins."""
    import string as _string
    from pyvc.symex import LoopSpec, Raised, State
    from pyvc.values import ListV, fresh
    from . import tokenizer as TK
    from .c04 import _call
    qual = "Tokenizer.identifier_or_label"
    LEGAL = _string.ascii_lowercase + _string.digits + "_"

    def legal(code):
        return z3.Or(*[code == ord(c) for c in LEGAL])

    def run(sess: Session):
        ex = TK.make_executor(sess)
        base = TK.scan_invariant(True)

        def inv(ex_, st, entry, ghost):
            me = st.loc["self"]
            c1 = st.deref(st.deref(me).fields["_chars"])
            c0 = entry.deref(entry.deref(me).fields["_chars"])
            j = fresh("j", TK.I)
            return z3.And(base(ex_, st, entry, ghost), z3.ForAll([j], z3.Implies(z3.And(c0.lo <= j, j < c1.lo), legal(z3.Select(c1.arr, j)))))
        ex.loops[("Tokenizer.identifier_or_label", "char is not None and char in valid_chars")] = LoopSpec(
            invariant=inv, variant=TK.scan_variant, modifies=["self._chars:window", "self._index", "self._value", "self._start", "char"], prepare=TK.prep_char)
        st = State()
        me, chars, toks = TK.new_tokenizer(st, nonempty=True)
        # element position: no token yet, or the last token is none of Colon / LCurly / Comma
        last = z3.Select(toks.arr, toks.hi - 1)
        st.pc.append(z3.Or(toks.hi == toks.lo, z3.And(last != TK.KIND["Colon"], last != TK.KIND["LCurly"], last != TK.KIND["Comma"], last >= 1, last <= len(TK.TOKEN_CLASSES))))
        first = z3.Select(chars.arr, chars.lo)
        st.pc.append(z3.And(first >= ord("A"), first <= ord("Z")))
        outs = _call(ex, qual, st, me)
        n_norm = 0
        for val, s1 in outs:
            if isinstance(val, Raised):
                # (Identifier.__post_init__ may refuse an empty text; not reachable here, but an allowed class -- C04's business)
                continue
            n_norm += 1
            c1: ListV = s1.deref(s1.deref(me).fields["_chars"])
            t1: ListV = s1.deref(s1.deref(me).fields["_tokens"])
            j = fresh("j", TK.I)
            sess.check("post", s1.pc, z3.And(c1.lo > chars.lo, c1.lo <= chars.hi, z3.BoolVal(c1.arr.eq(chars.arr))), 0, label="at least the first character is consumed, nothing but the input is looked at")
            sess.check("post", s1.pc, z3.ForAll([j], z3.Implies(z3.And(chars.lo < j, j < c1.lo), legal(z3.Select(chars.arr, j)))), 0,
                       label="every consumed character after the first is one the registry allows in a symbol")
            sess.check("post", s1.pc, z3.Or(c1.lo == chars.hi, z3.Not(legal(z3.Select(chars.arr, c1.lo)))), 0,
                       label="maximal: the scan stops only at the end or at a character the registry does not allow in a symbol")
            sess.check("post", s1.pc, z3.And(t1.hi == toks.hi + 1, z3.Select(t1.arr, t1.hi - 1) == TK.KIND["Identifier"]), 0, label="exactly one Identifier token is appended")
        sess.check("cover", [], z3.BoolVal(n_norm >= 1), 0, label=f"normal-exit paths={n_norm}")
        for ob in sess.obligations:
            m = getattr(ob, "_z3model", None)
            if ob.status == "refuted" and m is not None and not ob.expect_refuted:
                try:
                    lo = m.eval(chars.lo, model_completion=True).as_long()
                    hi = m.eval(chars.hi, model_completion=True).as_long()
                    text = "".join(chr(m.eval(z3.Select(chars.arr, z3.IntVal(i)), model_completion=True).as_long()) for i in range(lo, min(hi, lo + 12)))
                except Exception:      # noqa: BLE001
                    continue
                ob.replay = {"input": text, "repro": _SCAN_REPRO % (text,)}
        for val, s1 in outs:
            if not isinstance(val, Raised):
                sess.check("canary", s1.pc, z3.BoolVal(False), 0, label="ensures-False", expect_refuted=True)
                break
    return (f"{TK.MOD}:{qual} [element symbols]", TK.MOD, qual, run)


_targets_before_symbol_scan = targets


def targets():      # noqa: F811
    return _targets_before_symbol_scan() + [target_symbol_scan()]



def target_validate_symbol():
    """registry._validate_element_symbol: a symbol is accepted iff it is a non-blank string whose first character is an upper-case
    ASCII letter and whose every later character is a lower-case ASCII letter, a digit or '_' -- the very alphabet the tokenizer's
    element scan (target_symbol_scan) continues on.  The real function runs on a symbolic string: the character sets it builds
    are CharSet stand-ins that record which set a character was tested against; both answers are explored."""
    import string as _string
    from pyvc import overload as O
    MODR = "circuit/registry"

    class CharSet:
        def __init__(self, chars):
            self.chars = frozenset(chars)

        def __add__(self, other):
            return CharSet(self.chars | (other.chars if isinstance(other, CharSet) else frozenset(other)))

        def __radd__(self, other):
            return CharSet(self.chars | frozenset(other))

        def __contains__(self, ch):
            return ch.member(self)

        def __str__(self):
            return "".join(sorted(self.chars))

    def run(sess: Session):
        fn = find_def(MODR, "_validate_element_symbol")
        carried = [n.id for loop in ast.walk(fn) if isinstance(loop, (ast.For, ast.While)) for st_ in loop.body for n in ast.walk(st_)
                   if isinstance(n, ast.Name) and isinstance(n.ctx, ast.Store)]
        sess.check("frame", [], z3.BoolVal(not carried), fn.lineno, label="the per-character loop carries no state from one character to the next (so one generic character stands for all)")
        want = {"first": frozenset(_string.ascii_uppercase), "later": frozenset(_string.ascii_lowercase + _string.digits + "_")}
        outcomes = set()
        for blank, first_in, later_in, n_later in itertools.product((False, True), (False, True), (False, True), (0, 1, 2)):
            asked = []

            class Ch(str):
                def __new__(cls, role):
                    o = str.__new__(cls, "?")
                    o.role = role
                    return o

                def member(self, cs):
                    asked.append((self.role, cs.chars))
                    return first_in if self.role == "first" else later_in
                __hash__ = str.__hash__

            class Sym(str):
                def strip(self, *a):
                    return "" if blank else self

                def __getitem__(self, k):
                    if k == 0:
                        return Ch("first")
                    if isinstance(k, slice) and (k.start, k.stop, k.step) == (1, None, None):
                        return [Ch("later") for _ in range(n_later)]
                    raise O.Unsupported(f"symbol[{k!r}]")

                def __iter__(self):
                    raise O.Unsupported("iteration over the whole symbol")

                def __eq__(self, other):
                    return blank if other == "" and isinstance(other, str) and not isinstance(other, Sym) else NotImplemented
                __hash__ = str.__hash__
            ns = {"ascii_uppercase": CharSet(_string.ascii_uppercase), "ascii_lowercase": CharSet(_string.ascii_lowercase), "digits": CharSet(_string.digits),
                  "ascii_letters": CharSet(_string.ascii_letters), "isinstance": isinstance, "str": str, "TypeError": TypeError, "ValueError": ValueError}
            O.load(MODR, ["_validate_element_symbol"], ns)
            try:
                ns["_validate_element_symbol"](Sym("S"))
                res = "accepted"
            except ValueError:
                res = "ValueError"
            expect = "accepted" if (not blank and first_in and (later_in or n_later == 0)) else "ValueError"
            tag = f"[blank={blank}, first in set={first_in}, later in set={later_in}, {n_later} later characters]"
            outcomes.add(res)
            sess.check("post", [], z3.BoolVal(res == expect), fn.lineno, label=f"accepted iff not blank, first character upper-case, later characters legal{tag}")
            sess.check("post", [], z3.BoolVal(all(cs == want[role] for role, cs in asked)), fn.lineno, label=f"the sets tested are [A-Z] for the first and [a-z0-9_] for the later characters{tag}")
            if not blank and first_in and later_in:
                sess.check("post", [], z3.BoolVal([r for r, _ in asked] == ["first"] + ["later"] * n_later), fn.lineno, label=f"every character is tested{tag}")
        sess.check("cover", [], z3.BoolVal(outcomes == {"accepted", "ValueError"}), 0, label="both outcomes reached")
    return (f"{MODR}:_validate_element_symbol", MODR, "_validate_element_symbol", run)


_targets_before_validate_symbol = targets


def targets():      # noqa: F811
    return _targets_before_validate_symbol() + [target_validate_symbol()]



def target_docstring_total():
    """registry._set_element_docstring (a step of register_element): total for every well-formed definition -- ANY number of
    parameters and sub-circuits including none, with and without units / descriptions -- so that a valid element is never refused
    because of how its documentation is laid out; every parameter and sub-circuit symbol appears in the text, in order.
    Real function on small definition records (the loop bodies keep no state from one definition to the next)."""
    import itertools as _it
    from types import SimpleNamespace as NS
    from pyvc import overload as O
    REG = "circuit/registry"

    def run(sess: Session):
        n_ok = 0
        for n_par, n_sub, unit, descr in _it.product((0, 1, 3), (0, 1, 2), ("", "ohm"), ("", "Some text")):
            pars = [NS(symbol=f" P{k}x ", unit=unit, description=descr, value=1.5 * (k + 1), fixed=bool(k % 2), lower_limit=0.0, upper_limit=float("inf")) for k in range(n_par)]
            subs = [NS(symbol=f"S_{k}", unit=unit, description=descr, value=(None if k == 0 else NS(to_string=lambda: "[R]"))) for k in range(n_sub)]
            Class = type("Cls", (), {"_name": "Name", "_symbol": "Xy", "_description": "Descr", "_equation": "R"})
            ns = {"_process_description": lambda C: "processed", "_is_boolean": lambda x: isinstance(x, bool), "isinstance": isinstance, "float": float, "str": str, "len": len,
                  "max": max, "min": min, "map": map, "TypeError": TypeError}
            O.load(REG, ["_set_element_docstring"], ns)
            tag = f"[{n_par} parameters, {n_sub} sub-circuits, unit={unit!r}, description={'yes' if descr else 'no'}]"
            try:
                ns["_set_element_docstring"](Class, pars, subs)
                err = None
            except Exception as ex:       # noqa: BLE001
                err = f"{type(ex).__name__}: {ex}"
            ob = sess.check("exc-free", [], z3.BoolVal(err is None), 0, label=f"{tag}a well-formed definition is documented without an exception")
            if err:
                ob.detail = err
                continue
            n_ok += 1
            doc = Class.__doc__ or ""
            pos = [doc.find(x.symbol.strip()) for x in pars + subs]
            sess.check("post", [], z3.BoolVal(all(p_ >= 0 for p_ in pos) and pos == sorted(pos) and "Xy" in doc), 0, label=f"{tag}the text names the element symbol and every parameter / sub-circuit, in order")
        sess.check("cover", [], z3.BoolVal(n_ok >= 30), 0, label=f"definitions documented: {n_ok}")
    return (f"{REG}:_set_element_docstring", REG, "_set_element_docstring", run)


_targets_before_docstring = targets


def targets():      # noqa: F811
    return _targets_before_docstring() + [target_docstring_total()]



def target_subcircuit_keywords():
    """Parser.subcircuit: in sub-circuit position the words `zero` / `short` (a short circuit) and `inf` / `open` (an open circuit)
    are keywords -- exactly these four spellings.  Any other identifier, including the legal element symbols `Open`, `Short`,
    `Zero`, `Inf` a user may register, is read as an element (list) like everywhere else, so every registered symbol stays usable
    inside container elements.  Real method (helpers compiled from the tree) on a small token list; `main_loop` is a stand-in
    that consumes one token and pushes one element."""
    from pyvc import overload as O
    PA = "circuit/parser"

    def run(sess: Session):
        class Tok:
            def __init__(self, value=None):
                self.value = value
        kinds = {n: type(n, (Tok,), {}) for n in ("Identifier", "Comma", "Colon", "RCurly", "LBracket", "RBracket", "LParen", "RParen", "Token")}

        class El:
            def __init__(self, sym):
                self.sym = sym

        class Conn:
            def __init__(self, elements):
                self.elements = list(elements)
        outcomes = set()
        words = [("zero", "short-circuit"), ("short", "short-circuit"), ("inf", "open"), ("open", "open")] + [(w, "element") for w in ("Open", "Short", "Zero", "Inf", "Opena", "R", "Zero_1", "Shorty", "Ls")]
        for word, want in words:
            ns = dict(kinds)
            ns.update({"Series": Conn, "Parallel": Conn, "Element": El, "Connection": Conn, "isinstance": isinstance, "type": type, "len": len, "InsufficientTokens": type("InsufficientTokens", (Exception,), {}),
                       "TypeError": TypeError})
            looped = []

            class Me(O.auto_methods(PA, "Parser", ns)):
                def main_loop(self):
                    tok = self._tokens.pop(0)
                    looped.append(tok.value)
                    self.push_stack(El(tok.value))
            me = Me()
            me._tokens = [kinds["Identifier"](word), kinds["RCurly"]("}")]
            me._stack = ["below"]
            O.load(PA, ["Parser.subcircuit"], ns)
            try:
                out = ns["subcircuit"](me, kinds["Identifier"]("X_1"))
            except Exception as ex:      # noqa: BLE001
                out = ex
            if want == "short-circuit":
                ok = isinstance(out, Conn) and out.elements == [] and not looped and len(me._tokens) == 1
            elif want == "open":
                ok = out is None and not looped and len(me._tokens) == 1
            else:
                ok = isinstance(out, Conn) and [getattr(e, "sym", None) for e in out.elements] == [word] and looped == [word] and len(me._tokens) == 1
            outcomes.add(want)
            sess.check("post", [], z3.BoolVal(bool(ok) and me._stack == ["below"]), 0, label=f"[{word!r} in sub-circuit position]read as {'the keyword for a ' + want if want != 'element' else 'an element, not as a keyword'}; the stack below is untouched")
        sess.check("cover", [], z3.BoolVal(outcomes == {"short-circuit", "open", "element"}), 0, label="all three readings reached")
    return (f"{PA}:Parser.subcircuit [keywords]", PA, "Parser.subcircuit", run)


_targets_before_keywords = targets


def targets():      # noqa: F811
    return _targets_before_keywords() + [target_subcircuit_keywords()]
