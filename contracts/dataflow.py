"""Data-flow (EUF) obligations on result-assembly sites (C08, C12, C19).

The real entry-point function is compiled from the working tree (annotations/docstring stripped, nothing else) and run by
CPython on *uninterpreted terms*: every input is a term, every operator / attribute / call on a term builds a new term
(z3 uninterpreted functions over one sort V), the numerical helpers are stubs that return the term their contract
promises.  Branches on terms are decided by an oracle and all oracle choices are enumerated by re-execution.
At the result constructor we get the actual argument terms and ask z3 (EUF + three algebraic axioms) whether they equal
the specification terms.  Assumed: the opaque callees are pure and deterministic.
"""
from __future__ import annotations

import ast
import itertools
from typing import Any, Callable, Dict, List, Optional

import z3

from pyvc import core
from pyvc import overload as O
from pyvc.core import Session

V = z3.DeclareSort("V")
_funcs: Dict[Any, z3.FuncDeclRef] = {}


def fn(name: str, arity: int) -> z3.FuncDeclRef:
    key = (name, arity)
    if key not in _funcs:
        _funcs[key] = z3.Function(f"{name}/{arity}", *([V] * arity + [V]))
    return _funcs[key]


_consts: Dict[Any, z3.ExprRef] = {}


def lit(x) -> z3.ExprRef:
    key = (type(x).__name__, repr(x))
    if key not in _consts:
        _consts[key] = z3.Const(f"lit:{x!r}", V)
    return _consts[key]


class Decide(Exception):
    pass


class What(str):
    """name of a decision ('gt', 'eq', 'truth'); .key identifies the compared terms"""
    key: str = ""


class Oracle:
    """sequence of boolean decisions for branches on terms; enumerated depth-first by the runner.  The same question (same
    operator on the same terms) asked twice on a path gets the same answer."""

    def __init__(self, script: List[bool]):
        self.script, self.i, self.log = list(script), 0, []
        self.facts: List[z3.ExprRef] = []      # equalities / disequalities decided on this path
        self.asked: Dict[str, bool] = {}

    def decide(self, what: str, key: str = "") -> bool:
        if key and key in self.asked:
            return self.asked[key]
        if self.i < len(self.script):
            v = self.script[self.i]
        else:
            v = True
            self.script.append(v)
        self.i += 1
        w = What(what)
        w.key = key
        self.log.append((w, v))
        if key:
            self.asked[key] = v
        return v


ORACLE: Optional[Oracle] = None
DEFAULT_ANSWER = True          # outside `explore`: a target that runs its function once per answer sets this (see c19 drt commands)


class _Fallback(Oracle):
    def decide(self, what: str, key: str = "") -> bool:
        if key and key in self.asked:
            return self.asked[key]
        self.log.append((What(what), DEFAULT_ANSWER))
        if key:
            self.asked[key] = DEFAULT_ANSWER
        return DEFAULT_ANSWER


_FALLBACK: Optional[_Fallback] = None


def _fallback_oracle() -> Oracle:
    global _FALLBACK
    if _FALLBACK is None:
        _FALLBACK = _Fallback([])
    return _FALLBACK


def reset_fallback(answer: bool):
    """start a run outside `explore` in which every question about a term is answered `answer`"""
    global _FALLBACK, DEFAULT_ANSWER
    DEFAULT_ANSWER = answer
    _FALLBACK = _Fallback([])


def tv(x) -> z3.ExprRef:
    if isinstance(x, T):
        return x.e
    if isinstance(x, (int, float, str, bool, complex)) or x is None:
        return lit(x)
    if isinstance(x, (tuple, list)):
        return fn(f"tuple{len(x)}", len(x))(*[tv(i) for i in x]) if x else lit(())
    if isinstance(x, dict):
        return fn(f"dict:{','.join(map(str, x.keys()))}", len(x))(*[tv(i) for i in x.values()]) if x else lit({})
    return lit(f"<{type(x).__name__}>")         # opaque python object (progress handle, function): identified by its type


class T:
    """uninterpreted term"""

    def __init__(self, e: z3.ExprRef, length: Optional[int] = None):
        object.__setattr__(self, "e", e)
        object.__setattr__(self, "_len", length)

    @staticmethod
    def var(name: str) -> "T":
        return T(z3.Const(name, V))

    def _bin(self, op, other, rev=False):
        a, b = (tv(other), self.e) if rev else (self.e, tv(other))
        return T(fn(op, 2)(a, b))

    def __add__(s, o): return s._bin("add", o)
    def __radd__(s, o): return s._bin("add", o, True)
    def __sub__(s, o): return s._bin("sub", o)
    def __rsub__(s, o): return s._bin("sub", o, True)
    def __mul__(s, o): return s._bin("mul", o)
    def __rmul__(s, o): return s._bin("mul", o, True)
    def __truediv__(s, o): return s._bin("div", o)
    def __rtruediv__(s, o): return s._bin("div", o, True)
    def __pow__(s, o): return s._bin("pow", o)
    def __rpow__(s, o): return s._bin("pow", o, True)
    def __neg__(s): return T(fn("neg", 1)(s.e))
    def __abs__(s): return T(fn("abs", 1)(s.e))
    def __getitem__(s, k): return T(fn("getitem", 2)(s.e, tv(k if not isinstance(k, slice) else ("slice", k.start, k.stop, k.step))))

    def __getattr__(s, name):
        if name.startswith("__"):
            raise AttributeError(name)
        return T(fn(f"attr:{name}", 1)(s.e))

    def __call__(s, *args, **kw):
        # a method / callable term: fold arguments in (keyword names are part of the symbol)
        names = sorted(kw)
        sym = "call" + "".join(f":{n}" for n in names)
        return T(fn(sym, 1 + len(args) + len(names))(s.e, *[tv(a) for a in args], *[tv(kw[n]) for n in names]))

    def _cmp(s, op, o):
        orc = ORACLE if ORACLE is not None else _fallback_oracle()
        v = orc.decide(f"{op}", f"{op}({s.e}, {tv(o)})")
        if op == "eq":
            orc.facts.append(s.e == tv(o) if v else s.e != tv(o))
        return v

    def __lt__(s, o): return s._cmp("lt", o)
    def __le__(s, o): return s._cmp("le", o)
    def __gt__(s, o): return s._cmp("gt", o)
    def __ge__(s, o): return s._cmp("ge", o)
    def __eq__(s, o): return s._cmp("eq", o)
    def __ne__(s, o): return not s._cmp("eq", o)
    __hash__ = None

    def __bool__(s):
        return (ORACLE if ORACLE is not None else _fallback_oracle()).decide("truth", f"truth({s.e})")

    def __len__(s):
        return s._len if s._len is not None else 7

    def __iter__(s):
        raise O.Unsupported("iteration over an opaque term (the stub must return a concrete tuple/list)")


def tolerant(name: str) -> Callable:
    """numpy.isclose / allclose on terms: a tolerance test is a question of its own -- "close" does not imply "equal" (only equal
    implies close), so on the path where it answers yes nothing is learnt about the values"""
    def f(a, b, *r, **k):
        key = f"{name}({tv(a)}, {tv(b)})"
        v = ORACLE.decide(name, key)
        if not v:
            ORACLE.facts.append(tv(a) != tv(b))       # not close => not equal
        return v
    return f


def opaque(name: str, length: Optional[int] = None) -> Callable:
    """a pure, deterministic callee: result is name(args..., kw...)"""
    def f(*args, **kw):
        names = sorted(kw)
        sym = name + "".join(f":{n}" for n in names)
        n = len(args) + len(names)
        if n == 0:
            return T(z3.Const(name + "()", V), length)
        return T(fn(sym, n)(*[tv(a) for a in args], *[tv(kw[k]) for k in names]), length)
    return f


AXIOMS: List[z3.ExprRef] = []


def _axioms():
    if AXIOMS:
        return AXIOMS
    x = z3.Const("x", V)
    pw, sub = fn("pow", 2), fn("sub", 2)
    AXIOMS.extend([
        z3.ForAll([x], pw(x, lit(1)) == x),
        z3.ForAll([x], pw(pw(x, lit(-1)), lit(-1)) == x),
        z3.ForAll([x], sub(x, lit(0.0)) == x),
        z3.ForAll([x], fn("add", 2)(x, lit(0.0)) == x),
    ])
    return AXIOMS


class Recorder:
    def __init__(self, name):
        self.name, self.calls = name, []

    def __call__(self, *args, **kw):
        self.calls.append((args, kw))
        return T(z3.Const(f"result:{self.name}#{len(self.calls)}", V))


class FakeProgress:
    def __init__(self, *a, **k):
        self.n = 0

    def __enter__(self):
        return self

    def __exit__(self, *a):
        return False

    def increment(self, *a, **k):
        self.n += 1

    def set_message(self, *a, **k):
        pass


def explore(run: Callable[[], Any], max_paths: int = 64):
    """enumerate oracle scripts depth-first; yields (decision log, result)"""
    global ORACLE
    stack: List[List[bool]] = [[]]
    n = 0
    while stack and n < max_paths:
        script = stack.pop()
        ORACLE = Oracle(script)
        res = run()
        log = list(ORACLE.log)
        n += 1
        yield log, res, list(ORACLE.facts)
        # schedule the sibling of every decision made beyond the given script
        for j in range(len(script), len(log)):
            alt = [v for _, v in log[:j]] + [not log[j][1]]
            stack.append(alt)


def eq_check(sess: Session, label: str, got, want, extra_hyps=(), line: int = 0):
    sess.check("post", list(_axioms()) + list(extra_hyps), tv(got) == tv(want), line, label=label)


# ------------------------------------------------------------------------------------------------ perform_zhit

ZHIT = "analysis/zhit/__init__"


def target_zhit():
    qual = "perform_zhit"

    def run(sess: Session):
        paths = 0
        for admittance in (False, True):
            def once():
                data = T.var("data")
                rec = Recorder("ZHITResult")
                chi, xfit = T.var("chi_best"), T.var("X_fit_best")
                ns: Dict[str, Any] = {}
                captured: Dict[str, Any] = {}

                def adjust(reconstructions, window_options, ln_modulus_exp, X_exp, admittance_, num_procs, prog):
                    captured["X_exp_used_for_chisqr"] = X_exp
                    return [(chi, xfit, "smoothing*", "interpolation*", "window*")]
                ns.update({
                    "isclose": tolerant("isclose"), "allclose": tolerant("allclose"),
                    "_is_boolean": lambda x: True, "_is_integer": lambda x: True, "_is_floating": lambda x: True, "_is_floating_array": lambda x: True,
                    "isinstance": lambda a, b: True, "DataSet": object, "_SMOOTHING_METHODS": ["auto"], "_INTERPOLATION_METHODS": ["auto"],
                    "_WINDOW_FUNCTIONS": {"boxcar": None}, "_initialize_window_functions": lambda: None,
                    "log": opaque("log"), "ln": opaque("ln"), "pi": 3.0, "angle": opaque("angle"), "min": opaque("min"), "abs": lambda x: abs(x) if not isinstance(x, T) else T(fn("abs", 1)(x.e)),
                    "max": max, "len": len, "get_default_num_procs": lambda: 1, "Progress": FakeProgress,
                    "_generate_window_options": opaque("window_options"), "_generate_smoothing_options": opaque("smoothing_options"),
                    "_generate_interpolation_options": lambda *a: (opaque("interp_options")(*a[:3]), opaque("sim_phase")(*a[:3])),
                    "_reconstruct_modulus_data": opaque("reconstructions"), "_adjust_modulus_offset": adjust,
                    "_calculate_residuals": opaque("_calculate_residuals"), "_calculate_pseudo_chisqr": opaque("_calculate_pseudo_chisqr"), "ZHITResult": rec,
                })
                O.load(ZHIT, [qual], ns)
                ns[qual](data, smoothing="modsinc", interpolation="akima", window="boxcar", num_points=3, polynomial_order=2, num_iterations=3,
                         center=1.5, width=3.0, weights=T.var("weights"), admittance=admittance, num_procs=1)
                return rec, captured, data, chi, xfit
            for log, (rec, cap, data, chi, xfit), facts in explore(once):
                paths += 1
                tag = f"[admittance={admittance}," + ",".join(f"{w}={v}" for w, v in log) + "]"
                sess.check("post", [], z3.BoolVal(len(rec.calls) == 1), 0, label=f"one-result{tag}")
                if len(rec.calls) != 1:
                    continue
                kw = rec.calls[0][1]
                Zexp = data.get_impedances()
                eq_check(sess, f"frequencies==data.get_frequencies(){tag}", kw["frequencies"], data.get_frequencies())
                Zfit = kw["impedances"]
                eq_check(sess, f"residuals==residuals(data.get_impedances(), impedances){tag}", kw["residuals"], opaque("_calculate_residuals")(Z_exp=Zexp, Z_fit=Zfit))
                # contract of _adjust_offset (offset.py, proved below): chi == chisqr(X_exp_used ** s, X_fit_best ** s)
                s_ = -1 if admittance else 1
                hyp = facts + [tv(chi) == tv(opaque("_calculate_pseudo_chisqr")(Z_exp=cap["X_exp_used_for_chisqr"] ** s_, Z_fit=xfit ** s_))]
                eq_check(sess, f"pseudo_chisqr==chisqr(data.get_impedances(), impedances){tag}", kw["pseudo_chisqr"],
                         opaque("_calculate_pseudo_chisqr")(Z_exp=Zexp, Z_fit=Zfit), extra_hyps=hyp)
        sess.check("cover", [], z3.BoolVal(paths >= 3), 0, label=f"paths={paths}")
        sess.assumptions.append("opaque numerical callees are pure and deterministic (uninterpreted functions of their arguments)")
    return (f"{ZHIT}:{qual}", ZHIT, qual, run)


def c08_targets():
    return [target_zhit()]


# ------------------------------------------------------------------------------------------------ Kramers-Kronig producers
EXPL = "analysis/kramers_kronig/exploratory"


class _Circuit:
    def __init__(self, name):
        self.term = T.var(name)

    def get_impedances(self, f):
        return opaque("circuit.get_impedances")(self.term, f)

    def get_elements(self, *a, **k):
        return []


def target_kk_producer(fname: str, worker: str):
    """_use_matrix_inversion / _use_least_squares_fitting: the pseudo chi-squared stored with each fitted circuit is
    chisqr(Z_exp, circuit.get_impedances(f), weight = Boukamp weight of the IMPEDANCES), i.e. the sum of |residual|^2 of C08's
    algebra, whatever representation the fit itself used; circuits, num_RCs and chi-squares stay paired."""
    def run(sess: Session):
        for admittance in (False, True):
            f, Zexp, w_in = T.var("f"), T.var("Z_exp"), T.var("fit_weight")
            circuits = {3: _Circuit("circuit3"), 5: _Circuit("circuit5"), 4: _Circuit("circuit4")}
            kkfits = []

            def KKFits(**kw):
                kkfits.append(kw)
                return kw
            ns = {worker: lambda args: (args[4], circuits[args[4]]), "map": map, "_boukamp_weight": opaque("kk._boukamp_weight"),
                  "_calculate_pseudo_chisqr": opaque("_calculate_pseudo_chisqr"), "_KKFits": KKFits, "sorted": sorted}
            O.load(EXPL, [fname], ns)
            kwargs = dict(test="complex", f=f, Z_exp=Zexp, weight=w_in, num_RCs=[3, 5, 4], add_capacitance=True, admittance=admittance, log_F_ext=0.0, prog=None)
            if fname == "_use_least_squares_fitting":
                kwargs["add_inductance"] = True
            ns[fname](**kwargs)
            tag = f"[{fname},admittance={admittance}]"
            sess.check("post", [], z3.BoolVal(len(kkfits) == 1 and kkfits[0].get("num_RCs") == [3, 4, 5] and kkfits[0].get("circuits") == [circuits[3], circuits[4], circuits[5]]), 0, label=f"circuits sorted by num_RC, pairs kept{tag}")
            if len(kkfits) == 1:
                for n_, chi in zip(kkfits[0]["num_RCs"], kkfits[0]["pseudo_chisqrs"]):
                    want = opaque("_calculate_pseudo_chisqr")(Zexp, circuits[n_].get_impedances(f), opaque("kk._boukamp_weight")(Zexp, admittance=False))
                    eq_check(sess, f"pseudo_chisqr[num_RC={n_}] == chisqr(Z_exp, circuit.get_impedances(f), weight(Z_exp as impedance)){tag}", chi, want)
    return (f"{EXPL}:{fname}", EXPL, fname, run)


def target_kk_producer_cnls():
    """_use_cnls (the non-linear implementation, run through a process pool): same contract as the two linear producers -- the pseudo
    chi-squared stored with each fitted circuit uses the Boukamp weight of the IMPEDANCES whatever representation was fitted (the fit
    weight handed in is the admittance weight when admittance=True, and a chi-squared computed with it is not the statistic every
    other path reports: it scales with the fourth power of the impedance unit); circuits, num_RCs and chi-squares stay paired."""
    def run(sess: Session):
        for admittance in (False, True):
            f, Zexp, w_in = T.var("f"), T.var("Z_exp"), T.var("fit_weight")
            circuits = {3: _Circuit("circuit3"), 5: _Circuit("circuit5"), 4: _Circuit("circuit4")}
            kkfits, items = [], []

            def KKFits(**kw):
                kkfits.append(kw)
                return kw

            class It:
                def __init__(self, worker, args):
                    self.worker, self.args = worker, iter(args)

                def next(self, timeout=None):
                    return self.worker(next(self.args))      # StopIteration when the work items are exhausted

            class Pool:
                def __init__(self, n=None):
                    pass

                def __enter__(self):
                    return self

                def __exit__(self, *a):
                    return False

                def imap(self, worker, args, chunksize=1):
                    return It(worker, args)

            def worker(args):
                items.append(args)
                return (args[3], circuits[args[3]])
            ns = {"_cnls_test": worker, "Pool": Pool, "MPTimeoutError": type("MPTimeoutError", (Exception,), {}), "KramersKronigError": type("KramersKronigError", (Exception,), {}),
                  "_boukamp_weight": opaque("kk._boukamp_weight"), "_calculate_pseudo_chisqr": opaque("_calculate_pseudo_chisqr"), "_KKFits": KKFits, "sorted": sorted, "next": next,
                  "len": len, "sum": sum, "abs": abs, "log": opaque("log"), "StopIteration": StopIteration}
            O.load(EXPL, ["_use_cnls"], ns)
            ns["_use_cnls"](f=f, Z_exp=Zexp, weight=w_in, automatically_limit_num_RC=False, num_RCs=[3, 5, 4], add_capacitance=True, add_inductance=False, admittance=admittance,
                            log_F_ext=0.25, method="leastsq", max_nfev=50, num_procs=2, timeout=60, prog=None)
            tag = f"[_use_cnls,admittance={admittance}]"
            sess.check("post", [], z3.BoolVal(len(kkfits) == 1 and kkfits[0].get("num_RCs") == [3, 4, 5] and kkfits[0].get("circuits") == [circuits[3], circuits[4], circuits[5]] and kkfits[0].get("log_F_ext") == 0.25), 0, label=f"circuits sorted by num_RC, pairs kept{tag}")
            sess.check("post", [], z3.BoolVal(len(items) == 3 and all(it[2] is w_in and it[0] is f and it[1] is Zexp for it in items)), 0, label=f"every fit gets the frequencies, impedances and the fit weight that were handed in{tag}")
            if len(kkfits) == 1:
                for n_, chi in zip(kkfits[0]["num_RCs"], kkfits[0]["pseudo_chisqrs"]):
                    want = opaque("_calculate_pseudo_chisqr")(Zexp, circuits[n_].get_impedances(f), opaque("kk._boukamp_weight")(Zexp, admittance=False))
                    eq_check(sess, f"pseudo_chisqr[num_RC={n_}] == chisqr(Z_exp, circuit.get_impedances(f), weight(Z_exp as impedance)){tag}", chi, want)
    return (f"{EXPL}:_use_cnls", EXPL, "_use_cnls", run)


def target_kk_results():
    """evaluate_log_F_ext, result assembly: every KramersKronigResult carries frequencies = data.get_frequencies(), impedances =
    circuit.get_impedances(frequencies), residuals = residuals(data.get_impedances(), impedances) and the chi-square paired with
    that circuit"""
    qual = "evaluate_log_F_ext"

    def run(sess: Session):
        import ast as _ast
        from pyvc.core import find_def, strip_docstring
        fn = find_def(EXPL, qual)
        body = strip_docstring(fn.body)
        start = None
        for i, s_ in enumerate(body):
            if isinstance(s_, (_ast.AnnAssign, _ast.Assign)) and "data.get_frequencies()" in _ast.unparse(s_):
                start = i
        if start is None:
            sess.unsupported("result assembly of evaluate_log_F_ext not found", fn.lineno)
            return
        sub = _ast.FunctionDef(name="assembly", args=_ast.arguments(posonlyargs=[], args=[_ast.arg(arg=a) for a in ("data", "evaluations", "test")], kwonlyargs=[], kw_defaults=[], defaults=[]),
                               body=body[start:], decorator_list=[], lineno=body[start].lineno, col_offset=0, end_lineno=body[-1].end_lineno, end_col_offset=0)
        mod_ = _ast.Module(body=[O.strip(sub)], type_ignores=[])
        _ast.fix_missing_locations(mod_)
        made = []

        def Result(**kw):
            made.append(kw)
            return ("result", len(made))
        c1, c2 = _Circuit("c1"), _Circuit("c2")
        from types import SimpleNamespace
        fits = SimpleNamespace(circuits=[c1, c2], pseudo_chisqrs=[T.var("chi1"), T.var("chi2")], log_F_ext=0.0, num_RCs=[3, 4])
        ns = {"KramersKronigResult": Result, "_calculate_residuals": opaque("_calculate_residuals"), "isinstance": isinstance, "str": str, "sorted": sorted, "zip": zip}
        exec(compile(mod_, "<exploratory:evaluate_log_F_ext[assembly]>", "exec"), ns)
        data = T.var("data")
        out = ns["assembly"](data, [(fits, 0.5)], "complex")
        sess.check("post", [], z3.BoolVal(len(made) == 2 and len(out) == 1), 0, label="one result per fitted circuit")
        for kw, c, chi in zip(made, (c1, c2), fits.pseudo_chisqrs):
            eq_check(sess, "frequencies == data.get_frequencies()", kw["frequencies"], data.get_frequencies())
            eq_check(sess, "impedances == circuit.get_impedances(frequencies)", kw["impedances"], c.get_impedances(data.get_frequencies()))
            eq_check(sess, "residuals == residuals(data.get_impedances(), impedances)", kw["residuals"], opaque("_calculate_residuals")(Z_exp=data.get_impedances(), Z_fit=kw["impedances"]))
            sess.check("post", [], z3.BoolVal(kw["circuit"] is c and kw["pseudo_chisqr"] is chi), 0, label="circuit and its own pseudo chi-squared stay paired")
    return (f"{EXPL}:{qual}[assembly]", EXPL, qual, run)


_c08_zhit_only = c08_targets


def c08_targets():       # noqa: F811
    return _c08_zhit_only() + [target_kk_producer("_use_matrix_inversion", "_inversion_test"), target_kk_producer("_use_least_squares_fitting", "_leastsq_test"), target_kk_producer_cnls(), target_kk_results()]


# ------------------------------------------------------------------------------------------------ fitting
FITTING = "analysis/fitting"


def target_fit_process():
    """_fit_process: fits a deep copy, writes the fitted values into that copy BEFORE evaluating it, and the returned pseudo
    chi-squared is chisqr(Z_exp, copy.get_impedances(f)) of the returned circuit in its returned state"""
    qual = "_fit_process"

    def run(sess: Session):
        class Cir:
            def __init__(self, name):
                self.name, self.version = name, 0

            def get_impedances(self, f):
                return opaque("get_impedances")(T.var(f"{self.name}@v{self.version}"), f)
        n = 0

        def once():
            orig = Cir("original")
            copies = []

            def deepcopy(c):
                k = Cir(f"copy{len(copies)}_of_{c.name}")
                copies.append(k)
                return k
            log = []
            fit = type("Fit", (), {"params": T.var("fit.params"), "ndata": T.var("fit.ndata"), "chisqr": T.var("fit.chisqr")})()

            def from_lmfit(params, identifiers):
                log.append(("from_lmfit", params, identifiers))
                for c in copies:
                    c.version += 1
            ns = {"deepcopy": deepcopy, "Circuit": Cir, "isinstance": isinstance, "_is_floating_array": lambda x: True, "_is_complex_array": lambda x: True, "_is_integer": lambda x: True,
                  "_is_boolean": lambda x: True, "str": str, "generate_fit_identifiers": opaque("generate_fit_identifiers"), "_WEIGHT_FUNCTIONS": {"boukamp": "W"},
                  "catch_warnings": type("CW", (), {"__enter__": lambda s: s, "__exit__": lambda s, *a: False}), "filterwarnings": lambda *a, **k: None,
                  "minimize": lambda *a, **k: log.append(("minimize", a, k)) or fit, "_residual": "residual", "_to_lmfit": opaque("_to_lmfit"), "_from_lmfit": from_lmfit,
                  "_calculate_pseudo_chisqr": opaque("_calculate_pseudo_chisqr"), "len": lambda x: T.var("len(f)"), "log": opaque("log"), "inf": float("inf"), "format_exc": lambda: "tb",
                  "DeprecationWarning": DeprecationWarning, "RuntimeWarning": RuntimeWarning, "Exception": Exception, "Warning": Warning}
            O.load(FITTING, [qual], ns)
            f, Z = T.var("f"), T.var("Z_exp")
            out = ns[qual]((orig, f, Z, "leastsq", "boukamp", T.var("max_nfev"), True, {}, {}))
            return orig, copies, log, out, f, Z, fit
        for dec, (orig, copies, log, out, f, Z, fit), facts in explore(once):
            n += 1
            tag = "[" + ",".join(f"{w}={v}" for w, v in dec) + "]"
            circuit, chi, fitobj = out[0], out[1], out[2]
            sess.check("frame", [], z3.BoolVal(len(copies) == 1 and circuit is copies[0] and circuit is not orig and orig.version == 0), 0, label=f"works on and returns ONE deep copy; the circuit passed in is untouched{tag}")
            if fitobj is None:
                sess.check("post", [], z3.BoolVal(chi == float("inf")), 0, label=f"a rejected fit is reported with chi-squared inf{tag}")
                continue
            order = [e[0] for e in log]
            sess.check("post", [], z3.BoolVal(order == ["minimize", "from_lmfit"] and log[1][1] is fit.params), 0, label=f"fitted values (fit.params) are written into the copy before it is evaluated{tag}")
            args_, kw_ = log[0][1], log[0][2]
            sess.check("post", [], z3.BoolVal(kw_.get("args", (None,))[0] is circuit and args_[2] == "leastsq"), 0, label=f"the minimiser works on the same copy with the requested method{tag}")
            eq_check(sess, f"pseudo_chisqr == chisqr(Z_exp, returned circuit.get_impedances(f)) in its final state{tag}", chi,
                     opaque("_calculate_pseudo_chisqr")(Z_exp=Z, Z_fit=opaque("get_impedances")(T.var(f"{circuit.name}@v1"), f)))
        sess.check("cover", [], z3.BoolVal(n >= 2), 0, label=f"paths={n}")
    return (f"{FITTING}:{qual}", FITTING, qual, run)


def target_convert_result():
    qual = "_convert_intermediate_result"

    def run(sess: Session):
        made = []

        class Cir:
            def get_impedances(self, f):
                return opaque("get_impedances")(T.var("circuit"), f)
        cir = Cir()
        ns = {"FitResult": lambda **kw: made.append(kw) or "RESULT", "_extract_parameters": opaque("_extract_parameters"), "_calculate_residuals": opaque("_calculate_residuals"),
              "FittingError": type("FittingError", (Exception,), {})}
        O.load(FITTING, [qual], ns)
        f, Z, Xps, fit = T.var("f"), T.var("Z_exp"), T.var("Xps"), T.var("fit")
        ORACLE_SAVE = None
        global ORACLE
        ORACLE = Oracle([])
        out = ns[qual]((cir, Xps, fit, "m", "w", ""), f, Z)
        kw = made[0]
        sess.check("post", [], z3.BoolVal(out == "RESULT" and kw["circuit"] is cir and kw["pseudo_chisqr"] is Xps and kw["frequencies"] is f and kw["minimizer_result"] is fit and (kw["method"], kw["weight"]) == ("m", "w")), 0, label="circuit, chi-squared, frequencies, method, weight passed through unchanged")
        eq_check(sess, "impedances == circuit.get_impedances(frequencies)", kw["impedances"], cir.get_impedances(f))
        eq_check(sess, "residuals == residuals(Z_exp, impedances)", kw["residuals"], opaque("_calculate_residuals")(Z, kw["impedances"]))
        eq_check(sess, "parameters == _extract_parameters(circuit, fit)", kw["parameters"], opaque("_extract_parameters")(cir, fit))
    return (f"{FITTING}:{qual}", FITTING, qual, run)


_c08_without_fit = c08_targets


def c08_targets():       # noqa: F811
    return _c08_without_fit() + [target_fit_process(), target_convert_result()]


# ------------------------------------------------------------------------------------------------ DRT (TR-NNLS)
TRNNLS = "analysis/drt/tr_nnls"


def real_progress_class():
    """the real pyimpspec.progress.Progress (notification back end stubbed), so an excess increment raises as in production"""
    import ast as _ast
    from pyvc.core import find_def
    cls = find_def("progress", "Progress")
    cls2 = _ast.ClassDef(name="Progress", bases=[], keywords=[], body=[O.strip(m) for m in cls.body if isinstance(m, _ast.FunctionDef)], decorator_list=[])
    m2 = _ast.Module(body=[cls2], type_ignores=[])
    _ast.fix_missing_locations(m2)
    pns = {"_update_every_N_percent": lambda **kw: None}
    exec(compile(m2, "<progress:Progress>", "exec"), pns)
    return pns["Progress"]


def target_trnnls(which: str):
    """calculate_drt_tr_nnls on uninterpreted terms, for the three lambda modes (oracle-enumerated) and both fit modes:
    which='result'  -> the TRNNLSResult is consistent with the data (C08);
    which='steps'   -> the hand-written total of the Progress context covers the increments on every path (C18)."""
    qual = "calculate_drt_tr_nnls"

    def run(sess: Session):
        n = 0
        for mode in ("real", "imaginary"):
            def once():
                made, progs = [], []
                RP = real_progress_class()

                def mkprog(*a, **k):
                    p = RP(*a, **k)
                    progs.append(p)
                    return p
                data = T.var("data")
                ns = {"isinstance": lambda a, b: True, "_MODES": ["real", "imaginary"], "_is_floating": lambda x: True, "_is_integer": lambda x: True, "DataSet": object, "str": str,
                      "Progress": mkprog, "len": lambda x: 5, "pi": 3.0, "identity": opaque("identity"), "int64": None, "float64": None,
                      "_calculate_delta_ln_tau": opaque("_calculate_delta_ln_tau"), "_normalize_impedance": lambda Z: (opaque("Z_norm")(Z), opaque("R_inf")(Z), opaque("R_pol")(Z)),
                      "_generate_A_matrix": opaque("_generate_A_matrix"), "_generate_b_vector": opaque("_generate_b_vector"), "_l_curve_corner_search": opaque("_l_curve_corner_search"),
                      "_l_curve_P": opaque("_l_curve_P"), "_suggest_lambda": opaque("_suggest_lambda"), "_test_lambda_values": lambda *a: (opaque("tested")(*a),),
                      "_generate_lambda_values": opaque("_generate_lambda_values"), "_generate_tikhonov_matrix": opaque("_generate_tikhonov_matrix"), "_solve": opaque("_solve"),
                      "_generate_model_impedance": opaque("_generate_model_impedance"), "_calculate_residuals": opaque("_calculate_residuals"),
                      "_calculate_pseudo_chisqr": opaque("_calculate_pseudo_chisqr"), "TRNNLSResult": lambda **kw: made.append(kw) or "RESULT"}
                O.load(TRNNLS, [qual], ns)
                err = None
                try:
                    ns[qual](data, mode=mode, lambda_value=T.var("lambda_value"), max_iter=7)
                except Exception as ex:  # noqa
                    err = ex
                return data, made, progs, err
            for dec, (data, made, progs, err), facts in explore(once):
                n += 1
                tag = f"[mode={mode}," + ",".join(f"{w}={v}" for w, v in dec) + "]"
                if which == "steps":
                    ob = sess.check("exc-free", [], z3.BoolVal(err is None), 0, label=f"no abort from step accounting{tag}")
                    if err is not None:
                        ob.detail = f"{type(err).__name__}: {str(err)[:120]}"
                    if progs:
                        p = progs[0]
                        sess.check("post", [], z3.BoolVal(0 <= p._i <= p._total), 0, label=f"0 <= steps taken <= total{tag}")
                    continue
                if err is not None or len(made) != 1:
                    sess.check("post", [], z3.BoolVal(False), 0, label=f"returns one result{tag}")
                    continue
                kw = made[0]
                Z = data.get_impedances()
                eq_check(sess, f"frequencies == data.get_frequencies(){tag}", kw["frequencies"], data.get_frequencies())
                eq_check(sess, f"residuals == residuals(data.get_impedances(), impedances){tag}", kw["residuals"], opaque("_calculate_residuals")(Z, kw["impedances"]))
                eq_check(sess, f"pseudo_chisqr == chisqr(data.get_impedances(), impedances){tag}", kw["pseudo_chisqr"], opaque("_calculate_pseudo_chisqr")(Z, kw["impedances"]))
                eq_check(sess, f"gammas == g_tau * R_pol(data.get_impedances()){tag}", kw["gammas"], T(fn("mul", 2)(tv(_find_arg(kw["gammas"], 0)), tv(opaque("R_pol")(Z)))))
        sess.check("cover", [], z3.BoolVal(n >= 6), 0, label=f"paths={n}")
    return (f"{TRNNLS}:{qual}[{which}]", TRNNLS, qual, run)


def _find_arg(term: "T", i: int):
    return T(term.e.arg(i))


_c08_without_drt = c08_targets


def c08_targets():       # noqa: F811
    from . import assembly, tupleproto
    return _c08_without_drt() + [target_trnnls("result"), assembly.target_drt_assembly(), tupleproto.target_tuple_protocols()]
