"""Sidecar contracts for pyimpspec.circuit.base:Element (C14; imported by C03, C12).

State model (DESIGN C14): per instance four dicts over the class's key set + label; class defaults dv, dl, du, df.
Class invariant Inv: forall k. lower[k] < upper[k].  NaN is excluded by `requires` (floats are a total order here).
The same Contract object is (i) proved against the real method body and (ii) assumed at call sites.
"""
from __future__ import annotations

from typing import Any, Callable, Dict, List, Optional

import z3

from pyvc.core import Session, find_def
from pyvc.symex import Contract, Executor, LoopSpec, Raised, State, Unsupported
from pyvc.values import (NONE, ClassV, DictV, Exc, FuncV, Key, NEG_INF, Obj, POS_INF, PyDict, Ref, StrV, TupleV, fresh,
                         INF_AXIOMS)
from pyvc import builtins as B

MOD = "circuit/base"
VAL, LO, UP, FX = "_parameter_value", "_parameter_lower_limit", "_parameter_upper_limit", "_parameter_fixed"
DVAL, DLO, DUP, DFX = ("_parameter_default_value", "_parameter_default_lower_limit", "_parameter_default_upper_limit",
                       "_parameter_default_fixed")
R = z3.RealSort()
Bo = z3.BoolSort()


def k_():
    return fresh("k", Key)


def typed(d: DictV):
    k = k_()
    return z3.ForAll([k], z3.Implies(d.has(k), z3.And(NEG_INF <= d.get(k), d.get(k) <= POS_INF)))


class View:
    """read access to an element's (or its class's) dicts in a given state"""

    def __init__(self, st: State, ref):
        self.st, self.ref = st, ref

    def d(self, name) -> DictV:
        o = self.st.deref(self.ref)
        if name in o.fields:
            return self.st.deref(o.fields[name])
        return self.st.deref(self.st.deref(o.klass).fields[name])

    value = property(lambda s: s.d(VAL))
    lower = property(lambda s: s.d(LO))
    upper = property(lambda s: s.d(UP))
    fixed = property(lambda s: s.d(FX))
    dvalue = property(lambda s: s.d(DVAL))
    dlower = property(lambda s: s.d(DLO))
    dupper = property(lambda s: s.d(DUP))
    dfixed = property(lambda s: s.d(DFX))

    def keys(self, k):
        return self.dvalue.has(k)


def class_wf(v: View):
    """class-level well-formedness: the four default dicts share one key set, typed floats, default lower < default upper"""
    k = k_()
    return z3.And(
        z3.ForAll([k], z3.And(v.dlower.has(k) == v.dvalue.has(k), v.dupper.has(k) == v.dvalue.has(k), v.dfixed.has(k) == v.dvalue.has(k))),
        typed(v.dvalue), typed(v.dlower), typed(v.dupper),
        z3.ForAll([k], z3.Implies(v.dvalue.has(k), v.dlower.get(k) < v.dupper.get(k))),
        # registered defaults lie inside their default limits (checked per registered class from the ASTs, C15)
        z3.ForAll([k], z3.Implies(v.dvalue.has(k), z3.And(v.dlower.get(k) <= v.dvalue.get(k), v.dvalue.get(k) <= v.dupper.get(k)))),
    )


def inst_wf(v: View):
    k = k_()
    return z3.And(
        z3.ForAll([k], z3.And(v.value.has(k) == v.keys(k), v.lower.has(k) == v.keys(k), v.upper.has(k) == v.keys(k), v.fixed.has(k) == v.keys(k))),
        typed(v.value), typed(v.lower), typed(v.upper),
    )


def inv(v: View):
    k = k_()
    return z3.ForAll([k], z3.Implies(v.keys(k), v.lower.get(k) < v.upper.get(k)))


def within_limits(v: View):
    k = k_()
    return z3.ForAll([k], z3.Implies(v.keys(k), z3.And(v.lower.get(k) <= v.value.get(k), v.value.get(k) <= v.upper.get(k))))


def same_dict(a: DictV, b: DictV):
    return a.same_as(b)


def unchanged(v0: View, v1: View, names=(VAL, LO, UP, FX)):
    return z3.And(*[same_dict(v0.d(n), v1.d(n)) for n in names])


def new_class(st: State, tag: str) -> Ref:
    fields = {
        DVAL: st.alloc(DictV.symbolic(tag + ".dv", Key, R)),
        DLO: st.alloc(DictV.symbolic(tag + ".dl", Key, R)),
        DUP: st.alloc(DictV.symbolic(tag + ".du", Key, R)),
        DFX: st.alloc(DictV.symbolic(tag + ".df", Key, Bo)),
        "_valid_kwargs_keys": st.alloc(DictV.symbolic(tag + ".vk", Key, Bo)),
    }
    return st.alloc(Obj("class:Element", fields))


def new_instance(st: State, klass: Ref, tag: str) -> Ref:
    fields = {
        VAL: st.alloc(DictV.symbolic(tag + ".v", Key, R)),
        LO: st.alloc(DictV.symbolic(tag + ".lo", Key, R)),
        UP: st.alloc(DictV.symbolic(tag + ".up", Key, R)),
        FX: st.alloc(DictV.symbolic(tag + ".fx", Key, Bo)),
        "_label": StrV(note=tag + ".label"),
    }
    return st.alloc(Obj("Element", fields, klass))


def base_state(tag="self"):
    """arbitrary well-formed element in an arbitrary state satisfying Inv"""
    st = State()
    st.pc += INF_AXIOMS
    klass = new_class(st, "cls")
    me = new_instance(st, klass, tag)
    v = View(st, me)
    st.pc += [class_wf(v), inst_wf(v), inv(v)]
    return st, klass, me


# ----------------------------------------------------------------------------------------------------
# contracts, written once

def updated(old: DictV, P: DictV, f: Callable) -> Callable:
    """pointwise description: new[k] = f(k) if k in P else old[k] -- returned as predicate over `new`"""
    def pred(new: DictV):
        k = k_()
        return z3.And(
            z3.ForAll([k], new.has(k) == old.has(k)),
            z3.ForAll([k], z3.Implies(old.has(k), new.get(k) == z3.If(P.has(k), f(k), old.get(k)))),
        )
    return pred


def rmax(a, b):
    return z3.If(a >= b, a, b)


def rmin(a, b):
    return z3.If(a <= b, a, b)


class SetterContract:
    """contract of set_values / set_lower_limits / set_upper_limits / set_fixed in terms of the pair map P"""

    def __init__(self, name: str):
        self.name = name

    # condition on (pre-state, P) under which the call terminates normally -- and only then
    def ok_key(self, v0: View, P: DictV, k):
        if self.name == "set_lower_limits":
            return z3.And(v0.keys(k), P.get(k) < v0.upper.get(k))
        if self.name == "set_upper_limits":
            return z3.And(v0.keys(k), P.get(k) > v0.lower.get(k))
        return v0.keys(k)

    def no_raise(self, v0: View, P: DictV):
        k = k_()
        return z3.ForAll([k], z3.Implies(P.has(k), self.ok_key(v0, P, k)))

    def modifies(self):
        return {"set_values": [VAL], "set_lower_limits": [VAL, LO], "set_upper_limits": [VAL, UP], "set_fixed": [FX]}[self.name]

    def key_post(self, v0: View, v1: View, P: DictV, k):
        """state of key k after it has been processed successfully"""
        if self.name == "set_values":
            return v1.value.get(k) == P.get(k)
        if self.name == "set_lower_limits":
            return z3.And(v1.lower.get(k) == P.get(k), v1.value.get(k) == rmax(v0.value.get(k), P.get(k)))
        if self.name == "set_upper_limits":
            return z3.And(v1.upper.get(k) == P.get(k), v1.value.get(k) == rmin(v0.value.get(k), P.get(k)))
        return v1.fixed.get(k) == P.get(k)

    def key_same(self, v0: View, v1: View, k):
        return z3.And(*[v1.d(n).get(k) == v0.d(n).get(k) for n in self.modifies()])

    def post(self, v0: View, v1: View, P: DictV):
        k = k_()
        others = [n for n in (VAL, LO, UP, FX) if n not in self.modifies()]
        return z3.And(
            inst_wf(v1),
            unchanged(v0, v1, others),
            z3.ForAll([k], z3.Implies(v0.keys(k), z3.If(P.has(k), self.key_post(v0, v1, P, k), self.key_same(v0, v1, k)))),
        )

    def partial(self, v0: View, v1: View, P: DictV, done):
        """loop invariant / exceptional post: keys in `done` are processed, all others untouched"""
        k = k_()
        others = [n for n in (VAL, LO, UP, FX) if n not in self.modifies()]
        return z3.And(
            inst_wf(v1),
            unchanged(v0, v1, others),
            z3.ForAll([k], z3.Implies(z3.Select(done, k), z3.And(P.has(k), self.ok_key(v0, P, k)))),
            z3.ForAll([k], z3.Implies(v0.keys(k), z3.If(z3.Select(done, k), self.key_post(v0, v1, P, k), self.key_same(v0, v1, k)))),
        )


SETTERS = {n: SetterContract(n) for n in ("set_values", "set_lower_limits", "set_upper_limits", "set_fixed")}


def pairs_from_call(ex: Executor, st: State, args, kwargs, vsort) -> DictV:
    """the pair map denoted by a call  f(k1, v1, ..., **kw)  (positional pairs / explicit keywords / one **map)"""
    P = None
    if "**" in kwargs:
        P = st.deref(kwargs["**"])
        if isinstance(P, PyDict) and not P.items:
            P = DictV.empty(Key, vsort)
    if P is None:
        P = DictV.empty(Key, vsort)
    if [k for k in kwargs if k != "**"]:
        raise Unsupported("explicit keyword names at a contract call site")
    if len(args) % 2:
        raise Unsupported("odd positional arguments at a contract call site")
    for i in range(0, len(args), 2):
        P = P.store(args[i], ex.lift(args[i + 1]))
    return P


def setter_apply(name: str, strict: bool):
    """call-site use of a setter contract.  strict: the caller must establish no_raise (call-pre obligation).
    non-strict: fork a raising path (KeyError / ValueError) when no_raise cannot be shown."""
    C = SETTERS[name]
    vsort = Bo if name == "set_fixed" else R

    def apply(ex: Executor, st: State, recv, args, kwargs, line):
        P = pairs_from_call(ex, st, args, kwargs, vsort)
        v0 = View(st.clone(), recv)
        outs = []
        if strict:
            ex.oblige("call-pre", st, C.no_raise(v0, P), line, f"{name}:no-raise")
        else:
            # the caller tolerates ValueError (a refused limit) but not KeyError: the keys must be the element's keys
            k = k_()
            ex.oblige("call-pre", st, z3.ForAll([k], z3.Implies(P.has(k), v0.keys(k))), line, f"{name}:keys-are-parameter-keys (no KeyError)")
            sr = st.clone()
            sr.pc.append(z3.Not(C.no_raise(v0, P)))
            if ex.feasible(sr):
                outs.append((Raised(Exc("ValueError", line)), sr))
        st.pc.append(C.no_raise(v0, P))
        o = st.deref(recv)
        for n in C.modifies():
            cur = st.deref(o.fields[n])
            st.heap[o.fields[n].addr] = DictV.symbolic(f"{name}.{n}", cur.ksort, cur.vsort)
        v1 = View(st, recv)
        st.pc.append(C.post(v0, v1, P))
        outs.append((recv, st))
        return outs
    return apply


def init_post(vk: View, v1: View, KW: Optional[DictV]):
    """Element.__init__: defaults, overridden by kwargs"""
    k = k_()
    val = z3.ForAll([k], z3.Implies(vk.keys(k), v1.value.get(k) == (z3.If(KW.has(k), KW.get(k), vk.dvalue.get(k)) if KW is not None else vk.dvalue.get(k))))
    return z3.And(inst_wf(v1), val, same_dict(v1.lower, vk.dlower), same_dict(v1.upper, vk.dupper), same_dict(v1.fixed, vk.dfixed))


def new_apply(ex: Executor, st: State, cls, args, kwargs, line):
    """type(self)() -- fresh instance in the class-default state (contract of Element.__init__, proved below)"""
    if args or [k for k in kwargs if k != "**"]:
        raise Unsupported("Element(...) with explicit arguments at a contract call site")
    klass = st.ghost["klass"]
    me = new_instance(st, klass, f"new{line}")
    v1 = View(st, me)
    KW = st.deref(kwargs["**"]) if "**" in kwargs else None
    if KW is not None:
        k = k_()
        ex.oblige("call-pre", st, z3.ForAll([k], z3.Implies(KW.has(k), v1.keys(k))), line, "__init__:valid-keys")
    st.pc.append(init_post(View(st, klass), v1, KW))
    st.deref(me).fields["_label"] = ""
    return [(me, st)]


def set_label_apply(ex: Executor, st: State, recv, args, kwargs, line):
    """set_label(label): trusted here (string predicates; bounded check in bounded/c14.py).  Label already accepted before
    (it is the label of an existing element) => accepted again, stored stripped-equal."""
    o = st.deref(recv)
    o.fields["_label"] = args[0]
    return [(recv, st)]


def make_executor(sess: Session, strict_calls=True, contracts_for=("set_values", "set_lower_limits", "set_upper_limits", "set_fixed")) -> Executor:
    ex = Executor(sess, MOD, "Element")
    ex.empty_dict_sorts = (Key, R)
    B.install(ex)
    for n in contracts_for:
        ex.contracts[n] = Contract(n, setter_apply(n, strict_calls))
    ex.contracts["new:Element"] = Contract("new:Element", new_apply)
    ex.contracts["set_label"] = Contract("set_label", set_label_apply)
    for m in ("get_values", "get_lower_limits", "get_upper_limits", "are_fixed", "get_default_values", "get_default_value",
              "get_default_lower_limits", "get_default_lower_limit", "get_default_upper_limits", "get_default_upper_limit",
              "are_fixed_by_default", "is_fixed_by_default", "__copy__", "get_value", "get_lower_limit", "get_upper_limit", "is_fixed"):
        ex.inline[m] = (MOD, f"Element.{m}")
    return ex
