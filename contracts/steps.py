"""C18 proof layer, part 3: step accounting of every `with Progress(..., total=E) as p:` block of the analysis modules, for all
inputs and all trip counts (engine E4, pyvc/stepcount.py).  The functions are discovered on every run by walking the real
modules, so a Progress block that is added later is put under the same obligations; the step contracts of callees that are
handed a Progress object are listed here and are obligations on those callees."""
from __future__ import annotations

import ast
from typing import Dict, List, Tuple

import z3

from pyvc import core
from pyvc.core import Session
from pyvc.stepcount import Requires, StepContract, analyse

MODULES = [
    "analysis/fitting",
    "analysis/drt/bht",
    "analysis/drt/lm",
    "analysis/drt/mrq_fit",
    "analysis/drt/peak_analysis",
    "analysis/drt/tr_nnls",
    "analysis/drt/tr_rbf",
    "analysis/kramers_kronig/exploratory",
    "analysis/kramers_kronig/single",
    "analysis/kramers_kronig/algorithms/__init__",
    "analysis/zhit/__init__",
]
# analysis/zhit/__init__.perform_zhit hands its Progress object to five stage functions in four other modules whose step counts
# depend on the sizes of the option tables they return to each other: their step summaries AND the sizes of what they return are
# inferred from their bodies (no declared contract), including the nested dict-of-dicts of interpolation options.  The same chain
# is also run with the real Progress class in contracts/c18.py (target_zhit_steps).


def functions_with_progress(module: str) -> List[ast.FunctionDef]:
    out = []
    try:
        tree = core.module_ast(module)
    except (FileNotFoundError, OSError):
        return out
    for fn in tree.body:
        if not isinstance(fn, ast.FunctionDef):
            continue
        for n in ast.walk(fn):
            if isinstance(n, ast.With) and any(isinstance(i.context_expr, ast.Call) and isinstance(i.context_expr.func, ast.Name) and i.context_expr.func.id == "Progress" for i in n.items):
                out.append(fn)
                break
    return out


def _abs(v):
    return z3.If(v >= 0, v, -v)


def _max(a, b):
    return z3.If(a >= b, a, b)


KK = "analysis/kramers_kronig/exploratory"
RBF = "analysis/drt/tr_rbf"

# callee step contracts: module, function, the parameter that is the Progress object (or the callback), an upper bound of the
# steps as a function of the other arguments, its text, and options.  Each is an obligation on the callee's body and the only
# thing a caller knows about the callee.
CALLEE_CONTRACTS: List[tuple] = [
    (KK, "_use_matrix_inversion", "prog", lambda a: 1 + a.len("num_RCs"), "1 + len(num_RCs)", {}),
    (KK, "_use_least_squares_fitting", "prog", lambda a: 1 + a.len("num_RCs"), "1 + len(num_RCs)", {}),
    (KK, "_use_cnls", "prog", lambda a: 1 + a.len("num_RCs"), "1 + len(num_RCs)", {}),
    (KK, "_perform_tests", "prog", lambda a: 1 + a.len("num_RCs"), "1 + len(num_RCs)", {}),
    (KK, "_log_F_ext_residual", "prog", lambda a: z3.RealVal(1), "1", {}),
    (KK, "_evaluate_log_F_ext_using_lmfit", "prog", lambda a: z3.If(a["num_F_ext_evaluations"] > 0, a["num_F_ext_evaluations"] + 2, 4),
     "num_F_ext_evaluations + 2 if num_F_ext_evaluations > 0 else 4", {"none_fields": [("wrapper_kwargs", "prog")]}),
    (KK, "_evaluate_log_F_ext_using_custom_approach", "prog", lambda a: a["num_F_ext_evaluations"] + 1, "num_F_ext_evaluations + 1", {"none_fields": [("wrapper_kwargs", "prog")]}),
    (RBF, "_generate_truncated_multivariate_gaussians", "callback", lambda a: _max(a["L"] - 1, 0), "max(L - 1, 0) calls", {"callable_param": True}),
    (RBF, "_calculate_credible_intervals", "prog", lambda a: _max(a["num_samples"] - 1, 0), "max(num_samples - 1, 0)", {}),
]

# preconditions of private helpers: assumed inside, proved at every call site in the functions under analysis
REQUIRES: List[Tuple[str, str, object, str]] = [
    ("analysis/drt/bht", "_perform_attempts", lambda a: a["num_attempts"] >= 1, "num_attempts >= 1"),
    (KK, "_evaluate_log_F_ext_using_custom_approach", lambda a: a["num_F_ext_evaluations"] >= 10, "num_F_ext_evaluations >= 10"),
]

# loop invariants: (module, function) -> {source of the loop test: (inv(V, C), text)}
LOOP_INVARIANTS = {
    (RBF, "_generate_truncated_multivariate_gaussians"): {
        "i <= L": (lambda V, C: z3.And(C["callback"] <= V["i"] - 2, V["i"] >= 2, V["i"] <= _max(V["L"] + 1, 2)), "calls(callback) <= i - 2 and 2 <= i <= max(L + 1, 2)"),
    },
}


def _minimize(ex, call, st, line):
    """ASSUMED contract of lmfit.minimize(fcn, params, args=(...), max_nfev=N): fcn(params, *args) is evaluated at most N + 2
    times (N times by the search, which lmfit aborts beyond max_nfev, and at most twice afterwards), and not at all by anything
    else.  The steps of one evaluation come from fcn's own step contract."""
    kw = {k.arg: k.value for k in call.keywords if k.arg}
    fcn = call.args[0] if call.args else kw.get("fcn")
    args = kw.get("args")
    carried = ex.carried(args, st) if args is not None else []
    if not carried:
        return st
    contract = ex.contracts.get(fcn.id) if isinstance(fcn, ast.Name) else None
    n = ex.num(kw["max_nfev"], st) if "max_nfev" in kw else None
    for cname, cond, path in carried:
        c = ex.ctxs[cname]
        # fcn(params, *args): args[i] is parameter i + 1
        ok = contract is not None and n is not None and len(path) == 1 and int(path[0]) + 1 < len(contract.params) and contract.params[int(path[0]) + 1] == contract.prog_param
        if not ok:
            c.tainted = f"handed to lmfit.minimize at line {line} in a way its assumed contract does not cover"
            continue
        per_call = contract.delta(None)
        st = ex.advance(st, cname, (n + 2) * per_call, line, cond)
        ex.note(f"line {line}: ASSUMED: lmfit.minimize evaluates its objective at most max_nfev + 2 times")
    return st


def _init_windows(ex, call, st, line):
    """_initialize_window_functions() is only called when the table is empty, which the assumption below excludes"""
    return st


EXTERNALS = {"minimize": _minimize, "_initialize_window_functions": _init_windows}


def requires_for(module: str) -> Dict[str, Requires]:
    return {name: Requires(core.find_def(mod, name), pre, text) for mod, name, pre, text in REQUIRES if mod == module}


def contracts_for(module: str) -> Dict[str, StepContract]:
    out = {}
    for mod, name, param, delta, text, opts in CALLEE_CONTRACTS:
        if mod == module:
            out[name] = StepContract(core.find_def(mod, name), param, delta, text, **opts)
    return out


def _assume_windows(ex):
    """ASSUMED: the module-level table of window functions is non-empty whenever a Z-HIT function reads it: perform_zhit and
    _generate_window_options fill it first when it is empty, and _initialize_window_functions is assumed to find at least one
    window in scipy.signal.windows (true on the repaired tree).  The size of the table is one symbol shared by all of them."""
    from pyvc.stepcount import State
    ex.hyps.append(ex.length(ast.Name(id="_WINDOW_FUNCTIONS", ctx=ast.Load()), State()) >= 1)
    ex.note("ASSUMED: the table of window functions is non-empty when it is read (it is filled on first use)")


def _analyse(sess, module, fn, own=None):
    pre = _assume_windows if "zhit" in module else None
    return analyse(sess, module, fn, contracts_for(module), own=own, requires=requires_for(module), externals=EXTERNALS, loop_invs=LOOP_INVARIANTS.get((module, fn.name), {}), prepare=pre)


# public entry points that take (data, **numeric options): a counter-model of a step obligation is replayed by calling the
# real function on a mock spectrum with the model's values for its numeric parameters
ENTRY_POINTS = {
    ("analysis/drt/tr_nnls", "calculate_drt_tr_nnls"): "from pyimpspec.analysis.drt.tr_nnls import calculate_drt_tr_nnls as entry",
    ("analysis/drt/tr_rbf", "calculate_drt_tr_rbf"): "from pyimpspec.analysis.drt.tr_rbf import calculate_drt_tr_rbf as entry",
    ("analysis/drt/bht", "calculate_drt_bht"): "from pyimpspec.analysis.drt.bht import calculate_drt_bht as entry",
    ("analysis/drt/lm", "calculate_drt_lm"): "from pyimpspec.analysis.drt.lm import calculate_drt_lm as entry",
    ("analysis/kramers_kronig/exploratory", "evaluate_log_F_ext"): "from pyimpspec.analysis.kramers_kronig.exploratory import evaluate_log_F_ext as entry",
}


def _attach_replays(sess: Session, module: str, fn: ast.FunctionDef):
    imp = ENTRY_POINTS.get((module, fn.name))
    if imp is None:
        return
    a = fn.args
    defaults = {}
    for x, d in zip(reversed(a.posonlyargs + a.args), reversed(a.defaults)):
        defaults[x.arg] = d
    for ob in sess.obligations:
        if ob.status != "refuted" or not ob.model or ob.replay:
            continue
        kwargs = {}
        for name, val in ob.model.items():
            if not name.endswith("@0"):
                continue
            p = name[:-2]
            d = defaults.get(p)
            if not (isinstance(d, ast.Constant) or (isinstance(d, ast.UnaryOp) and isinstance(d.operand, ast.Constant))):
                continue
            dv = ast.literal_eval(d)
            if isinstance(dv, bool) or not isinstance(dv, (int, float)):
                continue
            try:
                from fractions import Fraction
                fv = float(Fraction(val.replace("?", "")))
            except (ValueError, ZeroDivisionError):
                continue
            kwargs[p] = int(round(fv)) if isinstance(dv, int) else fv
        if not kwargs:
            continue
        ob.replay = {"repro": "import warnings; warnings.filterwarnings('ignore')\nfrom pyimpspec import generate_mock_data\n" + imp + "\n"
                              "data = generate_mock_data('CIRCUIT_1', noise=0.0)[0]\n"
                              f"kwargs = {kwargs!r}\n"
                              "try:\n    entry(data, **kwargs)\nexcept ZeroDivisionError:\n    raise\n"
                              "except ValueError as ex:\n    if 'self._i' in str(ex) or '_total' in str(ex):\n        raise\n    print('refused or failed otherwise:', ex)\n"
                              "except Exception as ex:\n    print('other outcome:', type(ex).__name__, ex)\n"}


def target_steps(module: str, fname: str):
    def run(sess: Session):
        fn = core.find_def(module, fname)
        ex = _analyse(sess, module, fn)
        _attach_replays(sess, module, fn)
        for note in ex.notes:
            sess.assumptions.append(f"{fname}: {note}")
        sess.check("cover", [], z3.BoolVal(ex.n_obl >= 2), fn.lineno, label=f"obligations generated for the Progress blocks of {fname}: {ex.n_obl}")
    return (f"{module}:{fname}[steps]", module, fname, run)


def target_callee(module: str, fname: str):
    def run(sess: Session):
        fn = core.find_def(module, fname)
        own = contracts_for(module)[fname]
        ex = _analyse(sess, module, fn, own=own)
        for note in ex.notes:
            sess.assumptions.append(f"{fname}: {note}")
        sess.check("cover", [], z3.BoolVal(ex.n_obl >= 1), fn.lineno, label=f"obligations generated for the step contract of {fname}: {ex.n_obl}")
    return (f"{module}:{fname}[step contract]", module, fname, run)


def target_progress_confined():
    """discharges an assumption of the step analysis: a Progress object is only ever created as the context expression of a
    `with` statement (never kept in a module-level variable, an attribute or a container), so a function that is not handed the
    object cannot step it"""
    def run(sess: Session):
        mods = sorted(set(MODULES + ["analysis/zhit/weights", "analysis/zhit/smoothing/__init__", "analysis/zhit/interpolation", "analysis/zhit/reconstruction", "analysis/zhit/offset",
                                     "analysis/kramers_kronig/least_squares", "analysis/kramers_kronig/matrix_inversion", "analysis/kramers_kronig/cnls", "analysis/kramers_kronig/utility", "analysis/utility"]))
        n = 0
        for m in mods:
            try:
                tree = core.module_ast(m)
            except (FileNotFoundError, OSError):
                continue
            n += 1
            with_exprs = {id(i.context_expr) for w in ast.walk(tree) if isinstance(w, ast.With) for i in w.items}
            annotations = set()
            for node in ast.walk(tree):
                if isinstance(node, ast.AnnAssign):
                    annotations |= {id(x) for x in ast.walk(node.annotation)}
                elif isinstance(node, ast.arg) and node.annotation is not None:
                    annotations |= {id(x) for x in ast.walk(node.annotation)}
                elif isinstance(node, ast.FunctionDef) and node.returns is not None:
                    annotations |= {id(x) for x in ast.walk(node.returns)}
            stray = []
            for node in ast.walk(tree):
                if isinstance(node, ast.Call) and isinstance(node.func, ast.Name) and node.func.id == "Progress" and id(node) not in with_exprs:
                    stray.append(node.lineno)
                elif isinstance(node, ast.Name) and node.id == "Progress" and id(node) not in annotations and not any(isinstance(c, ast.Call) and c.func is node for c in ast.walk(tree)):
                    stray.append(node.lineno)
            ob = sess.check("frame", [], z3.BoolVal(not stray), 0, label=f"{m}: Progress objects exist only as `with Progress(...) as name`")
            if stray:
                ob.detail = f"other uses at lines {stray[:6]}"
        sess.check("cover", [], z3.BoolVal(n >= 12), 0, label=f"modules scanned: {n}")
    return ("analysis/fitting:Progress objects are confined to their with blocks", "analysis/fitting", "fit_circuit", run)


def targets():
    out = [target_progress_confined()]
    for m in MODULES:
        for fn in functions_with_progress(m):
            out.append(target_steps(m, fn.name))
    for mod, name, *_ in CALLEE_CONTRACTS:
        out.append(target_callee(mod, name))
    return out
